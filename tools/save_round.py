#!/venv/bin/python
"""save_round.py <round> <out-dir> <results.jsonl>...: copy the verified variants of one round of independent
sub-agents (out-dir/Cxx/{n1,n2,b1,b2}/{patch.diff,demo.py,meta.json}) into /verif/seeded (breaking) and
/verif/seeded_neutral (behaviour preserving).  Only variants whose line in a results file (written by
tools/verify_r<N>.sh from a scratch worktree of /repo) shows: patch applied, demo exit 0 on the clean tree, suite
unchanged, and demo exit 1 (breaking) / 0 (neutral) with the change."""
import json
import os
import shutil
import subprocess
import sys

rnd, out = sys.argv[1], sys.argv[2]
head = subprocess.run(["git", "-C", "/repo", "rev-parse", "--short", "HEAD"], capture_output=True, text=True).stdout.strip()
res = {}
for f in sys.argv[3:]:
    for line in open(f):
        try:
            d = json.loads(line)
        except ValueError:
            continue
        res[d["id"]] = d
kept = dropped = 0
for key, d in sorted(res.items()):
    pid, v = key.split("/")
    src = f"{out}/{pid}/{v}"
    neutral = v[0] == "n"
    ok = (d.get("applied") == 1 and d["demo_clean_rc"] == 0 and d["tests"].startswith("2074 passed")
          and "8 errors" in d["tests"] and d["demo_mut_rc"] == (0 if neutral else 1))
    if not ok:
        print("NOT KEPT", key, d)
        dropped += 1
        continue
    dst = f"/verif/{'seeded_neutral' if neutral else 'seeded'}/{pid}_r{rnd}{v}"
    os.makedirs(dst, exist_ok=True)
    shutil.copy(f"{src}/patch.diff", f"{dst}/patch.diff")
    shutil.copy(f"{src}/demo.py", f"{dst}/demo.py")
    try:
        m = json.load(open(f"{src}/meta.json"))
    except Exception:
        m = {}
    meta = {
        "property": pid,
        "round": int(rnd),
        "kind": "neutral refactoring" if neutral else "breaking change",
        "origin": "independent sub-agent given only the property text and its own scratch worktree (no access to /verif)",
        "summary": m.get("summary", ""),
        "files_changed": m.get("files_changed", []),
        "verified_on": f"scratch git worktree of /repo HEAD ({head}), removed afterwards",
        "what_i_ran": [
            "demo on the clean tree -> exit 0",
            f"demo with the change -> exit {d['demo_mut_rc']}",
            f"test suite with the change -> {d['tests']}",
        ],
    }
    if not neutral:
        meta["needs_to_manifest"] = m.get("needs_to_manifest", "")
    json.dump(meta, open(f"{dst}/meta.json", "w"), indent=1)
    kept += 1
print(f"kept {kept}, not kept {dropped}")
