"""Engine B: SPMD collective matching (rank-variation labels + balanced arms).

Every value gets a *variation label*: the set of sources by which it may differ
between the ranks of one communicator.  A collective call site must not be
control dependent on a non-uniform condition unless the region it governs is
*balanced* (every alternative issues the same sequence of collectives).
See DESIGN.md 4.1.
"""
from __future__ import annotations

import ast
import re
from dataclasses import dataclass, field

from .core import src, parent, AnalysisError
from .resolve import Program

RANK, AXIS, DATA, CLOCK, FS, HASH = "RANK", "AXIS", "DATA", "CLOCK", "FS", "HASH"
NONUNIFORM = {RANK, AXIS, DATA, CLOCK, HASH}      # FS is uniform under the shared-file-system assumption

COLLECTIVE_OPS = {
    "Create_cart", "Create_graph", "Sub", "Split", "Dup", "Create", "Barrier", "barrier",
    "Alltoall", "Alltoallv", "Alltoallw", "alltoall", "Allgather", "Allgatherv", "allgather",
    "Allreduce", "allreduce", "Reduce", "reduce", "Reduce_scatter", "Bcast", "bcast",
    "Gather", "gather", "Gatherv", "Scatter", "scatter", "Scatterv", "Scan", "Exscan", "scan", "exscan",
}
ROOTED = {"Reduce", "reduce", "Bcast", "bcast", "Gather", "gather", "Gatherv", "Scatter", "scatter", "Scatterv"}
# result identical on all ranks of the communicator
SANITISERS = {"Allreduce", "allreduce", "Bcast", "bcast", "allgather", "Allgather", "Get_size"}
# root position when passed positionally (after the buffers)
ROOT_POS = {"Reduce": 3, "reduce": 2, "Bcast": 1, "bcast": 1, "Gather": 2, "gather": 1, "Gatherv": 2,
            "Scatter": 2, "scatter": 1, "Scatterv": 2}
COMM_RE = re.compile(r"comm|topology|COMM_WORLD|cart", re.I)

RANKDEP_ATTR = {"starts": AXIS, "ends": AXIS, "shape": AXIS, "size": AXIS, "ranks": RANK, "mpiCoords": RANK,
                "_mpi_coords": RANK, "rank": RANK, "_f": DATA, "_starts": AXIS, "_ends": AXIS, "_shape": AXIS,
                "_size": AXIS, "_ranks": RANK, "_my_data": DATA}
UNIFORM_ATTR = {"max_block_shape", "max_block_size", "fullShape", "nprocs", "dims_order", "inv_dims_order",
                "ndims", "name", "nProcs", "nDistributedDirections", "_max_shape", "_max_size", "_full_shape",
                "_nprocs", "_dims_order", "_inv_dims_order", "_ndims", "_name", "nLayouts", "availableLayouts",
                "mpi_size", "nGlobalCoords", "_nGlobalCoords", "eta_grid", "_Vals", "hasSaveMemory"}
UNIFORM_CALLS = {"mpi_starts", "mpi_lengths", "Get_size", "len", "range", "isinstance", "hasattr", "int", "float",
                 "str", "format", "max", "min", "sum", "abs", "list", "tuple", "dict", "sorted", "enumerate", "zip"}

# the single reasoned exemption of DESIGN 4.1
EXEMPT_GUARDS = {
    ("self._buffer_size == 0", "transpose"):
        "zero only on the plot-only rank, whose communicators are singletons (precondition p <= n)",
}


def is_comm_expr(e) -> bool:
    return bool(COMM_RE.search(src(e)))


@dataclass
class Event:
    kind: str              # 'coll' | 'call' | 'loop'
    sig: tuple
    node: ast.AST
    body: list = field(default_factory=list)

    def __eq__(self, o):
        return isinstance(o, Event) and self.kind == o.kind and self.sig == o.sig and self.body == o.body

    def __repr__(self):
        if self.kind == "loop":
            return f"loop[{self.sig}]{self.body}"
        return f"{self.sig}"


@dataclass
class Path:
    choices: tuple          # ((test_src, polarity), ...)
    events: tuple
    exited: str | None      # None | 'return' | 'raise' | 'break' | 'continue'


class FuncInfo:
    def __init__(self, rel, qual, node, cls):
        self.rel, self.qual, self.node, self.cls = rel, qual, node, cls
        self.params = [a.arg for a in node.args.posonlyargs + node.args.args + node.args.kwonlyargs]
        if node.args.vararg:
            self.params.append(node.args.vararg.arg)
        if node.args.kwarg:
            self.params.append(node.args.kwarg.arg)
        self.collective_sites: list[ast.Call] = []      # direct collective calls
        self.callee_sites: list[tuple[ast.Call, list]] = []   # calls to collective functions
        self.is_collective = False
        self.required_uniform: dict[str, str] = {}      # param -> reason
        self.return_labels: set = set()
        self.labels_at: dict[ast.AST, set] = {}


class SPMD:
    def __init__(self, prog: Program, chk, units: list[str], b4_ok_funcs=()):
        self.prog = prog
        self.chk = chk
        self.units = units
        self.b4_ok = set(b4_ok_funcs)
        self.funcs: dict[tuple[str, str], FuncInfo] = {}
        self.class_attr: dict[tuple[str, str], set] = {}
        for rel in units:
            m = prog.mods[rel]
            for q, n in m.functions().items():
                cls = q.split(".")[0] if "." in q and q.split(".")[0] in m.classes() else None
                self.funcs[(rel, q)] = FuncInfo(rel, q, n, cls)
        self._by_node = {fi.node: fi for fi in self.funcs.values()}
        self._find_collectives()
        self._class_attr_labels()

    # ---------------------------------------------------------------- sites
    def _h5_collective(self, fn):
        """calls that are collective because a parallel (mpio) HDF5 file is open in fn"""
        opened = False
        for c in ast.walk(fn):
            if isinstance(c, ast.Call) and src(c.func).endswith("File") and \
                    any(k.arg == "driver" and src(k.value) in ("'mpio'", '"mpio"') for k in c.keywords):
                opened = True
        res = []
        if opened:
            for c in ast.walk(fn):
                if isinstance(c, ast.Call) and isinstance(c.func, ast.Attribute):
                    if c.func.attr in ("create_dataset", "close", "create_group", "require_dataset") or \
                            (c.func.attr == "create" and src(c.func.value).endswith(".attrs")):
                        res.append(c)
                    elif c.func.attr == "File" and any(k.arg == "driver" for k in c.keywords):
                        res.append(c)
        return res

    def direct_collectives(self, fn):
        res = []
        for c in ast.walk(fn):
            if isinstance(c, ast.Call) and isinstance(c.func, ast.Attribute) and c.func.attr in COLLECTIVE_OPS \
                    and is_comm_expr(c.func.value) and not src(c.func.value).startswith(("np.", "numpy.")):
                res.append(c)
        res.extend(self._h5_collective(fn))
        own = [c for c in res if self._owner(c) is fn]
        own.sort(key=lambda c: (c.lineno, c.col_offset))
        return own

    def _owner(self, node):
        p = parent(node)
        while p is not None and not isinstance(p, (ast.FunctionDef, ast.Lambda)):
            p = parent(p)
        return p

    def _find_collectives(self):
        for fi in self.funcs.values():
            fi.collective_sites = self.direct_collectives(fi.node)
            fi.is_collective = bool(fi.collective_sites)
        self.calls: dict[tuple[str, str], list[tuple[ast.Call, list]]] = {}
        for key, fi in self.funcs.items():
            lst = []
            for c in ast.walk(fi.node):
                if isinstance(c, ast.Call) and self._owner(c) is fi.node:
                    tg = self.prog.resolve(c, fi.rel)
                    tg = [(r, q) for r, q, n in tg if (r, q) in self.funcs]
                    if tg:
                        lst.append((c, tg))
            self.calls[key] = lst
        changed = True
        while changed:
            changed = False
            for key, fi in self.funcs.items():
                if fi.is_collective:
                    continue
                for c, tg in self.calls[key]:
                    if any(self.funcs[t].is_collective for t in tg):
                        fi.is_collective = True
                        changed = True
                        break
        for key, fi in self.funcs.items():
            fi.callee_sites = [(c, tg) for c, tg in self.calls[key] if any(self.funcs[t].is_collective for t in tg)]

    # ---------------------------------------------------------------- labels
    def _class_attr_labels(self):
        for _ in range(4):
            for fi in self.funcs.values():
                if fi.cls is None:
                    continue
                LabelFlow(self, fi, collect_attrs=True).run()

    def attr_label(self, cls, attr):
        out = set()
        for c in self.prog.mro(cls) + self.prog.subclasses(cls):
            out |= self.class_attr.get((c, attr), set())
        return out

    def analyse(self, fi: FuncInfo):
        lf = LabelFlow(self, fi)
        lf.run()
        fi.labels_at = lf.at
        fi.return_labels = lf.ret
        return lf

    def return_labels(self, key, depth=0):
        fi = self.funcs[key]
        if getattr(fi, "_ret_done", False):
            return fi.return_labels
        if getattr(fi, "_ret_busy", False) or depth > 6:
            return set()
        fi._ret_busy = True
        lf = LabelFlow(self, fi, depth=depth + 1)
        lf.run()
        fi.return_labels = lf.ret
        fi.ret_elems = lf.ret_elems if lf._ret_shapes and -1 not in lf._ret_shapes and len(lf._ret_shapes) == 1 else None
        fi._ret_busy = False
        fi._ret_done = True
        return fi.return_labels


def nonuniform(labels) -> set:
    return {l for l in labels if l in NONUNIFORM}


def params_of(labels) -> set:
    return {l[2:] for l in labels if l.startswith("P:")}


class LabelFlow:
    """Flow-sensitive forward propagation of variation labels through one
    function (structured traversal; loops to fixpoint; implicit flows via pc)."""

    def __init__(self, spmd: SPMD, fi: FuncInfo, collect_attrs=False, depth=0):
        self.s = spmd
        self.fi = fi
        self.collect_attrs = collect_attrs
        self.depth = depth
        self.at: dict[ast.AST, set] = {}
        self.ret: set = set()
        self.ret_elems = None          # per-element labels when every return is a tuple of one length
        self._ret_shapes = set()
        self.setvars: set[str] = set()

    def run(self):
        env = {p: {f"P:{p}"} for p in self.fi.params}
        if "self" in env:
            env["self"] = set()
        self.block(self.fi.node.body, env, set())

    # -- statements
    def block(self, stmts, env, pc):
        """returns env after the block; pc grows after statements that may exit early"""
        env, _ = self.block2(stmts, env, pc)
        return env

    def block2(self, stmts, env, pc):
        pc = set(pc)
        extra_all = set()
        for st in stmts:
            env, extra = self.stmt(st, env, pc)
            pc |= extra
            extra_all |= extra
        return env, extra_all

    def has_exit(self, stmts, kinds=("return", "break", "continue")):
        for st in stmts:
            for n in ast.walk(st):
                if isinstance(n, (ast.FunctionDef, ast.Lambda)):
                    continue
                if (isinstance(n, ast.Return) and "return" in kinds) or \
                        (isinstance(n, ast.Break) and "break" in kinds) or \
                        (isinstance(n, ast.Continue) and "continue" in kinds):
                    return True
        return False

    def stmt(self, st, env, pc):
        extra = set()
        if isinstance(st, ast.Assign):
            lab = self.expr(st.value, env) | pc
            self._mark_set(st)
            elems = None
            if isinstance(st.value, ast.Call) and len(st.targets) == 1 and isinstance(st.targets[0], ast.Tuple):
                elems = self.call_elems(st.value, env, len(st.targets[0].elts))
            for t in st.targets:
                if elems is not None:
                    for e, l in zip(t.elts, elems):
                        self.assign(e, l | pc, env, None)
                else:
                    self.assign(t, lab, env, st.value)
                if isinstance(t, ast.Name):
                    # presence (is it None?) is tracked apart from content: it depends on which assignment was reached (pc) and,
                    # for a copied name / a call result, on that value's own presence - not on the content of an array
                    v_ = st.value
                    if isinstance(v_, ast.Constant):
                        nl = set()
                    elif isinstance(v_, ast.Name):
                        nl = self.noneness(v_, env)
                    elif isinstance(v_, (ast.Subscript, ast.List, ast.Tuple, ast.Dict, ast.BinOp, ast.Compare, ast.ListComp)):
                        nl = set()
                    else:
                        nl = {l_ for l_ in lab if not l_.startswith("P:")}
                    env["?" + t.id] = nl | {l_ for l_ in pc if not l_.startswith("P:")} | {l_ for l_ in nl | pc if l_.startswith("P:")}
        elif isinstance(st, ast.AugAssign):
            lab = self.expr(st.value, env) | self.expr(st.target, env) | pc
            self.assign(st.target, lab, env, None)
        elif isinstance(st, ast.AnnAssign):
            if st.value is not None:
                self.assign(st.target, self.expr(st.value, env) | pc, env, st.value)
        elif isinstance(st, ast.Expr):
            self.expr(st.value, env)
            # mutating method calls on a local: x.append(e) etc.
            v = st.value
            if isinstance(v, ast.Call) and isinstance(v.func, ast.Attribute) and \
                    v.func.attr in ("append", "extend", "insert", "add", "update", "remove", "pop"):
                lab = set(pc)
                for a in v.args:
                    lab |= self.expr(a, env)
                self.assign(v.func.value, lab | self.expr(v.func.value, env), env, None, weak=True)
        elif isinstance(st, ast.If):
            tl = self.expr(st.test, env)
            self.at[st.test] = tl
            e1, x1 = self.block2(st.body, dict(env), pc | tl)
            e2, x2 = self.block2(st.orelse, dict(env), pc | tl)
            env = self.join(e1, e2)
            extra |= x1 | x2
        elif isinstance(st, (ast.For, ast.AsyncFor)):
            il = self.expr(st.iter, env)
            rows = self._literal_rows(st.iter)
            if rows is not None:
                # a literal table: the number of iterations is fixed by the source text, whatever the entries hold
                il = set()
            self.at[st.iter] = il
            self._mark_set_iter(st)
            for _ in range(3):
                e = dict(env)
                if rows is not None and isinstance(st.target, (ast.Tuple, ast.List)) and rows and \
                        all(isinstance(r, (ast.Tuple, ast.List)) and len(r.elts) == len(st.target.elts) for r in rows):
                    for k, t_ in enumerate(st.target.elts):
                        lab_k = set()
                        for r in rows:
                            lab_k |= self.expr(r.elts[k], e)
                        self.assign(t_, lab_k | pc, e, None)
                elif rows is not None:
                    lab_all = set()
                    for r in rows:
                        lab_all |= self.expr(r, e)
                    self.assign(st.target, lab_all | pc, e, None)
                else:
                    self.assign(st.target, il | pc, e, None)
                e, x = self.block2(st.body, e, pc | il)
                extra |= x
                env = self.join(env, e)
            env = self.join(env, self.block(st.orelse, dict(env), pc | il))
        elif isinstance(st, ast.While):
            for _ in range(3):
                tl = self.expr(st.test, env)
                self.at[st.test] = tl
                e, x = self.block2(st.body, dict(env), pc | tl)
                extra |= x
                env = self.join(env, e)
            tl = self.expr(st.test, env)
            self.at[st.test] = tl
        elif isinstance(st, ast.Return):
            if st.value is not None:
                self.ret |= self.expr(st.value, env) | pc
                if isinstance(st.value, ast.Tuple):
                    self._ret_shapes.add(len(st.value.elts))
                    el = [self.at.get(v, set()) | pc for v in st.value.elts]
                    if self.ret_elems is None:
                        self.ret_elems = el
                    elif len(self.ret_elems) == len(el):
                        self.ret_elems = [a | b for a, b in zip(self.ret_elems, el)]
                else:
                    self._ret_shapes.add(-1)
            else:
                self._ret_shapes.add(-1)
            self.at[st] = set(pc)
            # ranks that return here are gone: among the ranks that go on, values assigned later do not depend on the condition
            # of this exit (whether later collectives are still matched is the subject of B1-early-return, decided on at[st])
        elif isinstance(st, (ast.With, ast.AsyncWith)):
            for it in st.items:
                l = self.expr(it.context_expr, env)
                if it.optional_vars is not None:
                    self.assign(it.optional_vars, l | pc, env, None)
            env = self.block(st.body, env, pc)
        elif isinstance(st, ast.Try):
            env = self.block(st.body, env, pc)
            for h in st.handlers:
                env = self.join(env, self.block(h.body, dict(env), pc))
            env = self.block(st.orelse, env, pc)
            env = self.block(st.finalbody, env, pc)
        elif isinstance(st, ast.Assert):
            self.expr(st.test, env)
        elif isinstance(st, (ast.FunctionDef, ast.ClassDef)):
            env[st.name] = set()
        elif isinstance(st, (ast.Import, ast.ImportFrom)):
            for a in st.names:
                env[(a.asname or a.name).split(".")[0]] = set()
        elif isinstance(st, ast.Raise):
            if st.exc is not None:
                self.expr(st.exc, env)
        elif isinstance(st, (ast.Break, ast.Continue)):
            self.at[st] = set(pc)
            extra |= pc
        return env, extra

    def _mark_set(self, st):
        v = st.value
        is_set = isinstance(v, (ast.Set, ast.SetComp)) or \
            (isinstance(v, ast.Call) and isinstance(v.func, ast.Name) and v.func.id in ("set", "frozenset"))
        for t in st.targets:
            if isinstance(t, ast.Name):
                if is_set:
                    self.setvars.add(t.id)
                else:
                    self.setvars.discard(t.id)

    def _mark_set_iter(self, st):
        pass

    def _literal_rows(self, it):
        """elements of a literal tuple/list iterated by a for loop (directly or through a local assigned once), else None"""
        if isinstance(it, (ast.Tuple, ast.List)):
            return list(it.elts)
        if isinstance(it, ast.Name):
            defs = [n for n in ast.walk(self.fi.node) if isinstance(n, ast.Assign) and len(n.targets) == 1
                    and isinstance(n.targets[0], ast.Name) and n.targets[0].id == it.id]
            stores = [n for n in ast.walk(self.fi.node) if isinstance(n, ast.Name) and n.id == it.id and isinstance(n.ctx, ast.Store)]
            if len(defs) == 1 and len(stores) == 1 and isinstance(defs[0].value, (ast.Tuple, ast.List)):
                return list(defs[0].value.elts)
        return None

    def join(self, a, b):
        out = dict(a)
        for k, v in b.items():
            out[k] = out.get(k, set()) | v
        return out

    def assign(self, t, lab, env, value, weak=False):
        if isinstance(t, ast.Name):
            env[t.id] = (env.get(t.id, set()) | lab) if weak else set(lab)
        elif isinstance(t, (ast.Tuple, ast.List)):
            if isinstance(value, (ast.Tuple, ast.List)) and len(value.elts) == len(t.elts):
                labs = [self.expr(v, env) for v in value.elts]
                pcx = lab - set().union(*labs) if labs else lab
                for e, l in zip(t.elts, labs):
                    self.assign(e, l | pcx, env, None)
            else:
                for e in t.elts:
                    self.assign(e, lab, env, None)
        elif isinstance(t, ast.Starred):
            self.assign(t.value, lab, env, None)
        elif isinstance(t, ast.Subscript):
            lab2 = lab | self.expr(t.slice, env)
            self.assign(t.value, lab2, env, None, weak=True)
        elif isinstance(t, ast.Attribute):
            if isinstance(t.value, ast.Name) and t.value.id == "self" and self.fi.cls:
                if self.collect_attrs:
                    clean = {l for l in lab if not l.startswith("P:")}
                    if self.fi.qual.split(".")[-1] in self.s.b4_ok or self.fi.qual in self.s.b4_ok:
                        clean.discard(HASH)
                    key = (self.fi.cls, t.attr)
                    self.s.class_attr[key] = self.s.class_attr.get(key, set()) | clean
                env["self." + t.attr] = (env.get("self." + t.attr, set()) | lab) if weak else set(lab)
            else:
                self.assign(t.value, lab, env, None, weak=True)

    # -- expressions
    def expr(self, e, env) -> set:
        lab = self._expr(e, env)
        self.at[e] = lab
        return lab

    def _expr(self, e, env) -> set:
        if e is None or isinstance(e, ast.Constant):
            return set()
        if isinstance(e, ast.Name):
            if ("?" + e.id) in env:
                self.__dict__.setdefault("none_at", {})[e] = set(env["?" + e.id])
            return set(env.get(e.id, set()))
        if isinstance(e, ast.Attribute):
            if isinstance(e.value, ast.Name) and e.value.id == "self" and self.fi.cls:
                k = "self." + e.attr
                base = set()
                if e.attr in RANKDEP_ATTR:
                    base = {RANKDEP_ATTR[e.attr]}
                if k in env:
                    return env[k] | base
                return self.s.attr_label(self.fi.cls, e.attr) | base
            if isinstance(e.value, ast.Name) and e.value.id in ("np", "numpy", "MPI", "math", "os", "h5py", "time",
                                                                "operator", "warnings", "sparse"):
                return set()
            if e.attr in UNIFORM_ATTR:
                self.expr(e.value, env)
                return set()
            inner = self.expr(e.value, env)
            if e.attr in RANKDEP_ATTR:
                return inner | {RANKDEP_ATTR[e.attr]}
            return inner
        if isinstance(e, ast.Call):
            return self.call(e, env)
        if isinstance(e, ast.Subscript):
            return self.expr(e.value, env) | self.expr(e.slice, env)
        if isinstance(e, ast.Slice):
            return self.expr(e.lower, env) | self.expr(e.upper, env) | self.expr(e.step, env)
        if isinstance(e, (ast.BinOp,)):
            return self.expr(e.left, env) | self.expr(e.right, env)
        if isinstance(e, ast.UnaryOp):
            return self.expr(e.operand, env)
        if isinstance(e, ast.BoolOp):
            out = set()
            for v in e.values:
                out |= self.expr(v, env)
            return out
        if isinstance(e, ast.Compare):
            if len(e.ops) == 1 and isinstance(e.ops[0], (ast.Is, ast.IsNot)) and \
                    isinstance(e.comparators[0], ast.Constant) and e.comparators[0].value is None:
                self.expr(e.left, env)
                return self.noneness(e.left, env)
            out = self.expr(e.left, env)
            for c in e.comparators:
                out |= self.expr(c, env)
            return out
        if isinstance(e, ast.IfExp):
            return self.expr(e.test, env) | self.expr(e.body, env) | self.expr(e.orelse, env)
        if isinstance(e, (ast.Tuple, ast.List, ast.Set)):
            out = set()
            for v in e.elts:
                out |= self.expr(v, env)
            return out
        if isinstance(e, ast.Dict):
            out = set()
            for v in list(e.keys) + list(e.values):
                if v is not None:
                    out |= self.expr(v, env)
            return out
        if isinstance(e, ast.Starred):
            return self.expr(e.value, env)
        if isinstance(e, (ast.ListComp, ast.SetComp, ast.GeneratorExp, ast.DictComp)):
            env2 = dict(env)
            out = set()
            for g in e.generators:
                il = self.expr(g.iter, env2)
                out |= il
                self.assign(g.target, il, env2, None)
                for c in g.ifs:
                    out |= self.expr(c, env2)
            if isinstance(e, ast.DictComp):
                out |= self.expr(e.key, env2) | self.expr(e.value, env2)
            else:
                out |= self.expr(e.elt, env2)
            return out
        if isinstance(e, ast.Lambda):
            env2 = dict(env)
            for a in e.args.args:
                env2[a.arg] = set()
            return self.expr(e.body, env2)
        if isinstance(e, ast.JoinedStr):
            out = set()
            for v in e.values:
                out |= self.expr(v, env)
            return out
        if isinstance(e, ast.FormattedValue):
            return self.expr(e.value, env)
        if isinstance(e, ast.NamedExpr):
            l = self.expr(e.value, env)
            self.assign(e.target, l, env, None)
            return l
        out = set()
        for ch in ast.iter_child_nodes(e):
            if isinstance(ch, ast.expr):
                out |= self.expr(ch, env)
        return out

    def noneness(self, x, env) -> set:
        """labels of the predicate `x is None` (presence, not content)"""
        if isinstance(x, ast.Constant):
            return set()
        if isinstance(x, ast.Name):
            return self._none_of_name(x.id, env.get(x.id, set()), env.get("?" + x.id))
        if isinstance(x, ast.Attribute) and isinstance(x.value, ast.Name) and x.value.id == "self":
            return self._expr(x, env)
        return set()

    def call(self, e: ast.Call, env) -> set:
        f = e.func
        argl = set()
        for a in e.args:
            argl |= self.expr(a, env)
        for k in e.keywords:
            argl |= self.expr(k.value, env)
        name = f.id if isinstance(f, ast.Name) else f.attr if isinstance(f, ast.Attribute) else ""
        recv = f.value if isinstance(f, ast.Attribute) else None
        s = src(f)
        # sources
        if name in ("Get_rank", "Get_coords", "Get_cart_rank", "Get_topo"):
            return {RANK}
        if s in ("time.time", "time.perf_counter", "time.monotonic", "time.process_time", "time.clock") or \
                (name in ("time", "perf_counter", "now") and recv is not None and src(recv) in ("time", "datetime", "datetime.datetime")):
            return {CLOCK}
        if s.startswith(("os.path.", "os.listdir", "os.stat", "os.getcwd")) or name in ("glob", "iglob") or \
                (name == "File" and recv is not None and src(recv) == "h5py") or name == "open":
            return argl | {FS}
        if s in ("os.getpid", "random.random", "np.random.rand", "np.random.random", "id", "hash"):
            return {RANK}
        # unordered choices
        if name in ("min", "max", "next", "list", "tuple", "iter", "sorted") and e.args:
            a0 = e.args[0]
            if isinstance(a0, ast.Name) and a0.id in self.setvars and name != "sorted":
                fq = self.fi.qual.split(".")[-1]
                if fq not in self.s.b4_ok:
                    argl = argl | {HASH}
        if name == "pop" and recv is not None and isinstance(recv, ast.Name) and recv.id in self.setvars:
            return argl | {HASH}
        # sanitisers
        if recv is not None and name in SANITISERS and is_comm_expr(recv):
            return set()
        if recv is not None and name in COLLECTIVE_OPS and is_comm_expr(recv):
            if name in ("Create_cart", "Sub", "Split", "Dup"):
                return set()          # a communicator object
            return {RANK}             # rooted results exist at the root only
        recl = self.expr(recv, env) if recv is not None else set()
        if name in ("mpi_starts", "mpi_lengths"):
            return {l for l in argl}
        # resolved repo function: use its return summary
        tg = self.s.prog.resolve(e, self.fi.rel)
        tg = [(r, q) for r, q, n in tg if (r, q) in self.s.funcs]
        if tg and self.depth < 5:
            out = set()
            for key in tg:
                callee = self.s.funcs[key]
                rl = self.s.return_labels(key, self.depth)
                out |= {l for l in rl if not l.startswith("P:")}
                pmap = self.bind(e, callee, env)
                for p in params_of(rl):
                    out |= pmap.get(p, set())
                if "self" in params_of(rl) or callee.cls:
                    out |= {l for l in recl if not l.startswith("P:")} if callee.qual.endswith("__init__") is False else set()
            return out
        return argl | recl

    def call_elems(self, e: ast.Call, env, n):
        """per-element labels of a tuple-returning repo call, or None"""
        tg = self.s.prog.resolve(e, self.fi.rel)
        tg = [(r, q) for r, q, nn in tg if (r, q) in self.s.funcs]
        if not tg or self.depth >= 5:
            return None
        out = [set() for _ in range(n)]
        for key in tg:
            callee = self.s.funcs[key]
            self.s.return_labels(key, self.depth)
            el = getattr(callee, "ret_elems", None)
            if el is None or len(el) != n:
                return None
            pmap = self.bind(e, callee, env)
            for i, rl in enumerate(el):
                out[i] |= {l for l in rl if not l.startswith("P:")}
                for p in params_of(rl):
                    out[i] |= pmap.get(p, set())
        return out

    def bind(self, call: ast.Call, callee: FuncInfo, env):
        """actual labels per callee parameter"""
        params = list(callee.params)
        if callee.cls and params and params[0] == "self" and not isinstance(call.func, ast.Name) \
                and not (isinstance(call.func, ast.Attribute) and isinstance(call.func.value, ast.Name)
                         and call.func.value.id == callee.cls):
            params = params[1:]
        elif callee.cls and params and params[0] == "self" and isinstance(call.func, ast.Name):
            params = params[1:]      # constructor call Class(...)
        out = {}
        va = callee.node.args.vararg.arg if callee.node.args.vararg else None
        kw = callee.node.args.kwarg.arg if callee.node.args.kwarg else None
        pos = [p for p in params if p not in (va, kw)]
        for i, a in enumerate(call.args):
            l = self.at.get(a)
            if l is None:
                l = self.expr(a, env)
            if i < len(pos):
                out[pos[i]] = out.get(pos[i], set()) | l
                out[pos[i] + "?"] = self.noneness_actual(a)
            elif va:
                out[va] = out.get(va, set()) | l
        for k in call.keywords:
            l = self.at.get(k.value)
            if l is None:
                l = self.expr(k.value, env)
            if k.arg in pos:
                out[k.arg] = out.get(k.arg, set()) | l
                out[k.arg + "?"] = self.noneness_actual(k.value)
            elif kw:
                out[kw] = out.get(kw, set()) | l
        return out

    def _maybe_none_local(self, name):
        for n in ast.walk(self.fi.node):
            if isinstance(n, ast.Assign) and isinstance(n.value, ast.Constant) and n.value.value is None:
                if any(isinstance(t, ast.Name) and t.id == name for t in n.targets):
                    return True
        return False

    def _none_of_name(self, name, l, tracked=None):
        if tracked is not None:
            return {(x + "?" if x.startswith("P:") and not x.endswith("?") else x) for x in tracked}
        if name in self.fi.params and l == {f"P:{name}"}:
            return {f"P:{name}?"}
        out = {(x + "?" if x.startswith("P:") and not x.endswith("?") else x) for x in l if x.startswith("P:")}
        if self._maybe_none_local(name):
            out |= {x for x in l if not x.startswith("P:")}
        return out

    def noneness_actual(self, a):
        if isinstance(a, ast.Name):
            return self._none_of_name(a.id, self.at.get(a, set()), getattr(self, "none_at", {}).get(a))
        if isinstance(a, ast.Attribute) and isinstance(a.value, ast.Name) and a.value.id == "self":
            return set(self.at.get(a, set()))
        return set()


# --------------------------------------------------------------------------
# collective traces and the balance rule
# --------------------------------------------------------------------------

def kwarg(call, name):
    for k in call.keywords:
        if k.arg == name:
            return k.value
    return None


def coll_sig(call: ast.Call):
    op = call.func.attr
    comm = src(call.func.value)
    root = kwarg(call, "root")
    if root is None and op in ROOT_POS and len(call.args) > ROOT_POS[op]:
        root = call.args[ROOT_POS[op]]
    rop = kwarg(call, "op")
    return (op, comm, src(root) if root is not None else None, src(rop) if rop is not None else None)


class Tracer:
    """Builds the set of collective traces of a function and discharges B1/B2/B3.

    paths(stmts, after): all (uniform-choice, event-sequence, exit-kind) triples of a
    statement list; `after` is the continuation in the enclosing blocks, used only to
    compare an arm that exits early with the arm that falls through."""

    def __init__(self, spmd: SPMD, fi: FuncInfo, lf: LabelFlow):
        self.s, self.fi, self.lf = spmd, fi, lf
        self.chk = spmd.chk
        self.required: dict[str, str] = {}
        self.ev_nodes = set(fi.collective_sites) | {c for c, _ in fi.callee_sites}
        self.callee_of = {c: tg for c, tg in fi.callee_sites}
        self._cont_cache = {}

    def labels(self, node):
        return self.lf.at.get(node, set())

    def has_events(self, stmts) -> bool:
        for st in stmts:
            for n in ast.walk(st):
                if n in self.ev_nodes:
                    return True
        return False

    def has_ret(self, stmts, kinds=(ast.Return,)) -> bool:
        for st in stmts:
            for n in ast.walk(st):
                if isinstance(n, kinds) and self.s._owner(n) is self.fi.node:
                    return True
        return False

    def events_of(self, st, within=None):
        evs = []
        nodes = [n for n in ast.walk(within if within is not None else st)
                 if n in self.ev_nodes and self._stmt_of(n) is st]
        nodes.sort(key=lambda c: (c.end_lineno, c.end_col_offset))
        for n in nodes:
            if n in self.callee_of:
                tg = self.callee_of[n]
                commargs = tuple(src(a) for a in n.args if is_comm_expr(a)) + \
                    tuple(f"{k.arg}={src(k.value)}" for k in n.keywords if is_comm_expr(k.value))
                evs.append(Event("call", (tuple(sorted({q.split('.')[-1] for _, q in tg})), commargs), n))
            elif isinstance(n.func, ast.Attribute) and n.func.attr in COLLECTIVE_OPS and is_comm_expr(n.func.value):
                evs.append(Event("coll", coll_sig(n), n))
            else:
                evs.append(Event("coll", ("h5:" + n.func.attr if isinstance(n.func, ast.Attribute) else src(n.func),
                                          None, None, None), n))
        return evs

    def _stmt_of(self, n):
        p = n
        while p is not None and not isinstance(p, ast.stmt):
            p = parent(p)
        return p

    def note_required(self, labels, why):
        for p in params_of(labels):
            if p != "self":
                self.required.setdefault(p, why)

    @staticmethod
    def _consistent(a, b):
        d = dict(a)
        return all(d.get(k, v) == v for k, v in b)

    @staticmethod
    def _merge(a, b):
        d = dict(a)
        d.update(dict(b))
        return tuple(sorted(d.items()))

    @staticmethod
    def _dedupe(ps):
        seen, out = set(), []
        for p in ps:
            k = (p.choices, repr(p.events), p.exited)
            if k not in seen:
                seen.add(k)
                out.append(p)
        return out

    def _seq(self, ps, qs):
        out = []
        for p in ps:
            if p.exited:
                out.append(p)
                continue
            for q in qs:
                if self._consistent(p.choices, q.choices):
                    out.append(Path(self._merge(p.choices, q.choices), p.events + q.events, q.exited))
        out = self._dedupe(out)
        if len(out) > 5000:
            raise AnalysisError(f"path explosion in {self.fi.qual}")
        return out

    def paths(self, stmts, after=()) -> list[Path]:
        cur = [Path((), (), None)]
        stmts = list(stmts)
        for i, st in enumerate(stmts):
            if all(p.exited for p in cur):
                break
            new = self.stmt_paths(st, stmts[i + 1:], list(after))
            if new is None:
                continue
            cur = self._seq(cur, new)
        return cur

    def cont_paths(self, rest, after):
        key = (tuple(id(x) for x in rest), tuple(id(x) for x in after))
        if key not in self._cont_cache:
            self._cont_cache[key] = self.paths(list(rest) + list(after), ())
        return self._cont_cache[key]

    def stmt_paths(self, st, rest, after):
        """None when the statement is irrelevant (no events, no exits)."""
        if isinstance(st, ast.If):
            exits = self.has_ret(st.body + st.orelse, (ast.Return, ast.Break, ast.Continue))
            if not (self.has_events(st.body) or self.has_events(st.orelse) or exits):
                return None
            tl = self.labels(st.test)
            pa = self.paths(st.body, rest + after)
            pb = self.paths(st.orelse, rest + after)
            nu = nonuniform(tl)
            tsrc = src(st.test)
            if not nu:
                if self.has_events(st.body) or self.has_events(st.orelse) or \
                        (exits and self.has_events(rest + after)):
                    # a guard whose alternatives issue the same collectives (after expanding the functions they call) may differ
                    # between ranks: only a guard that really selects between different sequences has to be uniform
                    same = False
                    if params_of(tl) and not exits:
                        try:
                            fa_ = [self.flatten(p_.events) for p_ in pa if p_.exited != "raise"]
                            fb_ = [self.flatten(p_.events) for p_ in pb if p_.exited != "raise"]
                            if fa_ and fb_ and all(f is not None for f in fa_ + fb_):
                                sa_, sb_ = set().union(*fa_), set().union(*fb_)
                                same = sa_ == sb_
                        except Exception:
                            same = False
                    if not same:
                        self.note_required(tl, f"guard `{tsrc}` governs collectives in {self.fi.qual}")
                res = [Path(self._merge(p.choices, ((tsrc, True),)), p.events, p.exited) for p in pa
                       if self._consistent(p.choices, ((tsrc, True),))]
                res += [Path(self._merge(p.choices, ((tsrc, False),)), p.events, p.exited) for p in pb
                        if self._consistent(p.choices, ((tsrc, False),))]
                return res
            # non-uniform guard: everything it governs must be balanced
            cont = self.cont_paths(rest, after) if any(p.exited for p in pa + pb) else [Path((), (), None)]
            full_a = self._with_cont(pa, cont)
            full_b = self._with_cont(pb, cont)
            involved = any(p.events for p in full_a + full_b) and \
                (self.has_events(st.body) or self.has_events(st.orelse) or
                 any(p.exited in ("return", "break", "continue") for p in pa + pb))
            if involved:
                ok, why = self._balanced(full_a, full_b)
                exempt = None
                for (g, fn), reason in EXEMPT_GUARDS.items():
                    if tsrc == g and self.fi.qual.split(".")[-1] == fn:
                        exempt = reason
                if exempt and not ok:
                    self.chk.ob("B1-exempt-guard", st, tsrc, True,
                                f"named exemption: {exempt}", file=self.fi.rel, func=self.fi.qual,
                                facts={"labels": sorted(tl)})
                else:
                    self.chk.ob("B1-balanced-region", st, tsrc, ok,
                                ("rank-dependent guard (labels %s); " % sorted(nu)) +
                                ("all alternatives issue the same collective sequence" if ok else
                                 "alternatives issue different collective sequences: " + why),
                                file=self.fi.rel, func=self.fi.qual,
                                facts={"labels": sorted(tl), "arm_true": [repr(p.events) for p in full_a][:4],
                                       "arm_false": [repr(p.events) for p in full_b][:4]})
            return self._dedupe(pa + pb)
        if isinstance(st, (ast.For, ast.AsyncFor, ast.While)):
            ctl = st.iter if isinstance(st, (ast.For, ast.AsyncFor)) else st.test
            body_all = st.body + st.orelse
            if not self.has_events(body_all):
                rets = [n for n in ast.walk(st) if isinstance(n, ast.Return) and self.s._owner(n) is self.fi.node]
                if not rets:
                    return None
                lab = set()
                for r in rets:
                    lab |= self.labels(r)
                nu = nonuniform(lab)
                cont = self.cont_paths(rest, after)
                if any(p.events for p in cont):
                    self.chk.ob("B1-early-return", st, src(ctl), not nu,
                                "early return inside a loop, before later collectives, is taken under " +
                                ("rank-uniform conditions" if not nu else f"rank-dependent conditions {sorted(nu)}"),
                                file=self.fi.rel, func=self.fi.qual, facts={"labels": sorted(lab)})
                    self.note_required(lab, f"early return in loop `{src(ctl)}` of {self.fi.qual}")
                mark = f"<return inside loop {src(ctl)}>"
                return [Path(((mark, True),), (), "return"), Path(((mark, False),), (), None)]
            tl = self.labels(ctl)
            nu = nonuniform(tl)
            self.chk.ob("B1-loop-trip-uniform", st, src(ctl), not nu,
                        "loop containing collectives has a rank-uniform trip condition" if not nu else
                        f"loop containing collectives has a rank-dependent trip condition (labels {sorted(nu)})",
                        file=self.fi.rel, func=self.fi.qual, facts={"labels": sorted(tl)})
            self.note_required(tl, f"loop bound `{src(ctl)}` governs collectives in {self.fi.qual}")
            body = self.paths(st.body, rest + after)
            for p in body:
                if p.exited == "break":
                    lab = set()
                    for n in ast.walk(st):
                        if isinstance(n, ast.Break):
                            lab |= self.labels(n)
                    if nonuniform(lab):
                        self.chk.ob("B1-loop-trip-uniform", st, "break in " + src(ctl), False,
                                    f"loop containing collectives is left by a rank-dependent break {sorted(nonuniform(lab))}",
                                    file=self.fi.rel, func=self.fi.qual)
                    break
            bsig = sorted({repr((p.choices, p.events, p.exited)) for p in body})
            ev = Event("loop", src(ctl), st, bsig)
            out = [Path((), (ev,), None)]
            if any(p.exited == "return" for p in body):
                mark = f"<return inside loop {src(ctl)}>"
                out = [Path(((mark, False),), (ev,), None), Path(((mark, True),), (ev,), "return")]
            return out
        if isinstance(st, ast.Return):
            return [Path((), tuple(self.events_of(st)), "return")]
        if isinstance(st, ast.Raise):
            return [Path((), (), "raise")]
        if isinstance(st, ast.Break):
            return [Path((), (), "break")]
        if isinstance(st, ast.Continue):
            return [Path((), (), "continue")]
        if isinstance(st, (ast.With, ast.AsyncWith)):
            evs = []
            for it in st.items:
                evs.extend(self.events_of(st, within=it.context_expr))
            inner = self.paths(st.body, rest + after)
            if not evs and not self.has_events(st.body) and not any(p.exited for p in inner):
                return None
            return [Path(p.choices, tuple(evs) + p.events, p.exited) for p in inner]
        if isinstance(st, ast.Try):
            body = st.body + st.orelse + st.finalbody
            hb = [s2 for h in st.handlers for s2 in h.body]
            if not self.has_events(body + hb) and not self.has_ret(body + hb, (ast.Return, ast.Break, ast.Continue)):
                return None
            if self.has_events(hb):
                self.chk.ob("B1-collective-in-handler", st, "try/except", None,
                            "collective inside an exception handler is outside the enumerated idioms",
                            file=self.fi.rel, func=self.fi.qual)
            return self.paths(body, rest + after)
        if isinstance(st, (ast.FunctionDef, ast.ClassDef)):
            return None
        evs = self.events_of(st)
        if not evs:
            return None
        return [Path((), tuple(evs), None)]

    def _with_cont(self, ps, cont):
        out = []
        for p in ps:
            if p.exited:
                out.append(p)
            else:
                for q in cont:
                    if self._consistent(p.choices, q.choices):
                        out.append(Path(self._merge(p.choices, q.choices), p.events + q.events, q.exited))
        return out

    def flatten(self, events, depth=0):
        """events -> set of flat collective sequences (calls expanded through the callees' summaries), or None"""
        seqs = {()}
        for ev in events:
            if ev.kind == "coll":
                item = {((ev.sig[0],) + tuple(ev.sig[2:]),)}
            elif ev.kind == "call":
                tg = self.callee_of.get(ev.node)
                if not tg:
                    return None
                item = set()
                for t in tg:
                    sm = self.s.flat_summary(t, depth)
                    if sm is None:
                        return None
                    item |= set(sm)
            else:
                return None
            seqs = {a + b for a in seqs for b in item}
            if len(seqs) > 64:
                return None
        return seqs

    def _flat_balanced(self, a, b):
        """both alternatives can issue exactly the same flat collective sequences (calls expanded)"""
        fa, fb = set(), set()
        for ps, acc in ((a, fa), (b, fb)):
            for p_ in ps:
                if p_.exited == "raise":
                    continue
                f = self.flatten(p_.events)
                if f is None:
                    return False
                acc |= f
        return fa == fb and all(len(x) <= 1 or True for x in fa)

    def _balanced(self, a, b):
        a = [p for p in a if p.exited != "raise"]
        b = [p for p in b if p.exited != "raise"]
        for p in a:
            for q in b:
                if self._consistent(p.choices, q.choices) and p.events != q.events:
                    return False, f"{list(p.events)} vs {list(q.events)}"
        return True, ""


def run_spmd(chk, prog: Program, units: list[str], b4_ok_funcs=()):
    """Discharge B1-B3 over every collective function of the given units."""
    s = SPMD(prog, chk, units, b4_ok_funcs)
    tracers = {}
    for key, fi in s.funcs.items():
        if not fi.is_collective:
            continue
        chk.functions.add(f"{fi.rel}:{fi.qual}")
        lf = s.analyse(fi)
        tr = Tracer(s, fi, lf)
        tr.paths(fi.node.body)
        tracers[key] = tr
        # direct collective sites: existence + argument uniformity (B2/B3)
        for c in fi.collective_sites:
            sig = coll_sig(c) if isinstance(c.func, ast.Attribute) and c.func.attr in COLLECTIVE_OPS else ("h5", src(c.func), None, None)
            op = sig[0]
            if op in ROOTED:
                root = kwarg(c, "root")
                if root is None and len(c.args) > ROOT_POS[op]:
                    root = c.args[ROOT_POS[op]]
                if root is not None:
                    rl = lf.at.get(root, set())
                    chk.ob("B2-root-uniform", c, src(c), not nonuniform(rl),
                           f"root expression `{src(root)}` labels {sorted(rl)}",
                           file=fi.rel, func=fi.qual, facts={"labels": sorted(rl)})
                    tr.note_required(rl, f"root of `{src(c)[:60]}`")
            ropn = kwarg(c, "op")
            if ropn is not None:
                rl = lf.at.get(ropn, set())
                chk.ob("B2-op-uniform", c, src(c), not nonuniform(rl), f"reduction op `{src(ropn)}` labels {sorted(rl)}",
                       file=fi.rel, func=fi.qual, nontrivial=False)
            if op in ("Split",):
                pass
            chk.ob("B0-collective-site", c, src(c)[:120], True, "collective call site covered by the trace analysis",
                   file=fi.rel, func=fi.qual, nontrivial=False, facts={"sig": list(map(str, sig))})
        fi.required_uniform = tr.required
    # interprocedural: parameters that must be uniform are uniform at every call site
    changed = True
    rounds = 0
    while changed and rounds < 8:
        changed = False
        rounds += 1
        for key, fi in s.funcs.items():
            if not fi.is_collective:
                continue
            lf = tracers[key].lf
            for c, tg in fi.callee_sites:
                for t in tg:
                    callee = s.funcs[t]
                    pmap = lf.bind(c, callee, {})
                    for p, why in callee.required_uniform.items():
                        al = pmap.get(p)
                        if al is None:
                            continue
                        for q in params_of(al):
                            if q != "self" and q not in fi.required_uniform:
                                fi.required_uniform[q] = f"passed as `{p}` to {callee.qual} ({why})"
                                changed = True
    for key, fi in s.funcs.items():
        if not fi.is_collective:
            continue
        lf = tracers[key].lf
        for c, tg in fi.callee_sites:
            for t in tg:
                callee = s.funcs[t]
                pmap = lf.bind(c, callee, {})
                for p, why in callee.required_uniform.items():
                    al = pmap.get(p)
                    if al is None:
                        continue
                    nu = nonuniform(al)
                    chk.ob("B1-arg-uniform", c, f"{src(c.func)}(... {p}=...)", not nu,
                           f"actual for `{p}` of {callee.qual} must be rank-uniform ({why}); labels {sorted(al)}",
                           file=fi.rel, func=fi.qual, facts={"labels": sorted(al), "param": p})
    return s, tracers
