"""Engine G: property-specific lints (DESIGN 4.6)."""
from __future__ import annotations

import ast

from .core import src, parent, AnalysisError

VIEW_METHODS = {"reshape", "transpose", "view", "ravel", "squeeze"}
MUTATING_METHODS = {"pop", "append", "extend", "insert", "remove", "sort", "reverse", "clear", "popitem", "update", "setdefault", "fill"}
COPY_CALLS = {"copy", "flatten", "astype", "array", "zeros_like", "empty_like"}


def shared_state_mutations(fn: ast.FunctionDef, shared_pred):
    """Writes through aliases of shared state.

    `shared_pred(expr_src)` says whether an expression denotes shared, stored state
    (e.g. `self._basis.integrals`).  A local becomes an alias when it is assigned the
    shared expression, a slice/view of it, or another alias, without a copy.  Reported:
    subscript stores / augmented assignments through an alias, and calls that receive an
    alias together with an `overwrite_*=True` flag.  -> list of (node, description)"""
    aliases: dict[str, str] = {}
    out = []

    def root_of(e):
        """shared root an expression is a view of, or None"""
        if isinstance(e, ast.Name):
            if e.id in aliases:
                return aliases[e.id]
            return e.id if shared_pred(e.id) else None
        # only a reference (attribute / element / slice) can denote shared storage; an arithmetic expression is a new value
        if isinstance(e, (ast.Attribute, ast.Subscript, ast.Call)) and shared_pred(src(e)):
            return src(e)
        if isinstance(e, ast.Subscript):
            return root_of(e.value)
        if isinstance(e, ast.Attribute) and e.attr in ("T", "real", "imag", "flat"):
            return root_of(e.value)
        if isinstance(e, ast.Call) and isinstance(e.func, ast.Attribute):
            if e.func.attr in VIEW_METHODS:
                return root_of(e.func.value)
            # np.asarray & co. return their argument itself when it already is an array of the right type: a view, not a copy
            if src(e.func) in ("np.asarray", "np.asanyarray", "np.ascontiguousarray", "numpy.asarray", "np.atleast_1d") and e.args \
                    and not any(k.arg == "copy" for k in e.keywords):
                return root_of(e.args[0])
            return None
        return None

    def visit(stmts):
        for st in stmts:
            if isinstance(st, ast.Assign):
                r = root_of(st.value)
                for t in st.targets:
                    if isinstance(t, ast.Name):
                        if r is not None:
                            aliases[t.id] = r
                        else:
                            aliases.pop(t.id, None)
                    elif isinstance(t, ast.Subscript):
                        rt = root_of(t.value)
                        if rt is not None:
                            out.append((st, f"store through `{src(t.value)}`, a view of the stored `{rt}`"))
                    elif isinstance(t, ast.Tuple):
                        for el in t.elts:
                            if isinstance(el, ast.Name):
                                aliases.pop(el.id, None)
                            elif isinstance(el, ast.Subscript) and root_of(el.value) is not None:
                                out.append((st, f"store through `{src(el.value)}`, a view of the stored `{root_of(el.value)}`"))
            elif isinstance(st, ast.AugAssign):
                t = st.target
                base = t.value if isinstance(t, ast.Subscript) else t
                rt = root_of(base)
                if rt is not None:
                    out.append((st, f"in-place update of `{src(base)}`, a view of the stored `{rt}`"))
            for c in [n for n in ast.walk(st) if isinstance(n, ast.Call)]:
                if isinstance(c.func, ast.Attribute) and c.func.attr in MUTATING_METHODS:
                    rt = root_of(c.func.value)
                    if rt is not None and not (isinstance(st, ast.For) and c is not getattr(st, "iter", None)) or \
                            (isinstance(c.func, ast.Attribute) and c.func.attr in MUTATING_METHODS and root_of(c.func.value) is not None):
                        rt = root_of(c.func.value)
                        if rt is not None and (c, f"`.{c.func.attr}()` modifies `{src(c.func.value)}`, which is the stored `{rt}`") not in out \
                                and not any(x[0] is c for x in out):
                            out.append((c, f"`.{c.func.attr}()` modifies `{src(c.func.value)}`, which is the stored `{rt}`"))
                flags = [k for k in c.keywords if k.arg and k.arg.startswith("overwrite")
                         and isinstance(k.value, ast.Constant) and k.value.value]
                if flags:
                    for a in list(c.args) + [k.value for k in c.keywords]:
                        rt = root_of(a)
                        if rt is not None:
                            out.append((c, f"`{flags[0].arg}=True` lets `{src(c.func)}` overwrite `{src(a)}`, which is the stored `{rt}`"))
            for f in ("body", "orelse", "finalbody"):
                sub = getattr(st, f, None)
                if sub and isinstance(sub, list) and isinstance(sub[0], ast.stmt):
                    visit(sub)
    visit(fn.body)
    return out


def undefined_self_attrs(mod, cls_name: str, extra_defined=()):
    """G-attr: `self.X` reads in methods of cls with no definition of X in the class (or bases in the same module)"""
    cls = mod.cls(cls_name)
    defined = set(extra_defined)
    classes = [cls]
    for b in cls.bases:
        bn = src(b).split(".")[-1]
        if mod.has(bn):
            classes.append(mod.cls(bn))
    for c in classes:
        for st in c.body:
            if isinstance(st, ast.FunctionDef):
                defined.add(st.name)
            elif isinstance(st, ast.Assign):
                for t in st.targets:
                    if isinstance(t, ast.Name):
                        defined.add(t.id)
        for n in ast.walk(c):
            if isinstance(n, ast.Attribute) and isinstance(n.value, ast.Name) and n.value.id == "self" \
                    and isinstance(n.ctx, ast.Store):
                defined.add(n.attr)
            if isinstance(n, ast.Call) and isinstance(n.func, ast.Name) and n.func.id == "setattr" and n.args \
                    and isinstance(n.args[0], ast.Name) and n.args[0].id == "self":
                defined.add("*")
    reads = []
    for st in cls.body:
        if isinstance(st, ast.FunctionDef):
            for n in ast.walk(st):
                if isinstance(n, ast.Attribute) and isinstance(n.value, ast.Name) and n.value.id == "self" \
                        and isinstance(n.ctx, ast.Load) and n.attr not in defined and "*" not in defined:
                    reads.append((st, n))
    return reads, defined


def derived_state_refresh(cls: ast.ClassDef, source_attr: str):
    """G-derived-state: attributes of `cls` whose stored value is computed from `self.<source_attr>`
    (assigned, or filled through a subscript store, in any method) are caches of that attribute.
    Every method that rebinds `self.<source_attr>` must rebind or clear each of them afterwards.
    -> (derived: {attr: (node, method)}, missing: [(method_node, assign_node, attr)])"""
    s_src = f"self.{source_attr}"

    def mentions(e, aliases=()):
        return any((isinstance(n, ast.Attribute) and src(n) == s_src) or (isinstance(n, ast.Name) and n.id in aliases) for n in ast.walk(e))

    def self_attr(t):
        while isinstance(t, ast.Subscript):
            t = t.value
        if isinstance(t, ast.Attribute) and isinstance(t.value, ast.Name) and t.value.id == "self":
            return t.attr
        return None

    derived = {}
    methods = [st for st in cls.body if isinstance(st, ast.FunctionDef)]
    for m in methods:
        aliases = {n.targets[0].id for n in ast.walk(m) if isinstance(n, ast.Assign) and isinstance(n.targets[0], ast.Name)
                   and src(n.value) == s_src}
        for n in ast.walk(m):
            if isinstance(n, ast.Assign) and mentions(n.value, aliases):
                for t in n.targets:
                    for el in (t.elts if isinstance(t, ast.Tuple) else [t]):
                        a = self_attr(el)
                        if a and a != source_attr:
                            derived.setdefault(a, (n, m.name))
    missing = []
    for m in methods:
        rebinds = [n for n in ast.walk(m) if isinstance(n, ast.Assign)
                   and any(isinstance(t, ast.Attribute) and src(t) == s_src for t in n.targets)]
        if not rebinds:
            continue
        last = max(rebinds, key=lambda n: n.lineno)
        for a in derived:
            ok = False
            for n in ast.walk(m):
                if getattr(n, "lineno", 0) < last.lineno:
                    continue
                if isinstance(n, ast.Assign) and any(isinstance(t, ast.Attribute) and src(t) == f"self.{a}" for t in n.targets):
                    ok = True
                if isinstance(n, ast.Call) and isinstance(n.func, ast.Attribute) and n.func.attr == "clear" \
                        and src(n.func.value) == f"self.{a}":
                    ok = True
            if not ok:
                missing.append((m, last, a))
    return derived, missing


def stuck_iterations(loop: ast.While):
    """G-progress: paths through one iteration of `loop` that reach the back edge (end of body or `continue`)
    without assigning any loop-carried name.  The body is deterministic in its local state, so such a path,
    if feasible, repeats forever.  Nested loops count as (possible) writes of everything they assign, calls with
    side effects (method calls on names, subscript stores) count as progress too - only a definitely state-preserving
    path is returned.  -> (carried names, [path]) with path = list of (test node, taken: bool) + terminator"""
    assigned = set()
    for n in ast.walk(loop):
        if isinstance(n, ast.Name) and isinstance(n.ctx, ast.Store):
            assigned.add(n.id)

    def reads(e):
        return {n.id for n in ast.walk(e) if isinstance(n, ast.Name) and isinstance(n.ctx, ast.Load)}

    carried = set(reads(loop.test)) & assigned
    paths = []       # (decisions, written, effect, end)

    def run(stmts, k, dec, written, effect, cont):
        """walk stmts[k:], then the continuation `cont` (list of (stmts, k) frames)"""
        if k == len(stmts):
            if cont:
                (s2, k2), rest = cont[0], cont[1:]
                run(s2, k2, dec, written, effect, rest)
            else:
                paths.append((dec, written, effect, "end of body"))
            return
        st = stmts[k]
        if isinstance(st, ast.If):
            for r in reads(st.test):
                if r in assigned and r not in written:
                    carried.add(r)
            run(st.body, 0, dec + [(st.test, True)], written, effect, [(stmts, k + 1)] + cont)
            run(st.orelse, 0, dec + [(st.test, False)], written, effect, [(stmts, k + 1)] + cont)
            return
        if isinstance(st, (ast.Break, ast.Return, ast.Raise)):
            return
        if isinstance(st, ast.Continue):
            paths.append((dec, written, effect, f"continue (line {st.lineno})"))
            return
        if isinstance(st, (ast.While, ast.For, ast.With, ast.Try)):
            for r in reads(st):
                if r in assigned and r not in written:
                    carried.add(r)
            w = {n.id for n in ast.walk(st) if isinstance(n, ast.Name) and isinstance(n.ctx, ast.Store)}
            eff = effect or any(isinstance(n, ast.Call) for n in ast.walk(st))
            run(stmts, k + 1, dec, written | w, eff, cont)
            return
        rd = set()
        wr = set()
        eff = effect
        if isinstance(st, ast.Assign):
            rd = reads(st.value)
            for t in st.targets:
                for n in ast.walk(t):
                    if isinstance(n, ast.Name) and isinstance(n.ctx, ast.Store):
                        wr.add(n.id)
                if not isinstance(t, (ast.Name, ast.Tuple)):
                    eff = True
                    rd |= reads(t)
        elif isinstance(st, ast.AugAssign):
            rd = reads(st.value) | ({st.target.id} if isinstance(st.target, ast.Name) else reads(st.target))
            if isinstance(st.target, ast.Name):
                wr.add(st.target.id)
            else:
                eff = True
        else:
            rd = reads(st)
        if any(isinstance(n, ast.Call) and isinstance(n.func, ast.Attribute) and isinstance(n.func.value, ast.Name)
               and n.func.value.id not in ("np", "math") for n in ast.walk(st)):
            eff = True
        for r in rd:
            if r in assigned and r not in written:
                carried.add(r)
        run(stmts, k + 1, dec, written | wr, eff, cont)

    run(loop.body, 0, [], frozenset(), False, [])
    stuck = [(dec, end) for dec, written, effect, end in paths if not effect and not (set(written) & carried)]
    return carried, stuck, len(paths)


CACHE_DECORATORS = ("lru_cache", "cache", "functools.lru_cache", "functools.cache", "cached_property", "functools.cached_property")


def memoised_functions(tree: ast.Module):
    """names of module-level functions (and methods) whose result is memoised by a decorator"""
    out = set()
    for n in ast.walk(tree):
        if isinstance(n, ast.FunctionDef):
            for d in n.decorator_list:
                f = d.func if isinstance(d, ast.Call) else d
                if src(f) in CACHE_DECORATORS:
                    out.add(n.name)
    return out


def memoised_result_mutations(tree: ast.Module):
    """G-memo: in-place changes of an object returned by a memoised function: the cache hands out the same
    object to every later caller with the same arguments.  -> [(function, node, description)]"""
    memo = memoised_functions(tree)
    out = []
    if not memo:
        return memo, out
    def pred(s_):
        return any(s_.startswith(m + "(") or s_.startswith("self." + m + "(") or s_ == "self." + m for m in memo)
    for fn in [n for n in ast.walk(tree) if isinstance(n, ast.FunctionDef)]:
        for node, desc in shared_state_mutations(fn, pred):
            out.append((fn, node, desc.replace("the stored", "the memoised result")))
    return memo, out


_MEMO_SELFTEST = """
from functools import lru_cache
@lru_cache(maxsize=None)
def table(n):
    return [i for i in range(n)]
def user(n):
    t = table(n)
    t.pop(0)
    return t
def reader(n):
    t = list(table(n))
    t.pop(0)
    return t
"""


def memo_selftest():
    memo, out = memoised_result_mutations(ast.parse(_MEMO_SELFTEST))
    return memo == {"table"} and [f.name for f, _, _ in out] == ["user"]


def stale_cache_keys(fn: ast.FunctionDef):
    """G-cache-key: `if <guard>: <recompute self.X from parameters>` keeps self.X from the previous call when the
    guard is false, so the guard must mention every parameter the recomputed value depends on.
    -> [(if node, attribute, parameters missing from the guard)]"""
    params = {a.arg for a in fn.args.args + fn.args.kwonlyargs if a.arg != "self"}
    out = []

    def pnames(e):
        return {n.id for n in ast.walk(e) if isinstance(n, ast.Name) and n.id in params}

    def self_attr(t):
        while isinstance(t, ast.Subscript):
            t = t.value
        if isinstance(t, ast.Attribute) and isinstance(t.value, ast.Name) and t.value.id == "self":
            return t.attr
        return None

    for iff in ast.walk(fn):
        if not isinstance(iff, ast.If) or iff.orelse:
            continue
        # the guard compares against remembered state
        if not any(isinstance(n, ast.Attribute) and isinstance(n.value, ast.Name) and n.value.id == "self" for n in ast.walk(iff.test)):
            continue
        gp = pnames(iff.test)
        # locals computed inside the guarded block from parameters
        local_dep = {}
        writes = []
        for st in iff.body:
            for n in ast.walk(st):
                if isinstance(n, ast.Assign):
                    dep = pnames(n.value) | {d for x in ast.walk(n.value) if isinstance(x, ast.Name) for d in local_dep.get(x.id, ())}
                    for t in n.targets:
                        a = self_attr(t)
                        if a:
                            writes.append((a, dep))
                        elif isinstance(t, ast.Name):
                            local_dep[t.id] = dep
                elif isinstance(n, ast.AugAssign):
                    a = self_attr(n.target)
                    if a:
                        writes.append((a, pnames(n.value)))
                elif isinstance(n, ast.Call):
                    for k in n.keywords:
                        if k.arg == "out" and self_attr(k.value):
                            dep = set()
                            for x in list(n.args) + [kk.value for kk in n.keywords if kk.arg != "out"]:
                                dep |= pnames(x) | {d for y in ast.walk(x) if isinstance(y, ast.Name) for d in local_dep.get(y.id, ())}
                            writes.append((self_attr(k.value), dep))
        for a, dep in writes:
            # the remembered key itself (self._last = c) is no cached value
            missing = dep - gp
            if missing and dep != gp and not (len(dep) == 1 and dep <= gp):
                # only values read again outside the guarded block are caches
                used_outside = any(isinstance(n, ast.Attribute) and n.attr == a and isinstance(n.value, ast.Name) and n.value.id == "self"
                                   and not any(n is x for x in ast.walk(iff)) for n in ast.walk(fn))
                if used_outside:
                    out.append((iff, a, sorted(missing)))
    return out


_CACHE_SELFTEST = """
class A:
    def step(self, f, c, dt):
        if c != self._last:
            self._feet[:] = self._pts - c * dt
            self._last = c
        use(self._feet)
    def good(self, f, c, dt):
        if c != self._last or dt != self._lastdt:
            self._feet[:] = self._pts - c * dt
            self._last = c
            self._lastdt = dt
        use(self._feet)
"""


def cache_selftest():
    cls = ast.parse(_CACHE_SELFTEST).body[0]
    a = stale_cache_keys(cls.body[0])
    b = stale_cache_keys(cls.body[1])
    return len(a) == 1 and a[0][1] == "_feet" and a[0][2] == ["dt"] and not b


def check_cache_keys(chk, rel, cls_name):
    """rule G5-cache-key over every method of a class"""
    if not cache_selftest():
        raise AnalysisError("the cache-key lint no longer recognises its own positive example")
    cls = chk.mod(rel).cls(cls_name)
    n = 0
    for m in [st for st in cls.body if isinstance(st, ast.FunctionDef)]:
        for iff, a, missing in stale_cache_keys(m):
            n += 1
            chk.ob("G5-cache-key", iff, f"self.{a} recomputed only if {src(iff.test)[:60]}", False,
                   f"`self.{a}` is recomputed from the arguments only when `{src(iff.test)}`, but it also depends on {missing}: a later call "
                   f"with the same guard value and another {'/'.join(missing)} reuses the value of the previous call",
                   file=rel, func=f"{cls_name}.{m.name}")
    chk.ob("G5-cache-key", cls, f"{cls_name}: values kept between calls", n == 0,
           "no value remembered across calls is reused under a guard that ignores an argument it depends on" if n == 0 else
           f"{n} remembered value(s) reused under an incomplete guard", file=rel, func=cls_name,
           nontrivial=False)
