"""C14 - elliptic solver returns the per-mode Galerkin solution of the radial equation."""
from __future__ import annotations

import ast

import sympy as sp

from ..core import src, AnalysisError, parent
from .. import units as U
from ..symx import alg_equal
from .. import ispace as I
from .C05 import solver as solver_index_spaces

CLS = "DiffEqSolver"

# symbols of the element-wise model: Q[...] = sum over quadrature points of  weights*halfwidth*(...)
W, MF, X = sp.symbols("W MF X")
PHI0, PHI1, PSI0, PSI1 = sp.symbols("PHI0 PHI1 PSI0 PSI1")      # trial phi_{s_j} / test-row psi_i and derivatives
A_, B_, C_, D_, E_ = sp.symbols("A B C D E")                     # coefficient functions at the quadrature points

FACTOR_TABLE = {
    "np.tile(self._weights, end - start)": W, "multFactor": MF, "evalPts": X,
    "self._rspline[s_j].eval(evalPts)": PHI0, "self._rspline[s_j].eval(evalPts, 1)": PHI1,
    "spline.eval(evalPts)": PSI0, "spline.eval(evalPts, 1)": PSI1,
    "ddrFactor(evalPts)": A_, "drFactor(evalPts)": B_, "rFactor(evalPts)": C_, "ddThetaFactor(evalPts)": D_,
    "rhoFactor(evalPts)": E_,
}


def to_sym(e, env):
    """arithmetic over the recognised factors -> sympy; np.sum(x) -> Q*x is handled by the caller"""
    s = src(e)
    if s in FACTOR_TABLE:
        return FACTOR_TABLE[s]
    if isinstance(e, ast.Name) and e.id in env:
        return env[e.id]
    if isinstance(e, ast.BinOp):
        a, b = to_sym(e.left, env), to_sym(e.right, env)
        if isinstance(e.op, ast.Mult):
            return a * b
        if isinstance(e.op, ast.Add):
            return a + b
        if isinstance(e.op, ast.Sub):
            return a - b
        if isinstance(e.op, ast.Div):
            return a / b
    if isinstance(e, ast.UnaryOp) and isinstance(e.op, ast.USub):
        return -to_sym(e.operand, env)
    if isinstance(e, ast.Call) and src(e.func) in ("np.sum", "numpy.sum") and len(e.args) == 1:
        return to_sym(e.args[0], env)          # Q is linear: compare integrands
    if isinstance(e, ast.Constant) and isinstance(e.value, (int, float)):
        return sp.nsimplify(e.value)
    raise KeyError(s)


BLOCKS = ("self._dPhidPsi", "self._dPhiPsi", "self._PhiPsi", "self._k2PhiPsi", "self._massMatrix")


def block_lists(fn):
    """self._X = sparse.diags(<list>, ...)  ->  {self._X: list name}"""
    out = {}
    for n in ast.walk(fn):
        if isinstance(n, ast.Assign) and src(n.targets[0]) in BLOCKS:
            v = n.value
            while isinstance(v, ast.Subscript):       # restriction to the unknowns' rows/columns
                v = v.value
            if isinstance(v, ast.Call) and src(v.func).endswith("diags") and v.args and isinstance(v.args[0], ast.Name):
                out[src(n.targets[0])] = v.args[0].id
    return out


def block_vector(e, stiff=None):
    """matrix expression over the assembled blocks -> {block: coefficient}; self._stiffnessMatrix expands to `stiff`"""
    table = {}
    ex = sp.expand(_sym(e, table))
    inv = {v: k for k, v in table.items()}
    vec = {}
    for term in sp.Add.make_args(ex):
        c_, syms = term.as_coeff_mul()
        if len(syms) != 1 or syms[0] not in inv:
            raise KeyError(str(term))
        nm = inv[syms[0]]
        if nm == "self._stiffnessMatrix" and stiff is not None:
            for k, v in stiff.items():
                vec[k] = vec.get(k, 0) + c_ * v
        elif nm in BLOCKS:
            vec[nm] = vec.get(nm, 0) + c_
        else:
            raise KeyError(nm)
    return {k: v for k, v in vec.items() if v != 0}


def operator_blocks(chk):
    """coefficients of the blocks in DiffEqSolver's theta-independent operator, or None"""
    fn = chk.func(U.POISSON, f"{CLS}.__init__")
    d = [n for n in ast.walk(fn) if isinstance(n, ast.Assign) and src(n.targets[0]) == "self._stiffnessMatrix"]
    if len(d) != 1:
        return None
    try:
        return block_vector(d[0].value)
    except KeyError:
        return None


def assembly(chk):
    fn = chk.func(U.POISSON, f"{CLS}.__init__")
    # innermost assembly loop
    loops = [n for n in ast.walk(fn) if isinstance(n, ast.For) and src(n.iter).startswith("enumerate(range(i,")]
    if len(loops) != 1:
        raise AnalysisError("C14: assembly loop `for j, s_j in enumerate(range(i, ...), degree)` not found")
    lp = loops[0]
    it = src(lp.iter).replace(" ", "")
    ok_it = it == "enumerate(range(i,min(i+self._rspline.degree+1,self._rspline.nbasis)),self._rspline.degree)" and \
        src(lp.target).replace(" ", "") in ("(j,s_j)", "j,s_j")
    chk.pat("F4-assembly-indexing", lp, src(lp.iter)[:100], ok_it,
            "entry j of the diagonal list is the diagonal of offset j-degree, i.e. column s_j = i + (j - degree) of row i",
            file=U.POISSON, func=f"{CLS}.__init__")
    outer = parent(lp)
    ok_sp = isinstance(outer, ast.For) and any(isinstance(s, ast.Assign) and src(s.targets[0]) == "spline" and
                                               src(s.value) == "self._rspline[i]" for s in outer.body)
    chk.pat("F4-assembly-indexing", outer, "spline = self._rspline[i]", ok_sp, "`spline` is basis function i (the row)",
            file=U.POISSON, func=f"{CLS}.__init__")
    UP = "j"
    LOW = "self._rspline.degree * 2 - j"
    spec = {
        ("massCoeffs", UP): W * MF * E_ * PHI0 * PSI0 * X,
        ("k2PhiPsiCoeffs", UP): W * MF * D_ * PHI0 * PSI0 * X,
        ("PhiPsiCoeffs", UP): W * MF * C_ * PHI0 * PSI0 * X,
        ("dPhidPsiCoeffs", UP): W * MF * (-A_) * PHI1 * PSI1 * X + W * MF * (-A_) * PHI1 * PSI0,
        ("dPhidPsiCoeffs", LOW): W * MF * (-A_) * PHI1 * PSI1 * X + W * MF * (-A_) * PHI0 * PSI1,
        ("dPhiPsiCoeffs", UP): W * MF * B_ * PHI1 * PSI0 * X,
        ("dPhiPsiCoeffs", LOW): W * MF * B_ * PHI0 * PSI1 * X,
    }
    what = {
        "massCoeffs": "mass = Q[E phi_j psi_i r]", "k2PhiPsiCoeffs": "k2 = Q[D phi_j psi_i r]",
        "PhiPsiCoeffs": "PhiPsi = Q[C phi_j psi_i r]",
        "dPhidPsiCoeffs": "dPhidPsi = Q[-A phi' psi' r] + Q[-A phi' psi] (A phi'' psi r integrated by parts, derivative of the "
                          "extra term on the trial/column function)",
        "dPhiPsiCoeffs": "dPhiPsi = Q[B phi' psi r] (derivative on the trial/column function)",
    }
    env = {}
    seen = set()
    block_got = {}
    for st in lp.body:
        if not isinstance(st, ast.Assign):
            continue
        t = st.targets[0]
        if isinstance(t, ast.Name):
            try:
                env[t.id] = to_sym(st.value, env)
            except KeyError:
                pass
            continue
        if isinstance(t, ast.Subscript) and isinstance(t.value, ast.Subscript) and isinstance(t.value.value, ast.Name):
            name = t.value.value.id
            diag = src(t.value.slice)
            try:
                tb = {}
                dsym = sp.expand(_sym(t.value.slice, tb))
                inv = {v: k for k, v in tb.items()}
                if set(tb) <= {"j", "self._rspline.degree"}:
                    jj, dd = tb.get("j"), tb.get("self._rspline.degree")
                    if jj is not None and dsym == jj:
                        diag = UP
                    elif jj is not None and dd is not None and sp.expand(dsym - (2 * dd - jj)) == 0:
                        diag = LOW
            except KeyError:
                pass
            row = src(t.slice)
            key = (name, diag)
            if key not in spec:
                if name in what:
                    chk.ob("F4-weak-form", st, src(t), None, f"diagonal index `{diag}` not recognised", file=U.POISSON, func=f"{CLS}.__init__")
                continue
            seen.add(key)
            try:
                got = to_sym(st.value, env)
            except KeyError as e:
                chk.ob("F4-weak-form", st, src(t), None, f"integrand contains an unrecognised factor {e}", file=U.POISSON,
                       func=f"{CLS}.__init__")
                continue
            ok = row == "i" and alg_equal(sp.expand(got), sp.expand(spec[key]))
            block_got[key] = sp.expand(got)
            if not ok and row == "i" and name in ("dPhidPsiCoeffs", "dPhiPsiCoeffs", "PhiPsiCoeffs") and \
                    alg_equal(sp.expand(got), sp.expand(-spec[key])):
                # a block stored with the opposite sign is a convention; the assembled operator decides (F4-weak-form-operator)
                chk.ob("F4-weak-form", st, f"{name}[{diag}][{row}]", True, what[name] + " - stored with the opposite sign; the sign is "
                       "accounted for where the operator is assembled", file=U.POISSON, func=f"{CLS}.__init__")
                continue
            chk.ob("F4-weak-form", st, f"{name}[{diag}][{row}]", ok, what[name] if ok else
                   f"integrand {sp.expand(got)} differs from the weak form {sp.expand(spec[key])} ({what[name]})",
                   file=U.POISSON, func=f"{CLS}.__init__", facts={"code": str(sp.expand(got)), "spec": str(sp.expand(spec[key]))})
    missing = set(spec) - seen
    if missing:
        chk.ob("F4-weak-form", lp, "assembly statements", False, f"no assembly statement for {sorted(missing)}", file=U.POISSON,
               func=f"{CLS}.__init__")
    # symmetric forms: lower diagonals are references to the upper ones
    s = src(fn)
    for nm in ("massCoeffs", "k2PhiPsiCoeffs", "PhiPsiCoeffs"):
        ok = f"{nm}.extend({nm}[-2::-1])" in s
        chk.pat("F4-symmetric-storage", fn, f"{nm}.extend({nm}[-2::-1])", ok,
                "lower diagonals alias the upper ones (symmetric form filled once)", file=U.POISSON, func=f"{CLS}.__init__")
    # quadrature points / half width
    from ..core import contains as _contains
    okq = _contains(fn, "multFactor = (self._rspline.breaks[1] - self._rspline.breaks[0]) * 0.5") and \
        _contains(fn, "startPoints = (self._rspline.breaks[1:] + self._rspline.breaks[:-1]) * 0.5") and \
        _contains(fn, "self._evalPts = startPoints[:, None] + points[None, :] * multFactor") and \
        _contains(fn, "points, self._weights = leggauss(n)")
    chk.pat("F4-quadrature-points", fn, "Gauss-Legendre points mapped to the cells", okq,
            "points = cell midpoint + reference point x half width, weights x half width", file=U.POISSON, func=f"{CLS}.__init__")
    # operator composition: the assembled theta-independent operator, block by block
    vec = operator_blocks(chk)
    lists = block_lists(fn)
    ok, why = None, "operator composition not extractable"
    if vec is not None and all(a_ in lists for a_ in vec):
        ok = True
        parts = []
        for diag in (UP, LOW):
            tot = 0
            want = spec[("dPhidPsiCoeffs", diag)] + spec[("dPhiPsiCoeffs", diag)] + spec[("PhiPsiCoeffs", UP)]
            for a_, c_ in vec.items():
                key = (lists[a_], diag) if (lists[a_], diag) in block_got else (lists[a_], UP)
                if key not in block_got:
                    ok = None
                    why = f"integrand of block {a_} not extracted"
                    break
                tot += c_ * block_got[key]
            if ok is None:
                break
            if not alg_equal(sp.expand(tot), sp.expand(want)):
                ok = False
                parts.append(f"{'upper' if diag == UP else 'lower'} diagonals: {sp.expand(tot)} instead of {sp.expand(want)}")
        if ok:
            why = ("sum over blocks (with their signs) of the assembled integrands = -A phi' psi' r - A phi' psi + B phi' psi r + C phi psi r "
                   f"on upper and lower diagonals; blocks {dict((k, str(v)) for k, v in vec.items())}")
        elif ok is False:
            why = "the assembled theta-independent operator is not the weak form of A phi'' + B phi' + C phi: " + "; ".join(parts)
    chk.ob("F4-weak-form-operator", fn, "self._stiffnessMatrix = sum of blocks", ok, why, file=U.POISSON, func=f"{CLS}.__init__")
    # diagonals -> matrices with the same offsets
    okd = all(f"sparse.diags({nm}, diag_range, shape, 'csc')" in s.replace("\n", " ").replace("  ", " ")
              or f"sparse.diags({nm}, diag_range," in s for nm in ("massCoeffs", "k2PhiPsiCoeffs", "PhiPsiCoeffs", "dPhidPsiCoeffs", "dPhiPsiCoeffs")) \
        and "diag_range = range(-d, d + 1)" in s and "d = self._rspline.degree" in s
    chk.pat("F4-operator", fn, "sparse.diags(..., range(-d, d+1))", okd, "diagonal j has offset j - degree", file=U.POISSON,
            func=f"{CLS}.__init__")


def per_mode(chk):
    fn_init = chk.func(U.POISSON, f"{CLS}.__init__")
    # the numbers tested against the Neumann lists are the transform's own mode numbers
    from .C15 import mode_numbers
    mode_numbers(chk)
    # Neumann membership tests read the mode numbers before they are squared
    sq = [n for n in fn_init.body if isinstance(n, ast.AugAssign) and src(n.target) == "self._mVals" and isinstance(n.op, ast.Mult)]
    uses = [n for n in fn_init.body if isinstance(n, ast.Assign) and src(n.targets[0]) in ("self._coeff_range", "self._stiffness_range")]
    sq += [n for n in fn_init.body if isinstance(n, ast.Assign) and src(n.targets[0]) == "self._mVals" and "self._mVals" in src(n.value)]
    ok = len(uses) == 2 and all(u.lineno < q_.lineno for u in uses for q_ in sq)
    bad = None
    if len(uses) == 2 and any(u.lineno > q_.lineno for u in uses for q_ in sq):
        bad = "mode numbers are squared before the per-mode boundary tables are built: Neumann membership is tested on m^2"
    chk.pat("F4-mode-bookkeeping", sq[0] if sq else fn_init, "Neumann membership decided on m, before any squaring of self._mVals", ok,
            "boundary-condition membership is decided on the signed mode numbers m", bad,
            file=U.POISSON, func=f"{CLS}.__init__")
    # the derived solver's m=0 operator is built from the same blocks (their signs are this class's convention)
    from .C15 import m0_operator
    m0_operator(chk)
    if mode_power(chk) < 3:
        raise AnalysisError("C14: fewer than the three per-mode operator sites found")
    for u in uses:
        v = src(u.value).replace(" ", "").replace("\n", "")
        ok_l = "iinlNeumannIdx" in v and "iinuNeumannIdx" in v and "foriinself._mVals" in v
        chk.pat("F4-mode-bookkeeping", u, src(u.targets[0]), ok_l, "one slice per mode, lower/upper Neumann membership decided per mode",
                file=U.POISSON, func=f"{CLS}.__init__")
    # per-mode operator and Dirichlet reset inside the loop, before the solve
    for cls, m, callee in ((CLS, "solveEquation", "_solveMode"), (CLS, "solveEquationForFunction", "_solveModeFunc"),
                           ("QuasiNeutralitySolver", "solveEquation", "_solveMode")):
        fn = chk.func(U.POISSON, f"{cls}.{m}")
        loops = [n for n in fn.body if isinstance(n, ast.For)]
        if len(loops) != 1:
            raise AnalysisError(f"C14: per-mode loop not found in {cls}.{m}")
        lp = loops[0]
        body = lp.body
        pos_call = [k for k, s_ in enumerate(body) if any(isinstance(c, ast.Call) and isinstance(c.func, ast.Attribute)
                                                          and c.func.attr == callee for c in ast.walk(s_))]
        resets = {}
        for k, s_ in enumerate(body):
            if isinstance(s_, ast.Assign) and src(s_.targets[0]) in ("self._coeffs[0]", "self._coeffs[-1]") and src(s_.value) == "0":
                resets[src(s_.targets[0])] = k
        ok = bool(pos_call) and set(resets) == {"self._coeffs[0]", "self._coeffs[-1]"} and all(v < pos_call[0] for v in resets.values())
        bad = None
        if not ok and pos_call:
            outside = [n for n in ast.walk(fn) if isinstance(n, ast.Assign) and src(n.targets[0]) in ("self._coeffs[0]", "self._coeffs[-1]")
                       and src(n.value) == "0" and not any(n is x for x in ast.walk(lp))]
            anyreset = any("_coeffs[0]" in src(n) or "_coeffs[-1]" in src(n) or "_coeffs[" in src(n) for n in ast.walk(lp)
                           if isinstance(n, (ast.Assign, ast.AugAssign)))
            if outside or not anyreset or (resets and any(v > pos_call[0] for v in resets.values())):
                bad = ("the boundary coefficients are not reset for every mode before the solve: the value written by a Neumann mode "
                       "leaks into the following Dirichlet modes (modes no longer independent, Dirichlet value non-zero)")
        chk.pat("F4-dirichlet-reset", lp, f"{cls}.{m}: self._coeffs[0] = self._coeffs[-1] = 0 before each mode", ok,
                "both boundary coefficients are zeroed inside the per-mode loop before the solve, so a Neumann mode's boundary "
                "value cannot leak into the next Dirichlet mode", bad, file=U.POISSON, func=f"{cls}.{m}")
        # operator for mode I: restricted to the unknowns of the global mode index, every per-mode table read at that index
        oko, bad = False, None
        if isinstance(lp.target, ast.Tuple) and len(lp.target.elts) == 2 and isinstance(lp.iter, ast.Call) and src(lp.iter.func) == "enumerate" \
                and lp.iter.args and src(lp.iter.args[0]).replace(" ", "") in ("rho.getGlobalIdxVals(0)", "phi.getGlobalIdxVals(0)"):
            gi = src(lp.target.elts[1])
            ops = [n for n in ast.walk(lp) if isinstance(n, ast.Assign) and isinstance(n.value, ast.Subscript)
                   and any(src(x) == "self._k2PhiPsi" for x in ast.walk(n.value.value))]
            tabs = [n for n in ast.walk(lp) if isinstance(n, ast.Subscript) and src(n.value) in ("self._mVals", "self._stiffness_range", "self._coeff_range")]
            wrong = [src(n) for n in tabs if src(n.slice) != gi]
            if wrong:
                bad = f"per-mode tables are looked up with {wrong} instead of the global mode index `{gi}`"
            elif ops:
                sl = ops[0].value.slice
                oko = isinstance(sl, ast.Tuple) and len(sl.elts) == 2 and all(src(e_) == f"self._stiffness_range[{gi}]" for e_ in sl.elts) \
                    and any(src(x) == "self._stiffnessMatrix" for x in ast.walk(ops[0].value.value))
        chk.pat("F4-mode-operator", lp, f"{cls}.{m}: operator of mode I", oko,
                "operator = (theta-independent operator - m_I^2 k2), restricted to the unknowns of mode I; every per-mode table is read at "
                "the global mode index", bad, file=U.POISSON, func=f"{cls}.{m}")
    # _solveMode: rhs = mass . coeffs(rho), unknowns written into the mode's coefficient range, evaluation of full coeffs
    sm = chk.func(U.POISSON, f"{CLS}._solveMode")
    t = src(sm).replace(" ", "").replace("\n", "")
    ok = "massMat=self._massMatrix[self._stiffness_range[I],:]" in t and "coeffs=self._coeffs[self._coeff_range[I]]" in t and \
        "coeffs[:]=spsolve(stiffnessMatrix,massMat.dot(self._spline.coeffs))" in t and \
        "self._interpolator.compute_interpolant(rho.get1DSlice(i,j),self._spline)" in t
    chk.pat("F4-mode-solve", sm, "_solveMode: coeffs[range_I] = S^-1 M[range_I,:] c(rho)", ok,
            "right-hand side is the mass matrix applied to the spline coefficients of rho; the solution fills the mode's unknowns, "
            "Dirichlet entries keep their zero", file=U.POISSON, func=f"{CLS}._solveMode")
    # every (mode, z) line of the output is written: no path of the z loop skips the store into phi
    for q_ in (f"{CLS}._solveMode", f"{CLS}._solveModeFunc"):
        f_ = chk.func(U.POISSON, q_)
        stores = [n for n in ast.walk(f_) if isinstance(n, ast.Assign) and isinstance(n.targets[0], ast.Subscript)
                  and src(n.targets[0].value).startswith("phi.get1DSlice(")]
        zl = [n for n in f_.body if isinstance(n, ast.For) and stores and any(stores[-1] is x for x in ast.walk(n))]
        if len(zl) != 1 or not stores:
            chk.ob("F4-output-complete", f_, f"{q_}: store into phi.get1DSlice(i, j) inside the z loop", None,
                   "z loop / output store not found", file=U.POISSON, func=q_)
            continue
        st_ = stores[-1]
        inner = {id(x) for n in ast.walk(zl[0]) if n is not zl[0] and isinstance(n, (ast.For, ast.While)) for x in ast.walk(n)}
        skips = [n for n in ast.walk(zl[0]) if isinstance(n, (ast.Continue, ast.Break, ast.Return)) and id(n) not in inner
                 and n.lineno < st_.lineno]
        direct = any(st_ is x for x in zl[0].body)
        chk.ob("F4-output-complete", skips[0] if skips else st_, f"{q_}: every z line of the mode is written", (not skips and direct) if (skips or direct) else None,
               "the store into the output line is an unconditional statement of the z loop" if not skips and direct else
               (f"`{src(parent(skips[0]))[:80]}` leaves the z loop iteration before the output line is written: phi keeps whatever the buffer "
                "held (the previous solve), so the result is no longer the solution for this rho (not linear in rho, not zero for rho = 0)"
                if skips else "the store into the output line is conditional"), file=U.POISSON, func=q_)
    ok2 = "self._real_spline.coeffs[:]=np.real(self._coeffs)" in t and "self._real_spline.coeffs[:]=np.imag(self._coeffs)" in t and \
        "phi.get1DSlice(i,j)[:]=self._realMem+1j*self._imagMem" in t and t.count("self._real_spline.eval_vector(phi.getCoordVals(2),") == 2
    chk.pat("F4-mode-solve", sm, "_solveMode: evaluation at the radial nodes", ok2,
            "real and imaginary parts are evaluated from the full coefficient vector at the grid's r coordinates and recombined",
            file=U.POISSON, func=f"{CLS}._solveMode")


def _sym(e, table):
    """arithmetic expression -> sympy, every name/attribute/subscript an opaque symbol keyed by its source"""
    import sympy as sp
    if isinstance(e, ast.Constant) and isinstance(e.value, (int, float)):
        return sp.nsimplify(e.value)
    if isinstance(e, ast.BinOp) and type(e.op) in (ast.Add, ast.Sub, ast.Mult, ast.Div, ast.Pow):
        a, b = _sym(e.left, table), _sym(e.right, table)
        return {ast.Add: a + b, ast.Sub: a - b, ast.Mult: a * b, ast.Div: a / b, ast.Pow: a ** b}[type(e.op)]
    if isinstance(e, ast.UnaryOp) and isinstance(e.op, ast.USub):
        return -_sym(e.operand, table)
    if isinstance(e, (ast.Name, ast.Attribute, ast.Subscript)):
        return table.setdefault(src(e), sp.Symbol("s%d" % len(table)))
    raise KeyError(src(e))


def mode_power(chk):
    """the coefficient of the k2 block in every per-mode operator is -(m_I)^2, counting the squaring done once in the constructor"""
    import sympy as sp
    fn_init = chk.func(U.POISSON, f"{CLS}.__init__")
    init_exp, unknown = 1, []
    for n in ast.walk(fn_init):
        tgt = None
        if isinstance(n, ast.AugAssign) and src(n.target) == "self._mVals":
            if isinstance(n.op, ast.Mult) and src(n.value) == "self._mVals":
                init_exp *= 2
            elif isinstance(n.op, ast.Pow) and isinstance(n.value, ast.Constant) and isinstance(n.value.value, int):
                init_exp *= n.value.value
            else:
                unknown.append(n)
        elif isinstance(n, ast.Assign) and src(n.targets[0]) == "self._mVals" and "self._mVals" in src(n.value):
            v = src(n.value).replace(" ", "")
            if v in ("self._mVals**2", "self._mVals*self._mVals", "np.square(self._mVals)"):
                init_exp *= 2
            else:
                unknown.append(n)
        elif isinstance(n, (ast.Assign, ast.AugAssign)):
            for t in (n.targets if isinstance(n, ast.Assign) else [n.target]):
                if isinstance(t, ast.Subscript) and src(t.value) == "self._mVals":
                    unknown.append(n)
    nsites = 0
    for cls, m in ((CLS, "solveEquation"), (CLS, "solveEquationForFunction"), ("QuasiNeutralitySolver", "solveEquation")):
        fn = chk.func(U.POISSON, f"{cls}.{m}")
        sites = []
        for n in ast.walk(fn):
            if isinstance(n, ast.BinOp) and any(src(x) == "self._k2PhiPsi" for x in ast.walk(n)) and \
                    not (isinstance(parent(n), ast.BinOp) and any(src(x) == "self._k2PhiPsi" for x in ast.walk(parent(n)))):
                sites.append(n)
        if not sites:
            chk.ob("F4-mode-power", fn, f"{cls}.{m}: coefficient of the k2 block", None, "no expression involving self._k2PhiPsi found",
                   file=U.POISSON, func=f"{cls}.{m}")
            continue
        for site in sites:
            nsites += 1
            ok, why = None, ""
            try:
                table = {}
                ex = sp.expand(_sym(site, table))
                K = table["self._k2PhiPsi"]
                co = sp.Poly(ex, K).coeff_monomial(K)
                ms = [v for k, v in table.items() if k.startswith("self._mVals[")]
                if unknown:
                    why = f"self._mVals is modified by `{src(unknown[0])[:60]}` in the constructor: power of m not determined"
                elif len(ms) != 1:
                    why = f"coefficient of the k2 block is `{co}`: not a power of one mode number"
                else:
                    M = ms[0]
                    pw = sp.degree(co, M) if co.has(M) else 0
                    eff = pw * init_exp
                    idx = [k for k in table if k.startswith("self._mVals[")][0]
                    if sp.simplify(co + M ** pw) == 0 and eff == 2:
                        ok, why = True, (f"the k2 block enters with -({idx})^{pw}, the mode numbers being raised to the power {init_exp} once in the "
                                         "constructor: -m^2 D in total")
                    elif sp.simplify(co + M ** pw) == 0 or sp.simplify(co - M ** pw) == 0:
                        ok = False
                        sign = "-" if sp.simplify(co + M ** pw) == 0 else "+"
                        why = (f"the k2 block enters with {sign}({idx})^{pw} and the constructor raises the mode numbers to the power {init_exp}: "
                               f"the operator contains {sign}m^{eff} D instead of -m^2 D" +
                               (" (+m and -m get different operators)" if eff % 2 else ""))
                    else:
                        why = f"coefficient of the k2 block is `{co}`"
            except (KeyError, sp.PolynomialError) as e:
                why = f"operator expression `{src(site)[:70]}` not an arithmetic expression: {e}"
            chk.ob("F4-mode-power", site, f"{cls}.{m}: {src(site)[:70]}", ok, why, file=U.POISSON, func=f"{cls}.{m}")
    return nsites


def refusal(chk):
    fn = chk.func(U.POISSON, f"{CLS}.__init__")
    raises = [n for n in ast.walk(fn) if isinstance(n, ast.Raise)]
    ok = False
    first_assembly = min([n.lineno for n in ast.walk(fn) if isinstance(n, ast.For)] or [10 ** 9])
    for r in raises:
        g = parent(r)
        if isinstance(g, ast.If) and "poorlyDefined" in src(g.test) and "funcIsNull(rFactor)" in src(g.test) \
                and r.lineno < first_assembly:
            ok = True
    pd = [n for n in ast.walk(fn) if isinstance(n, ast.Assign) and src(n.targets[0]) == "poorlyDefined"]
    okp = bool(pd) and src(pd[0].value).replace(" ", "") == "[bforbinlNeumannIdxifbinuNeumannIdx]"
    bad = None
    if not raises:
        bad = "no refusal of ill-posed pure-Neumann modes is left in the constructor"
    chk.pat("F4-neumann-refusal", fn, "raise ValueError for modes Neumann at both ends with C == 0", ok and okp,
            "modes with Neumann conditions on both boundaries are refused when the reaction term vanishes, before assembly", bad,
            file=U.POISSON, func=f"{CLS}.__init__")


def run(chk):
    chk.explanation = (
        "Element-wise model of the assembly in DiffEqSolver.__init__: each np.sum(weights*halfwidth*...) integrand is parsed "
        "into a polynomial over {W, MF, A..E, phi, phi', psi, psi', r} and compared with the weak form of "
        "A phi'' + B phi' + C phi - m^2 D phi = E rho in cylindrical measure (integration by parts of the A term for constant A, "
        "derivative on the trial/column function on both the upper and the mirrored diagonals); operator composition; mode-number "
        "def-use order; Dirichlet reset inside every per-mode loop; per-mode operator with the global mode index; right-hand "
        "side and evaluation; pure-Neumann refusal; plus the index-space typing of the per-mode tables (engine C). Quadrature "
        "exactness, the sparse solve and evaluation accuracy are not decided.")
    chk.in_file(U.POISSON)
    assembly(chk)
    per_mode(chk)
    refusal(chk)
    solver_index_spaces(chk)
    chk.floor("F4-weak-form", 7)
    chk.floor("F4-", 20)
    chk.floor("C-", 10)
