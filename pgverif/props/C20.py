"""C20 - process-grid selection (narrow claim: the structural clauses)."""
from __future__ import annotations

import ast

from ..core import src, AnalysisError, parent, same_expr, contains
from .. import units as U
from .. import ispace as I


def bounds_vs_layouts(chk):
    O = I.load_layout_tables(chk)
    std = [O[(n, 4)] for n in ("flux_surface", "v_parallel", "poloidal")]
    fn = chk.func(U.PROCGRID, "compute_2d_process_grid")
    r0 = [n for n in fn.body if isinstance(n, ast.Return)]
    names = None
    if len(r0) == 1 and isinstance(r0[0].value, ast.Call) and src(r0[0].value.func) == "compute_2d_process_grid_from_max" \
            and len(r0[0].value.args) == 3 and all(isinstance(a, ast.Name) for a in r0[0].value.args[:2]):
        names = [a.id for a in r0[0].value.args[:2]]
    if names is None:
        chk.pat("N1-bounds-cover-layouts", fn, "return compute_2d_process_grid_from_max(b1, b2, mpi_size)", False, "", file=U.PROCGRID,
                func="compute_2d_process_grid")
        return
    for k, name in ((0, names[0]), (1, names[1])):
        dims = {o[k] for o in std}
        asg = [n for n in fn.body if isinstance(n, ast.Assign) and src(n.targets[0]) == name]
        got = None
        if asg and isinstance(asg[0].value, ast.Call) and src(asg[0].value.func) == "min":
            got = set()
            for a in asg[0].value.args:
                if isinstance(a, ast.Subscript) and src(a.value) == "npts" and isinstance(a.slice, ast.Constant):
                    got.add(a.slice.value)
                else:
                    got = None
                    break
        ok = got is not None and got == dims
        chk.ob("N1-bounds-cover-layouts", asg[0] if asg else fn, f"{name} = min(npts[d] for d distributed along process direction {k})", ok,
               f"the bound of process direction {k} is the smallest extent among the dimensions {sorted(dims)} that the standard layouts "
               f"distribute along it" if ok else f"{name} is the minimum over dimensions {sorted(got) if got is not None else '?'} but the "
               f"standard layouts distribute dimensions {sorted(dims)} along process direction {k}: a process can be left without "
               "points of an unchecked dimension (or a valid grid refused)", file=U.PROCGRID, func="compute_2d_process_grid")
    okr = src(r0[0].value.args[2]) == "mpi_size"
    chk.pat("N1-bounds-cover-layouts", r0[0], "return compute_2d_process_grid_from_max(bound1, bound2, mpi_size)", okr,
            "the two bounds and the process count are handed to the search in this order", file=U.PROCGRID,
            func="compute_2d_process_grid")
    for q in ("setupCylindricalGrid", "setupFromFile"):
        f = chk.func(U.SETUPS, q)
        calls = [c for c in ast.walk(f) if isinstance(c, ast.Call) and src(c.func) == "compute_2d_process_grid"]
        handlers = [c for c in ast.walk(f) if isinstance(c, ast.Call) and src(c.func) == "getLayoutHandler"]
        if len(calls) != 1 or not handlers or len({(src(x.args[0]), src(x.args[2])) for x in handlers if len(x.args) >= 3}) != 1:
            raise AnalysisError(f"C20: {q}: expected one compute_2d_process_grid call and getLayoutHandler calls on one communicator/grid")
        c, h = calls[0], handlers[0]
        ok, bad = False, None
        if len(c.args) + len(c.keywords) == 2 and len(c.args) >= 1 and src(c.args[0]) == "constants.npts" and h.args:
            size = c.args[1] if len(c.args) == 2 else c.keywords[0].value
            if isinstance(size, ast.Name):
                d = [n for n in ast.walk(f) if isinstance(n, ast.Assign) and src(n.targets[0]) == size.id]
                size = d[0].value if len(d) == 1 else None
            if isinstance(size, ast.Call) and isinstance(size.func, ast.Attribute) and size.func.attr == "Get_size" and not size.args:
                cm, hc = src(size.func.value), src(h.args[0])
                # the result must be what the handler receives as process grid
                tgt = parent(c)
                res_ok = isinstance(tgt, ast.Assign) and len(h.args) >= 3 and src(h.args[2]) == src(tgt.targets[0])
                ok = cm == hc and res_ok
                if cm != hc:
                    bad = (f"the process count is the size of `{cm}` but the layouts are built on `{hc}`: on a rank where the two differ "
                           "(the plot-only rank of a split communicator) the grid does not multiply to the size of the communicator it is laid on")
        elif len(c.args) + len(c.keywords) > 2:
            extra = [src(a) for a in c.args[2:]] + [k.arg for k in c.keywords]
            size = c.args[1] if len(c.args) >= 2 else None
            if isinstance(size, ast.Name):
                d = [n for n in ast.walk(f) if isinstance(n, ast.Assign) and src(n.targets[0]) == size.id]
                size = d[0].value if len(d) == 1 else None
            if isinstance(size, ast.Call) and isinstance(size.func, ast.Attribute) and size.func.attr == "Get_size" and h.args \
                    and src(size.func.value) != src(h.args[0]):
                bad = (f"the process count is the size of `{src(size.func.value)}` (adjusted through {extra}) but the layouts are built on "
                       f"`{src(h.args[0])}`: on a rank where the two communicators differ (the plot-only rank) the grid does not multiply "
                       "to the size of the communicator it is laid on")
        chk.pat("N1-call-site", c, f"{q}: compute_2d_process_grid(constants.npts, <layout communicator>.Get_size()) -> getLayoutHandler", ok,
                "the grid sizes and the size of the communicator the layouts are built on; the result is the handler's process grid", bad,
                file=U.SETUPS, func=q)


def search_guards(chk):
    fn = chk.func(U.PROCGRID, "compute_2d_process_grid_from_max")
    # first loop: `while nprocs2 > max_proc2:` ... inner `while (v <= B and mpi_size % v != 0): v += 1` ; `if v > B: raise`
    outer = [n for n in fn.body if isinstance(n, ast.While)]
    if len(outer) != 2:
        raise AnalysisError("C20: the two search loops of compute_2d_process_grid_from_max not found")
    w1 = outer[0]
    inner = [n for n in w1.body if isinstance(n, ast.While)]
    ok = False
    why = "divisor search loop not recognised"
    if len(inner) == 1 and isinstance(inner[0].test, ast.BoolOp) and isinstance(inner[0].test.op, ast.And):
        conj = inner[0].test.values
        bound = [c for c in conj if isinstance(c, ast.Compare) and isinstance(c.ops[0], (ast.LtE, ast.Lt)) and isinstance(c.left, ast.Name)]
        nondiv = [c for c in conj if isinstance(c, ast.Compare) and isinstance(c.ops[0], ast.NotEq) and "%" in src(c)]
        k = w1.body.index(inner[0])
        nxt = w1.body[k + 1] if k + 1 < len(w1.body) else None
        if bound and nondiv and isinstance(nxt, ast.If):
            b = bound[0]
            v, B = b.left.id, src(b.comparators[0])
            want = f"{v} > {B}" if isinstance(b.ops[0], ast.LtE) else f"{v} >= {B}"
            ok = same_expr(nxt.test, want) and any(isinstance(x, ast.Raise) for x in nxt.body) and \
                same_expr(nondiv[0], f"mpi_size % {v} != 0")
            why = (f"the search stops at the first divisor not exceeding {B}; the error is raised exactly when the bound is exceeded "
                   "(the negation of the loop's bound condition)") if ok else \
                (f"after `while {src(inner[0].test)}` the failure test is `{src(nxt.test)}`, not the negated bound `{want}`: a value that "
                 "stepped past the bound onto a divisor is returned as a valid grid (a process gets no point of a distributed dimension)")
    chk.pat("N2-failure-guard", inner[0] if inner else w1, "raise exactly when no divisor <= bound exists", ok, why,
            why if (not ok and why.startswith("after `while")) else None, file=U.PROCGRID, func="compute_2d_process_grid_from_max")
    okw = same_expr(w1.test, "nprocs2 > max_proc2", vars=("nprocs2",)) and contains(w1, "nprocs2 = mpi_size // nprocs1", vars=("nprocs1",)) and \
        contains(fn, "nprocs1 = 1\nnprocs2 = mpi_size")
    chk.pat("N2-factorisation", w1, "nprocs2 = mpi_size // nprocs1 for a divisor nprocs1", okw,
            "the second extent is the exact quotient by a divisor: the grid multiplies to the process count; the search continues "
            "while the second extent exceeds its bound", file=U.PROCGRID, func="compute_2d_process_grid_from_max")
    w2 = outer[1]
    ok2 = contains(w2, "if new_n1 > min(mpi_size, max_proc1):\n    break", vars=("new_n1",)) and \
        contains(w2, "new_n2 = mpi_size // new_n1", vars=("new_n1",)) and \
        any(isinstance(n, ast.If) and same_expr(n.test, "new_n2 <= max_proc2", vars=("new_n2",)) for n in w2.body) and \
        contains(w2, "nprocs1 = new_n1\nnprocs2 = new_n2\nratio = new_ratio", vars=("new_n1", "new_n2", "new_ratio"))
    chk.pat("N2-improvement-step", w2, "candidate accepted only within both bounds, as a pair", ok2,
            "a candidate replaces the current grid only if it respects both bounds, and both extents are replaced together",
            file=U.PROCGRID, func="compute_2d_process_grid_from_max")
    # N3: no iteration of a search loop can leave the loop-carried state unchanged (it would repeat forever)
    from .. import lints
    loops = [n for n in ast.walk(fn) if isinstance(n, ast.While)]
    for lp in loops:
        carried, stuck, npaths = lints.stuck_iterations(lp)
        for dec, end in stuck:
            # the one state-preserving path of today's refinement loop is infeasible: new_n1 > nprocs1, so
            # new_n2 = mpi_size // new_n1 <= mpi_size // nprocs1 = nprocs2 <= max_proc2 (first loop's exit condition);
            # accepted only while the statements carrying that argument are in place (okw, ok2)
            infeasible = lp is w2 and okw and ok2 and end == "end of body" and len(dec) >= 1 and dec[-1][1] is False and \
                same_expr(dec[-1][0], "new_n2 <= max_proc2", vars=("new_n2",)) and \
                contains(w2, "new_n1 = nprocs1 + 1", vars=("new_n1", "nprocs1")) is not None
            if infeasible:
                continue
            shape = lp is w2 and end == "end of body" and dec and dec[-1][1] is False and \
                same_expr(dec[-1][0], "new_n2 <= max_proc2", vars=("new_n2",))
            chk.ob("N3-no-stuck-iteration", dec[-1][0] if dec else lp, f"iteration path ending at {end}", None if shape else False,
                   "the state-preserving path of the refinement loop is infeasible only because new_n2 < nprocs2 <= max_proc2; the statements "
                   "carrying that argument (first search loop, new_n1 = nprocs1 + 1, new_n2 = mpi_size // new_n1) were not all recognised" if shape else
                   "the path " + " / ".join(f"`{src(t)}` is {v}" for t, v in dec) + f" reaches the next iteration ({end}) without changing any of the "
                   f"loop-carried values {sorted(carried)}: the same iteration repeats forever, the search does not terminate",
                   file=U.PROCGRID, func="compute_2d_process_grid_from_max")
        chk.ob("N3-no-stuck-iteration", lp, f"while {src(lp.test)[:60]}", not any(True for _ in []), f"{npaths} iteration paths to the back edge examined; "
               f"loop-carried values {sorted(carried)}", file=U.PROCGRID, func="compute_2d_process_grid_from_max", nontrivial=False)
    # the answer is a function of the arguments alone: no memoised table is changed by a call
    if not lints.memo_selftest():
        raise AnalysisError("C20: the memoised-result lint no longer recognises its own positive example")
    tree = chk.mod(U.PROCGRID).tree
    memo, muts = lints.memoised_result_mutations(tree)
    for f_, node, desc in muts:
        chk.ob("N4-pure-search", node, f"memoised table changed in {f_.name}", False,
               desc + ": the next call with the same process count starts from the shortened table and can refuse a grid that exists "
               "(or return another one)", file=U.PROCGRID, func=f_.name)
    chk.ob("N4-pure-search", fn, "no call changes state that a later call reads", not muts,
           f"memoised helpers: {sorted(memo) or 'none'}; no in-place change of a memoised result; the module keeps no other state",
           file=U.PROCGRID, func="compute_2d_process_grid_from_max", nontrivial=False)
    glob = [n for n in ast.walk(tree) if isinstance(n, (ast.Global, ast.Nonlocal))]
    chk.ob("N4-pure-search", glob[0] if glob else fn, "no global/nonlocal state in process_grid.py", not glob,
           "the search functions declare no global or nonlocal variable" if not glob else
           f"`{src(glob[0])}`: the result of a call can depend on earlier calls", file=U.PROCGRID, func="compute_2d_process_grid_from_max",
           nontrivial=False)
    r = [n for n in fn.body if isinstance(n, ast.Return)]
    okr = len(r) == 1 and same_expr(r[0].value, "(nprocs1, nprocs2)", vars=("nprocs1", "nprocs2"))
    chk.pat("N2-factorisation", r[0] if r else fn, "return nprocs1, nprocs2", okr, "the pair is returned in (direction 0, direction 1) order",
            file=U.PROCGRID, func="compute_2d_process_grid_from_max", nontrivial=False)


def run(chk):
    chk.explanation = (
        "Narrow structural claim: for each process-grid direction the dimensions under the min() that bounds it are exactly the "
        "dimensions the standard layout dictionaries of setups.py distribute along that direction; both set-up functions pass "
        "constants.npts and the layout communicator's size and use the result as the handler's grid; the failure test after the "
        "divisor search is the negation of the loop's bound condition; the second extent is the exact quotient by a divisor; an "
        "improved candidate is accepted only within both bounds; no iteration path of a search loop reaches the back edge with the "
        "loop-carried state unchanged (a necessary condition of termination). Termination in general, optimality and 'raises exactly when none exists' "
        "over the whole input space quantify over divisor arithmetic and are not decided.")
    chk.in_file(U.PROCGRID)
    bounds_vs_layouts(chk)
    search_guards(chk)
    chk.floor("N1-", 5)
    chk.floor("N2-", 4)
