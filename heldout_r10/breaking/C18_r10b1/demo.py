import sys, os; sys.path.insert(0, os.getcwd())
"""C18 (constants part): the parameter file written by str(Constants) reproduces all
constants, and a constants file gives the same result for every key order, also with
symbolic expressions.  Independent reference: hand evaluation in dependency order."""
import json, math, random, tempfile, shutil
from scipy import integrate

import pygyro
assert os.path.abspath(pygyro.__file__).startswith(os.path.abspath(os.getcwd()) + os.sep), pygyro.__file__
from pygyro.initialisation.constants import Constants, get_constants

PUBLIC = ["B0", "R0", "rMin", "rMax", "zMin", "zMax", "vMax", "vMin", "rp", "eps", "eps0",
          "kN0", "kTi", "kTe", "deltaRTi", "deltaRTe", "deltaRN0", "deltaR", "CTi", "CTe",
          "m", "n", "iotaVal", "CN0", "npts", "splineDegrees", "dt"]

failures = []


def check(cond, msg):
    if not cond:
        failures.append(msg)


def snapshot(c):
    return {k: getattr(c, k) for k in PUBLIC}


def same(a, b):
    return all(type(a[k]) is type(b[k]) and a[k] == b[k] for k in PUBLIC)


def cn0_ref(v):
    rp = 0.5*(v["rMin"]+v["rMax"])
    f = lambda r: math.exp(-v["kN0"]*v["deltaRN0"]*math.tanh((r-rp)/v["deltaRN0"]))
    return (v["rMax"]-v["rMin"])/integrate.quad(f, v["rMin"], v["rMax"])[0]


def write_items(path, items):
    with open(path, "w") as f:
        f.write("{\n" + ",\n".join('"%s": %s' % (k, json.dumps(v)) for k, v in items) + "\n}\n")


tmp = tempfile.mkdtemp()
rng = random.Random(1234)
try:
    # ---- 1. printer -> parser round trip, any key order --------------------------
    for trial in range(6):
        c = Constants()
        if trial:
            c.B0 = rng.uniform(0.5, 2)
            c.R0 = rng.uniform(100, 300)
            c.rMin = rng.uniform(0.05, 1.0)
            c.rMax = rng.uniform(10, 20)
            c.zMin = 0.0 if trial % 2 else rng.uniform(-3, 3)
            c.zMax = c.zMin + c.R0*2*math.pi
            c.vMax = rng.uniform(5, 9)
            c.vMin = -c.vMax
            c.kN0 = rng.uniform(0.01, 0.1)
            c.kTi = rng.uniform(0.1, 0.5)
            c.deltaRN0 = rng.uniform(1, 4)
            c.eps = 10.0**(-trial)
            c.m = rng.randrange(1, 20)
            c.iotaVal = rng.choice([0.0, 0.8, 1e-3])
            c.npts = [rng.randrange(4, 40) for _ in range(4)]
            c.splineDegrees = [rng.randrange(1, 6) for _ in range(4)]
            c.dt = rng.choice([1, 2, 0.5, 3])
            c.getCN0()
        ref = snapshot(c)
        text = str(c)
        path = os.path.join(tmp, "p%d.json" % trial)
        with open(path, "w") as f:
            print(text, file=f)
        expected = "{\n" + ",\n".join('"%s":%s' % (k, ref[k]) for k in sorted(PUBLIC)) + "\n}"
        check(text == expected, "printed text differs from the documented format, trial %d" % trial)
        data = json.loads(text)
        check(sorted(data) == sorted(PUBLIC), "printed keys differ: %s" % sorted(data))
        check(same(snapshot(get_constants(path)), ref), "round trip of printed file, trial %d" % trial)
        items = list(data.items())
        for order in range(4):
            rng.shuffle(items)
            write_items(path, items)
            check(same(snapshot(get_constants(path)), ref),
                  "round trip of permuted printed file, trial %d/%d" % (trial, order))

    # ---- 2. symbolic files: result independent of key order -------------------------
    for trial in range(4):
        R0 = [239.8081535, 180.5, 312.25, 99.0][trial]
        vMax = [7.32, 5.5, 9.125, 6.0][trial]
        kTi = [0.27586, 0.31, 0.2, 0.4][trial]
        dRTi = [1.45, 1.7, 1.2, 2.0][trial]
        CTi = [1.0, 1.5, 0.75, 2.0][trial]
        zMin = [0.0, 0.0, -2.5, 0.0][trial]
        sym = {"B0": 1.0, "R0": R0, "rMin": 0.1, "rMax": 14.5, "zMin": zMin,
               "zMax": "zMin + R0*2*pi", "vMax": vMax, "vMin": "-vMax", "eps": 1e-6,
               "eps0": 8.854187817e-12, "kN0": 0.055, "kTi": kTi, "kTe": "kTi",
               "deltaRTi": dRTi, "deltaRTe": "deltaRTi", "deltaRN0": "2.0*deltaRTe",
               "deltaR": "4.0*deltaRN0/deltaRTi", "CTi": CTi, "CTe": "CTi", "m": 15, "n": 1,
               "iotaVal": 0.0, "npts": [16, 32, 8, 16], "splineDegrees": [3, 3, 3, 3], "dt": 2}
        ref = dict(sym)
        ref["zMax"] = zMin + R0*2*math.pi
        ref["vMin"] = -vMax
        ref["kTe"] = kTi
        ref["deltaRTe"] = dRTi
        ref["deltaRN0"] = 2.0*dRTi
        ref["deltaR"] = 4.0*ref["deltaRN0"]/dRTi
        ref["CTe"] = CTi
        ref["rp"] = 0.5*(0.1+14.5)
        ref["CN0"] = cn0_ref(ref)
        path = os.path.join(tmp, "s%d.json" % trial)
        items = list(sym.items())
        orders = [list(items), list(reversed(items)), sorted(items, key=lambda kv: kv[0]),
                  sorted(items, key=lambda kv: kv[0], reverse=True)]
        for _ in range(6):
            rng.shuffle(items)
            orders.append(list(items))
        for io, order in enumerate(orders):
            write_items(path, order)
            try:
                got = snapshot(get_constants(path))
            except Exception as e:      # noqa
                check(False, "symbolic file trial %d order %d raised %r" % (trial, io, e))
                continue
            bad = [k for k in PUBLIC if got[k] != ref[k]]
            check(not bad, "symbolic file trial %d order %d: wrong %s" %
                  (trial, io, [(k, got[k], ref[k]) for k in bad]))
    # ---- 3. a file which cannot be resolved is rejected, not half read -------------
    for bad_file in ({"vMax": "-vMin", "vMin": "-vMax"}, {"kTe": "kTi"}):
        path = os.path.join(tmp, "bad.json")
        write_items(path, list(bad_file.items()))
        try:
            get_constants(path)
            check(False, "unresolvable file %s accepted" % bad_file)
        except AssertionError:
            pass
    # math names and brackets in expressions
    path = os.path.join(tmp, "m.json")
    write_items(path, [("zMax", "(R0 + 1.5)*2*pi - zMin/(2)"), ("zMin", 0.25), ("R0", 200.0)])
    check(get_constants(path).zMax == (200.0 + 1.5)*2*math.pi - 0.25/(2), "bracketed expression")
finally:
    shutil.rmtree(tmp)

if failures:
    print("C18 VIOLATED (%d failures)" % len(failures))
    for m in failures[:10]:
        print("  ", m)
    sys.exit(1)
print("C18 constants part holds")
sys.exit(0)
