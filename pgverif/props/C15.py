"""C15 - quasi-neutrality pipeline: FFT round trip, mode book-keeping, m=0 convention."""
from __future__ import annotations

import ast

import sympy as sp

from ..core import src, AnalysisError, parent
from .. import units as U
from ..symx import alg_equal
from .. import ispace as I
from .C05 import solver as solver_index_spaces, driver_typestate, orders
from .C14 import per_mode

QN = "QuasiNeutralitySolver"


def transforms(chk):
    mod = chk.mod(U.POISSON)
    imp = [n for n in mod.tree.body if isinstance(n, ast.ImportFrom) and n.module and n.module.endswith("fftpack")]
    names = {a.asname or a.name: (n.module, a.name) for n in imp for a in n.names}
    okimp = names.get("fft", ("", ""))[1] == "fft" and names.get("ifft", ("", ""))[1] == "ifft" and \
        names["fft"][0] == names["ifft"][0]
    chk.ob("F5-transform-pair", imp[0] if imp else mod.tree, "from scipy.fftpack import fft, ifft", okimp,
           "forward and inverse transform are the matching pair of one library" if okimp else
           f"fft/ifft are not the matching pair of one module: {names}", file=U.POISSON, func="<module>")
    for m, f, arg in (("getModes", "fft", "rho"), ("findPotential", "ifft", "phi")):
        fn = chk.func(U.POISSON, f"DiffEqSolver.{m}")
        calls = [c for c in ast.walk(fn) if isinstance(c, ast.Call) and isinstance(c.func, ast.Name) and c.func.id in ("fft", "ifft")]
        amb = I.ambient_from_asserts(fn)
        o = amb.get(arg)
        ok = len(calls) == 1 and calls[0].func.id == f
        # transform along theta = last axis of the asserted layout, slice by slice over the two leading axes
        t = src(fn).replace(" ", "").replace("\n", "")
        ok_axis = o is not None and o[-1] == 1 and f"vec={arg}.get1DSlice(i,j)" in t and f"mode={f}(vec" in t and "vec[:]=mode" in t \
            and f"fori,_in{arg}.getCoords(0)" in t and f"forj,_in{arg}.getCoords(1)" in t
        extra = [k.arg for c in calls for k in c.keywords if k.arg not in ("overwrite_x",)]
        chk.ob("F5-transform-pair", fn, f"{m}: {f} along theta, in place", ok and ok_axis and not extra,
               f"every (r,z) line of the asserted layout {o} is replaced by its {f} along theta (last axis), standard mode order"
               if ok and ok_axis and not extra else f"transform call ok={ok}, axis/in-place ok={ok_axis}, extra options={extra}",
               file=U.POISSON, func=f"DiffEqSolver.{m}")


def mode_numbers(chk):
    """mode numbers in the order of the transform's output"""
    fn = chk.func(U.POISSON, "DiffEqSolver.__init__")
    defs = [n for n in fn.body if isinstance(n, ast.Assign) and src(n.targets[0]) == "self._mVals"]
    if len(defs) != 1:
        raise AnalysisError("C15: definition of self._mVals not found")
    v = defs[0].value
    s = src(v).replace(" ", "")
    if s in ("np.fft.fftfreq(nTheta,1/nTheta)", "np.fft.fftfreq(nTheta,1.0/nTheta)", "np.fft.fftfreq(nTheta)*nTheta",
             "nTheta*np.fft.fftfreq(nTheta)", "np.fft.fftfreq(nTheta,d=1/nTheta)"):
        # nothing between the definition and the squaring may modify it
        mods = [n for n in fn.body if n is not defs[0] and any(isinstance(t, (ast.Subscript,)) and src(t.value) == "self._mVals"
                                                                 for t in (getattr(n, "targets", []) or []) + ([n.target] if isinstance(n, ast.AugAssign) else []))]
        chk.ob("F5-mode-numbers", defs[0], src(defs[0]), not mods,
               "mode numbers are the integer frequencies in the transform's own output order (0..,-..-1), for even and odd counts"
               if not mods else "mode numbers are modified in place after fftfreq", file=U.POISSON, func="DiffEqSolver.__init__")
        return
    # hand-built alternative: arange(n) with the upper part shifted by -n; the split point must be ceil(n/2)
    ok = None
    why = f"mode numbers are built by `{src(v)}`: not a recognised construction"
    base, bv = "self._mVals", v
    inner = v
    if isinstance(inner, ast.Call) and isinstance(inner.func, ast.Attribute) and inner.func.attr == "astype":
        inner = inner.func.value
    if isinstance(inner, ast.Name):
        ld = [n for n in fn.body if isinstance(n, ast.Assign) and src(n.targets[0]) == inner.id]
        if len(ld) == 1:
            base, bv = inner.id, ld[0].value
    if src(bv).replace(" ", "").startswith("np.arange(nTheta"):
        shifts = [n for n in fn.body if isinstance(n, ast.AugAssign) and isinstance(n.target, ast.Subscript)
                  and src(n.target.value) == base and isinstance(n.op, ast.Sub) and src(n.value) == "nTheta"]
        lower = None
        if len(shifts) == 1:
            sl = shifts[0].target.slice
            if isinstance(sl, ast.Slice) and sl.upper is None and sl.lower is not None:
                lower = src(sl.lower)
            elif isinstance(sl, ast.Compare) and len(sl.ops) == 1 and src(sl.left) == base:
                # arange values equal their positions: a mask `base > T` shifts positions T+1.., `base >= T` positions T..
                if isinstance(sl.ops[0], ast.Gt):
                    lower = f"({src(sl.comparators[0])}) + 1"
                elif isinstance(sl.ops[0], ast.GtE):
                    lower = src(sl.comparators[0])
        if lower is not None:
            try:
                code = compile(ast.parse(lower, mode="eval"), "<split>", "eval")
                names = {n.id for n in ast.walk(ast.parse(lower, mode="eval")) if isinstance(n, ast.Name)}
                if names - {"nTheta"} or any(isinstance(n, (ast.Call, ast.Attribute)) for n in ast.walk(ast.parse(lower, mode="eval"))):
                    raise ValueError("not an integer expression of nTheta")
                badn = [n for n in range(1, 64) if eval(code, {"__builtins__": {}}, {"nTheta": n}) != (n + 1) // 2]
                ok = not badn
                why = ("split point equals ceil(n/2) for both parities" if ok else
                       f"the part shifted by -nTheta starts at `{lower}`, which differs from ceil(nTheta/2) for nTheta={badn[:4]}...: "
                       "the top mode gets the opposite sign to the transform's numbering (np.fft.fftfreq), so Neumann lists naming it do not match "
                       "and/or +m and -m are confused")
            except Exception as e:
                why = f"split point `{lower}` not evaluable: {e}"
    chk.ob("F5-mode-numbers", defs[0], src(defs[0]), ok, why, file=U.POISSON, func="DiffEqSolver.__init__")


def lam(e):
    """lambda r: <expr>  ->  sympy expression over r and uninterpreted n0(r), Te(r), g(r)=n0'/n0, B"""
    if not isinstance(e, ast.Lambda):
        raise KeyError(src(e))
    r = sp.Symbol("r", positive=True)
    fns = {"n0": sp.Function("n0"), "Te": sp.Function("Te"), "n0derivNormalised": sp.Function("g")}
    Bs = sp.Symbol("B")

    def cv(x):
        if isinstance(x, ast.Name):
            if x.id == "r":
                return r
            if x.id == "B":
                return Bs
            raise KeyError(x.id)
        if isinstance(x, ast.Constant):
            return sp.nsimplify(x.value)
        if isinstance(x, ast.BinOp):
            a, b = cv(x.left), cv(x.right)
            return {ast.Add: a + b, ast.Sub: a - b, ast.Mult: a * b, ast.Div: a / b, ast.Pow: a ** b}[type(x.op)]
        if isinstance(x, ast.UnaryOp) and isinstance(x.op, ast.USub):
            return -cv(x.operand)
        if isinstance(x, ast.Call) and isinstance(x.func, ast.Name) and x.func.id in fns and len(x.args) == 1:
            return fns[x.func.id](cv(x.args[0]))
        raise KeyError(src(x))
    return cv(e.body), r, fns, Bs


def m0_operator(chk):
    """the m=0 operator of the quasi-neutrality solver is the assembled operator, minus the adiabatic block for chi=1"""
    from .C14 import operator_blocks, _sym, BLOCKS
    fn = chk.func(U.POISSON, f"{QN}.__init__")
    stiff = operator_blocks(chk)
    defs = [n for n in ast.walk(fn) if isinstance(n, ast.Assign) and src(n.targets[0]) == "self._stiffness0"]
    if stiff is None or not defs:
        chk.ob("F5-m0-convention", fn, "chi -> m=0 operator", None, "definition of the theta-independent operator / of self._stiffness0 not found",
               file=U.POISSON, func=f"{QN}.__init__")
        return
    kinetic = [n for n in fn.body if isinstance(n, ast.If) and src(n.test).replace("(", "").replace(")", "").replace(" ", "") == "notadiabaticElectrons"]

    def vec(e, chi_val):
        table = {}
        ex = sp.expand(_sym(e, table))
        if "chi" in table:
            if chi_val is None:
                raise KeyError("chi used outside the adiabatic branch")
            ex = sp.expand(ex.subs(table["chi"], chi_val))
        inv = {v: k for k, v in table.items()}
        out = {}
        for term in sp.Add.make_args(ex):
            if term == 0:
                continue
            c_, syms = term.as_coeff_mul()
            nm = inv.get(syms[0]) if len(syms) == 1 else None
            if nm == "self._stiffnessMatrix":
                for k, v in stiff.items():
                    out[k] = out.get(k, 0) + c_ * v
            elif nm in BLOCKS:
                out[nm] = out.get(nm, 0) + c_
            else:
                raise KeyError(str(term))
        return {k: v for k, v in out.items() if v != 0}

    want = {0: dict(stiff), 1: {k: v for k, v in stiff.items() if k != "self._PhiPsi"}}
    covered = set()
    for d in defs:
        in_kinetic = any(any(d is x for x in ast.walk(st)) for k in kinetic for st in k.body)
        # chi values under which this assignment runs
        g = parent(d)
        vals = None
        if isinstance(g, ast.If) and any(d is x for x in g.body):
            t = src(g.test).replace("(", "").replace(")", "").replace(" ", "")
            if t in ("chi==0", "chi==1"):
                vals = [int(t[-1])]
            elif t in ("0==chi", "1==chi"):
                vals = [int(t[0])]
        if in_kinetic:
            cases = [("kinetic electrons", None, dict(stiff))]
        else:
            cases = [(f"chi={v}", v, want[v]) for v in (vals if vals is not None else [0, 1])]
        for tag, cv, w in cases:
            try:
                got = vec(d.value, cv)
                ok = got == w
                covered.add(tag)
                chk.ob("F5-m0-convention", d, f"m=0 operator for {tag}: {src(d.value)[:60]}", ok,
                       ("the full theta-independent operator" if w == stiff else "the theta-independent operator without the adiabatic (C phi) "
                        "block: the flux-surface average is subtracted") if ok else
                       f"for {tag} the m=0 operator is {got}; the theta-independent operator is {stiff} and the m=0 operator must be {w}",
                       file=U.POISSON, func=f"{QN}.__init__")
            except KeyError as e:
                chk.ob("F5-m0-convention", d, f"m=0 operator for {tag}: {src(d.value)[:60]}", None,
                       f"not a combination of the assembled blocks ({e})", file=U.POISSON, func=f"{QN}.__init__")
    raises = any(isinstance(n, ast.Raise) and "chi" in src(n) for n in ast.walk(fn))
    okc = {"chi=0", "chi=1", "kinetic electrons"} <= covered and raises and "self._PhiPsi" in stiff
    chk.ob("F5-m0-convention", fn, "chi in {0, 1} and kinetic electrons all define the m=0 operator; other chi refused", okc,
           f"cases covered: {sorted(covered)}; refusal of other chi: {raises}", file=U.POISSON, func=f"{QN}.__init__", nontrivial=False)


def qn_coefficients(chk):
    fn = chk.func(U.POISSON, f"{QN}.__init__")
    calls = [c for c in ast.walk(fn) if isinstance(c, ast.Call) and src(c.func) == "DiffEqSolver.__init__"]
    if len(calls) != 2:
        raise AnalysisError("C15: expected two DiffEqSolver.__init__ calls in QuasiNeutralitySolver.__init__")
    for c in calls:
        g = parent(c)
        while g is not None and not isinstance(g, ast.If):
            g = parent(g)
        adiabatic = not (isinstance(g, ast.If) and src(g.test).replace("(", "").replace(")", "") == "not adiabaticElectrons" and
                         any(c in ast.walk(s) for s in g.body))
        kw = {k.arg: k.value for k in c.keywords}
        tag = "adiabatic electrons" if adiabatic else "kinetic electrons"
        r = sp.Symbol("r", positive=True)
        gfun, n0f, Tef, Bs = sp.Function("g"), sp.Function("n0"), sp.Function("Te"), sp.Symbol("B")
        spec = {"drFactor": -(1 / r + gfun(r)), "ddThetaFactor": -1 / r ** 2, "rhoFactor": Bs * Bs / n0f(r)}
        if adiabatic:
            spec["rFactor"] = Bs * Bs / Tef(r)
        for name, want in spec.items():
            if name not in kw:
                chk.ob("F5-qn-coefficients", c, f"{name} [{tag}]", False, f"coefficient `{name}` is not passed", file=U.POISSON, func=f"{QN}.__init__")
                continue
            try:
                got, *_ = lam(kw[name])
                ok = alg_equal(got, want)
                chk.ob("F5-qn-coefficients", kw[name], f"{name} [{tag}]", ok, f"{name} = {want}" if ok else
                       f"{name} is {got}, the quasi-neutrality equation needs {want}", file=U.POISSON, func=f"{QN}.__init__")
            except KeyError as e:
                chk.ob("F5-qn-coefficients", kw[name], f"{name} [{tag}]", None, f"coefficient expression not recognised ({e})",
                       file=U.POISSON, func=f"{QN}.__init__")
        extra = set(kw) - set(spec) - {"lNeumannIdx"}
        if not adiabatic and "rFactor" in kw:
            chk.ob("F5-qn-coefficients", c, f"rFactor [{tag}]", False, "kinetic electrons have no adiabatic response term", file=U.POISSON, func=f"{QN}.__init__")
        ln = kw.get("lNeumannIdx")
        okn = ln is not None and src(ln).replace(" ", "") == "[0]" and "uNeumannIdx" not in kw
        chk.ob("F5-qn-boundary", c, f"lNeumannIdx=[0] [{tag}]", okn, "only mode 0 has a Neumann condition, at the inner radius" if okn else
               "boundary conditions of the quasi-neutrality solver changed", file=U.POISSON, func=f"{QN}.__init__")
        # positional: degree, rspline, nr, nTheta
        pos = [src(a).replace(" ", "") for a in c.args]
        okpos = pos == ["self", "degree", "rspline", "eta_grid[0].size", "eta_grid[1].size"]
        chk.ob("F5-qn-sizes", c, "DiffEqSolver.__init__(self, degree, rspline, nr, nTheta)", okpos,
               "nr and nTheta are the global numbers of r and theta points" if okpos else f"positional arguments {pos}",
               file=U.POISSON, func=f"{QN}.__init__")
    # n0derivNormalised default and the n0deriv alternative
    s = src(fn).replace(" ", "").replace("\n", "")
    okd = "init.n0deriv_normalised(r,constants.kN0,constants.rp,constants.deltaRN0)" in s and \
        "returninit.n0(r,constants.CN0,constants.kN0,constants.deltaRN0,constants.rp)" in s and \
        "returninit.Te(r,constants.CTe,constants.kTe,constants.deltaRTe,constants.rp)" in s
    chk.ob("F5-qn-coefficients", fn, "default profiles n0, Te, n0'/n0 from the constants", okd,
           "default profile functions receive the constants of the same name in their documented order" if okd else
           "default profile functions changed", file=U.POISSON, func=f"{QN}.__init__")
    m0_operator(chk)
    se = chk.func(U.POISSON, f"{QN}.solveEquation")
    t = src(se).replace(" ", "").replace("\n", "")
    okm = "if(self._mVals[I]==0):stiffnessMatrix=self._stiffness0" in t.replace("ifself", "if(self").replace("==0:", "==0):") or \
        "ifself._mVals[I]==0:stiffnessMatrix=self._stiffness0" in t
    chk.ob("F5-m0-convention", se, "m=0 test uses the global mode index", okm,
           "the m=0 operator is selected by the (squared) mode number of the global mode index" if okm else
           "the m=0 selection no longer tests self._mVals[I] == 0", file=U.POISSON, func=f"{QN}.solveEquation")


def spectral_typestate(chk):
    """pipeline order in the driver: rho real -> getModes -> solve -> findPotential -> phi real before it is used"""
    fn = chk.func(U.DRIVER, "main")
    uses_phi_real = {"gridStep", "collect", "writeH5Dataset"}

    def walk(stmts, st):
        for s in stmts:
            if isinstance(s, ast.If):
                a, b = dict(st), dict(st)
                walk(s.body, a)
                walk(s.orelse, b)
                for k in st:
                    st[k] = a[k] if a[k] == b[k] else "mixed"
            elif isinstance(s, (ast.While, ast.For)):
                before = dict(st)
                walk(s.body, st)
                ok = before == st
                chk.ob("S-spectral-state", s, "time loop: spectral state of rho/phi", ok,
                       "rho and phi are in the same representation at the start and at the end of an iteration" if ok else
                       f"representation changes across an iteration: {before} -> {st}", file=U.DRIVER, func="main")
            else:
                calls = [c for c in ast.walk(s) if isinstance(c, ast.Call) and isinstance(c.func, ast.Attribute)]
                calls.sort(key=lambda c: (c.end_lineno, c.end_col_offset))
                for c in calls:
                    m = c.func.attr
                    args = [a.id for a in c.args if isinstance(a, ast.Name)]
                    if m in ("getPerturbedRho", "getRho") and len(args) >= 2:
                        st[args[1]] = "real"
                    elif m == "getModes" and args:
                        ok = st.get(args[0]) == "real"
                        chk.ob("S-spectral-state", c, src(c), ok, "the density is in real space when it is transformed" if ok else
                               f"getModes on a grid in state `{st.get(args[0])}`", file=U.DRIVER, func="main")
                        st[args[0]] = "modes"
                    elif m == "solveEquation" and len(args) >= 2 and src(c.func.value) == "QNSolver":
                        ok = st.get(args[1]) == "modes"
                        chk.ob("S-spectral-state", c, src(c), ok, "the right-hand side holds poloidal modes when the per-mode solve runs"
                               if ok else f"solveEquation with the density in state `{st.get(args[1])}`", file=U.DRIVER, func="main")
                        st[args[0]] = "modes"
                    elif m == "findPotential" and args:
                        ok = st.get(args[0]) == "modes"
                        chk.ob("S-spectral-state", c, src(c), ok, "the inverse transform is applied to solved modes" if ok else
                               f"findPotential on a potential in state `{st.get(args[0])}`", file=U.DRIVER, func="main")
                        st[args[0]] = "real"
                    elif m in uses_phi_real and "phi" in ([src(c.func.value)] + args):
                        ok = st.get("phi") == "real"
                        chk.ob("S-spectral-state", c, src(c)[:80], ok, "the potential is in real space where it is consumed" if ok else
                               f"`{m}` consumes the potential in state `{st.get('phi')}`", file=U.DRIVER, func="main")
    walk(fn.body, {"rho": "unset", "phi": "unset"})


def run(chk):
    chk.explanation = (
        "Transform pairing (fft/ifft of one module, along theta = last axis of the asserted layout, in place), mode numbers in "
        "the transform's output order for even and odd counts and squared once, the quasi-neutrality coefficient functions as "
        "rational functions of r compared with -(1/r + n0'/n0), -1/r^2, B^2/Te (adiabatic only), B^2/n0, boundary and m=0/chi "
        "convention, per-mode book-keeping and index spaces of the mode tables, the driver's layout typestate and the "
        "spectral typestate of rho/phi along the pipeline. Realness, zero potential at equilibrium and the fixed point are "
        "numerical consequences and are not decided.")
    chk.assumptions += ["scipy.fftpack.fft/ifft are mutually inverse in the mode order of np.fft.fftfreq"]
    chk.in_file(U.POISSON)
    orders(chk)
    transforms(chk)
    mode_numbers(chk)
    qn_coefficients(chk)
    per_mode(chk)
    solver_index_spaces(chk)
    driver_typestate(chk)
    spectral_typestate(chk)
    chk.floor("F5-", 14)
    chk.floor("S-spectral-state", 10)
    chk.floor("S-operator-layout", 20)
