"""C11 - v-parallel advection evaluates the interpolant at v - c*dt; boundary rule holds."""
from __future__ import annotations

import ast

import sympy as sp
from sympy import Symbol, Integer

from ..core import src, AnalysisError
from .. import units as U
from ..symx import SymExec, ITE, WhileShift, sym_equal, make_args, Undecided, alg_equal
from ..kernels import SPLINE_HANDLERS, S1, FEQ, h_scalar1
from .. import agree

GEN = "general_v_parallel_advection_eval_step"
MODES = {"fEq": "equilibrium distribution at (r, foot)", "null": "zero", "periodic": "periodic image"}


def kernel_mode(chk, mod, code):
    fn = mod.func(GEN)
    args = make_args(fn, funcs={"eval_spline_1d_scalar": h_scalar1}, overrides={"bound": Integer(code)})
    ex = SymExec(fn, args, calls=dict(SPLINE_HANDLERS))
    ex.run()
    i = Symbol("i", integer=True)
    return ex.env["f"].read([i]), args, i


def spec_mode(name, args, i):
    v = args["vPts"].fn(i)
    fam = (Symbol("arr_kts"), args["deg"], Symbol("arr_coeffs"))
    consts = [args[n] for n in ("CN0", "kN0", "deltaRN0", "rp", "CTi", "kTi", "deltaRTi")]
    out = sp.Or(sp.Lt(v, args["vMin"]), sp.Gt(v, args["vMax"]))
    if name == "fEq":
        return ITE(out, FEQ(args["rPos"], v, *consts), S1(v, 0, *fam))
    if name == "null":
        return ITE(out, Integer(0), S1(v, 0, *fam))
    if name == "periodic":
        w = args["vMax"] - args["vMin"]
        v1 = WhileShift(v, Integer(1), args["vMin"], w)
        v2 = WhileShift(v1, Integer(3), args["vMax"], -w)
        return S1(v2, 0, *fam)
    raise AnalysisError(name)


def edge_codes(chk):
    """E-enum: string -> code table of VParallelAdvection.__init__"""
    fn = chk.func(U.ADV, "VParallelAdvection.__init__")
    table = {}
    has_raise = False
    node = None
    for n in fn.body:
        if isinstance(n, ast.If) and "edge" in src(n.test):
            node = n
    if node is None:
        raise AnalysisError("C11: boundary-mode dispatch not found in VParallelAdvection.__init__")
    cur = node
    while True:
        t = cur.test
        if isinstance(t, ast.Compare) and len(t.ops) == 1 and isinstance(t.ops[0], ast.Eq) and src(t.left) == "edge" \
                and isinstance(t.comparators[0], ast.Constant):
            key = t.comparators[0].value
            for a in cur.body:
                if isinstance(a, ast.Assign) and src(a.targets[0]) == "self._edgeType" and isinstance(a.value, ast.Constant):
                    table[key] = a.value.value
        if len(cur.orelse) == 1 and isinstance(cur.orelse[0], ast.If):
            cur = cur.orelse[0]
            continue
        has_raise = any(isinstance(x, ast.Raise) for x in cur.orelse)
        break
    return table, has_raise, node


def run(chk):
    chk.explanation = (
        "Engine F: for each boundary mode the kernel's assignment to f[i] is extracted and compared with "
        "ITE(foot outside [vMin,vMax], fill, S(foot)) (fill = f_eq(r of the line, foot) / 0) or, for the periodic mode, "
        "S(foot shifted by whole periods until inside); the feet handed to the kernel normalise to v_node - c*dt; "
        "producer/consumer agreement of the mode codes; dispatch and argument roles; the interpolant is recomputed from "
        "the current nodal values before evaluation; index-space typing of the grid-level loops (advection speed and "
        "radius of the line (i,j,k) being advanced). Interpolation accuracy is not decided.")
    chk.assumptions += ["spline evaluators have the semantics stated by C07 (uninterpreted S1(x,der;family))"]
    kmod = chk.mod(U.ADVK)
    chk.in_file(U.ADVK)
    chk.functions.add(f"{U.ADVK}:{GEN}")
    table, has_raise, node = edge_codes(chk)
    ok = set(table) == set(MODES) and len(set(table.values())) == 3 and has_raise
    chk.ob("E3-edge-modes", node, "edge -> self._edgeType", ok,
           f"modes {table}; any other string is refused" if ok else f"mode table {table}, refusal of other strings={has_raise}",
           file=U.ADV, func="VParallelAdvection.__init__")
    fnk = kmod.func(GEN)
    for name, what in MODES.items():
        if name not in table:
            continue
        try:
            got, args, i = kernel_mode(chk, kmod, table[name])
            spec = spec_mode(name, args, i)
            okm, wit = sym_equal(got, spec)
            chk.ob("F2-boundary-rule", fnk, f"mode '{name}' (code {table[name]}): f[i] = ...", okm,
                   f"feet outside the domain take the {what}; inside, the interpolant at the foot" if okm else
                   f"kernel branch for code {table[name]} does not implement mode '{name}': {wit}", file=U.ADVK, func=GEN,
                   facts={"code": str(got)[:300], "spec": str(spec)[:300]})
        except Undecided as e:
            chk.ob("F2-boundary-rule", fnk, f"mode '{name}'", None, f"outside the extractable fragment: {e}", file=U.ADVK, func=GEN)
    agree.check_wrapper_dispatch(chk, kmod, "v_parallel_advection_eval_step", GEN)
    # call site in VParallelAdvection.step
    step = chk.func(U.ADV, "VParallelAdvection.step")
    calls = [c for c in ast.walk(step) if isinstance(c, ast.Call) and isinstance(c.func, ast.Name)
             and c.func.id == "v_parallel_advection_eval_step"]
    if len(calls) != 1:
        raise AnalysisError("C11: kernel call not found in VParallelAdvection.step")
    c = calls[0]
    formals = [a.arg for a in kmod.func("v_parallel_advection_eval_step").args.args]
    agree.check_roles(chk, U.ADV, "VParallelAdvection.step", c, formals, {
        "f": "f", "r": "rPos", "self._points[0]": "vMin", "self._points[-1]": "vMax",
        "self._spline.basis.knots": "kts", "self._spline.basis.degree": "deg", "self._spline.coeffs": "coeffs",
        "self._edgeType": "bound", "self._spline.basis.cubic_uniform": "cubic_uniform_splines",
    }, const_recv="self._constants")
    b = agree.bind_call(c, formals) or {}
    feet = b.get("vPts")
    if isinstance(feet, ast.Name):
        # a local computed once in the method stands for its defining expression
        fd = [n_ for n_ in ast.walk(step) if isinstance(n_, ast.Assign) and src(n_.targets[0]) == feet.id]
        st_ = [n_ for n_ in ast.walk(step) if isinstance(n_, ast.Name) and n_.id == feet.id and isinstance(n_.ctx, ast.Store)]
        if len(fd) == 1 and len(st_) == 1:
            feet = fd[0].value
        else:
            # the feet are re-assigned before the kernel sees them: folding them into the domain with `%`/np.mod uses the half-open
            # interval [vMin, vMax), the kernel's periodic image (shift loops) the interval (vMin, vMax]
            wrap = [n_ for n_ in fd if any((isinstance(x_, ast.Call) and src(x_.func) in ("np.mod", "np.remainder", "np.fmod")) or
                                           (isinstance(x_, ast.BinOp) and isinstance(x_.op, ast.Mod)) for x_ in ast.walk(n_.value))]
            if wrap:
                chk.ob("F2-feet", wrap[0], f"vPts <- {feet.id} (re-assigned: {src(wrap[0])[:70]})", False,
                       f"`{src(wrap[0])[:90]}` folds the feet into [vMin, vMax) before the kernel is called: a foot lying exactly on vMax "
                       "(zero displacement, or a displacement of a whole number of cells reaching vMax) is moved to vMin and takes the "
                       "spline's value there, whereas the kernel's own periodic image leaves it on vMax; the spline in v is clamped, "
                       "so the two values differ", file=U.ADV, func="VParallelAdvection.step")
                feet = None
    okf = False
    detail = "no argument bound to vPts"
    if feet is None and isinstance(b.get("vPts"), ast.Name):
        pass
    elif feet is not None:
        P, cc, dt = sp.symbols("P c dt", real=True)
        try:
            val = eval(compile(ast.Expression(body=_rename(feet)), "<feet>", "eval"), {"__builtins__": {}},
                       {"self__points": P, "c": cc, "dt": dt})
            okf = alg_equal(val, P - cc * dt)
            detail = f"feet expression `{src(feet)}` = {val}"
        except Exception as e:
            detail = f"feet expression `{src(feet)}` not a polynomial in (nodes, c, dt): {e}"
    if not (feet is None and isinstance(b.get("vPts"), ast.Name)):
        chk.ob("F2-feet", feet or c, f"vPts <- {src(feet) if feet is not None else '?'}", okf if feet is not None and "not a polynomial" not in detail else (None if feet is not None else False),
               "feet are v_node - c*dt" if okf else detail, file=U.ADV, func="VParallelAdvection.step")
    pts = [n for n in ast.walk(chk.func(U.ADV, "VParallelAdvection.__init__")) if isinstance(n, ast.Assign)
           and src(n.targets[0]) == "self._points"]
    okp = len(pts) == 1 and src(pts[0].value) == "eta_vals[3]"
    chk.ob("E2-point-order", pts[0] if pts else step, "self._points = eta_vals[3]", okp,
           "nodes are the v grid (dimension 3)", file=U.ADV, func="VParallelAdvection.__init__")
    ci = [n_ for n_ in ast.walk(step) if isinstance(n_, ast.Call) and isinstance(n_.func, ast.Attribute) and n_.func.attr == "compute_interpolant"
          and src(n_.func.value) == "self._interpolator"]
    oki = len(ci) == 1 and (ci[0].lineno, ci[0].col_offset) < (c.lineno, c.col_offset) and \
        [src(a_) for a_ in ci[0].args] + [src(k_.value) for k_ in ci[0].keywords] == ["f", "self._spline"]
    chk.ob("E2-interpolate-before-evaluate", step, "compute_interpolant(f, self._spline)", oki,
           "the spline is recomputed from the current nodal values before it is evaluated at the feet" if oki else
           "the spline of f is not recomputed before evaluation", file=U.ADV, func="VParallelAdvection.step")
    # grid-level wiring (index spaces)
    from .C05 import parallel_gradient, v_parallel
    pg_attrs, pg_summ = parallel_gradient(chk)
    v_parallel(chk, pg_summ)
    from .. import lints as _l
    _l.check_cache_keys(chk, U.ADV, "VParallelAdvection")
    chk.floor("F2-", 4)
    chk.floor("E2-argument-role", 12)
    chk.floor("C", 4)


class _Ren(ast.NodeTransformer):
    def visit_Attribute(self, node):
        s = src(node)
        if s == "self._points":
            return ast.copy_location(ast.Name(id="self__points", ctx=ast.Load()), node)
        return self.generic_visit(node)


def _rename(e):
    e2 = ast.parse(src(e), mode="eval").body
    e2 = _Ren().visit(e2)
    return ast.fix_missing_locations(e2)
