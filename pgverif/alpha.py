"""Alpha-normalisation of local variable names (DESIGN 4.8).

Renaming the local variables of a function consistently (injectively, without capturing another
name) does not change what the function computes, so a verdict obtained on the renamed syntax tree
is a verdict on the function as written.  Many rules of the checkers are phrased with the local
names the repository uses today (`size`, `start`, `zDist`, ...).  To keep them applicable after a
local has been renamed, every function is first renamed back to the names recorded in
`refnames.json` (the locals of each function of the reference tree, in order of first binding,
each with a name-independent signature of its binding statement).  The table is only a
recognition aid: whatever renaming is applied is a valid alpha-renaming, hence sound; when no
alignment is found the function is analysed as written.
"""
from __future__ import annotations

import ast
import copy
import difflib
import json
from pathlib import Path

TABLE = Path(__file__).with_name("refnames.json")
_cache = None


def _own_nodes(fn):
    """nodes of fn's body without the bodies of nested functions/classes/lambdas"""
    stack = list(fn.body)
    while stack:
        n = stack.pop()
        yield n
        if isinstance(n, (ast.FunctionDef, ast.AsyncFunctionDef, ast.ClassDef, ast.Lambda)):
            continue
        stack.extend(ast.iter_child_nodes(n))


def has_nested_scope(fn):
    return any(isinstance(n, (ast.FunctionDef, ast.AsyncFunctionDef, ast.ClassDef, ast.Lambda, ast.Global, ast.Nonlocal))
               for n in ast.walk(fn) if n is not fn)


def params_of(fn):
    a = fn.args
    out = {x.arg for x in a.args + a.kwonlyargs + a.posonlyargs}
    if a.vararg:
        out.add(a.vararg.arg)
    if a.kwarg:
        out.add(a.kwarg.arg)
    return out


class _Anon(ast.NodeTransformer):
    def __init__(self, local):
        self.local = local

    def visit_Name(self, node):
        if node.id in self.local:
            return ast.copy_location(ast.Name(id="_", ctx=ast.Load()), node)
        return node


def bindings(fn):
    """[(local name, signature)] in order of first binding; the signature is the binding statement's kind and its
    source with every local replaced by `_`"""
    params = params_of(fn)
    stores = [n for n in ast.walk(fn) if isinstance(n, ast.Name) and isinstance(n.ctx, ast.Store) and n.id not in params]
    stores.sort(key=lambda n: (n.lineno, n.col_offset))
    local = {n.id for n in stores}
    seen, out = set(), []
    for n in stores:
        if n.id in seen:
            continue
        seen.add(n.id)
        st = n
        while not isinstance(st, (ast.stmt, ast.comprehension)) and getattr(st, "_parent", None) is not None:
            st = st._parent
        try:
            if isinstance(st, (ast.For, ast.AsyncFor)):
                core = ast.unparse(_Anon(local).visit(ast.parse(ast.unparse(st.iter), mode="eval").body))
                sig = "for:" + core
            elif isinstance(st, ast.comprehension):
                sig = "comp:" + ast.unparse(_Anon(local).visit(ast.parse(ast.unparse(st.iter), mode="eval").body))
            elif isinstance(st, (ast.Assign, ast.AugAssign, ast.AnnAssign)) and st.value is not None:
                sig = type(st).__name__ + ":" + ast.unparse(_Anon(local).visit(ast.parse(ast.unparse(st.value), mode="eval").body))
            else:
                sig = type(st).__name__
        except Exception:
            sig = type(st).__name__
        out.append((n.id, sig))
    return out


def build_table(repo_root: Path, units):
    table = {}
    for rel in units:
        p = repo_root / rel
        if p.is_symlink() or not p.exists():
            continue
        tree = ast.parse(p.read_text())
        for node in ast.walk(tree):
            for ch in ast.iter_child_nodes(node):
                ch._parent = node
        entry = {}

        def visit(body, prefix):
            for st in body:
                if isinstance(st, ast.ClassDef):
                    visit(st.body, prefix + st.name + ".")
                elif isinstance(st, (ast.FunctionDef, ast.AsyncFunctionDef)):
                    q = prefix + st.name
                    if any(ast.unparse(d).endswith(".setter") for d in st.decorator_list):
                        q += ".setter"
                    if not has_nested_scope(st):
                        b = bindings(st)
                        if b:
                            entry[q] = b
        visit(tree.body, "")
        if entry:
            table[rel] = entry
        allq = []

        def names(body, prefix):
            for st in body:
                if isinstance(st, ast.ClassDef):
                    names(st.body, prefix + st.name + ".")
                elif isinstance(st, (ast.FunctionDef, ast.AsyncFunctionDef)):
                    q = prefix + st.name
                    if any(ast.unparse(d).endswith(".setter") for d in st.decorator_list):
                        q += ".setter"
                    allq.append(q)
        names(tree.body, "")
        table.setdefault("__functions__", {})[rel] = allq
        nested = {}

        def nest(body, prefix):
            for st in body:
                if isinstance(st, ast.ClassDef):
                    nest(st.body, prefix + st.name + ".")
                elif isinstance(st, (ast.FunctionDef, ast.AsyncFunctionDef)):
                    inner = [n.name for n in ast.walk(st) if n is not st and isinstance(n, (ast.FunctionDef, ast.AsyncFunctionDef))]
                    if inner:
                        nested[prefix + st.name] = inner
        nest(tree.body, "")
        if nested:
            table.setdefault("__nested__", {})[rel] = nested
    return table


def load_table():
    global _cache
    if _cache is None:
        try:
            _cache = json.loads(TABLE.read_text())
        except (OSError, ValueError):
            _cache = {}
    return _cache


def normalise(rel, fn, qual):
    """rename the locals of fn (in place) back to the reference names where a valid alignment exists -> mapping used"""
    ref = load_table().get(rel, {}).get(qual)
    if not ref or has_nested_scope(fn):
        return {}
    cur = bindings(fn)
    cur_names, ref_names = [c[0] for c in cur], [r[0] for r in ref]
    if cur_names == ref_names or set(cur_names) == set(ref_names):
        return {}
    pairs = []
    same_sig = sum(1 for c, r in zip(cur, ref) if c[1] == r[1])
    if len(cur) == len(ref) and same_sig >= 0.6 * len(cur):
        # a pure renaming: the binding statements line up one to one; a pair whose binding statements are not
        # alike is left alone (the local has a new definition AND a new name: giving it the reference name would
        # make name-keyed rules speak about a different variable)
        pairs = [(c[0], r[0]) for c, r in zip(cur, ref)
                 if c[1] == r[1] or difflib.SequenceMatcher(a=c[1], b=r[1], autojunk=False).ratio() >= 0.6]
    else:
        sm = difflib.SequenceMatcher(a=[c[1] for c in cur], b=[r[1] for r in ref], autojunk=False)
        for blk in sm.get_matching_blocks():
            for k in range(blk.size):
                pairs.append((cur_names[blk.a + k], ref_names[blk.b + k]))
    mapping = {c: r for c, r in pairs if c != r}
    if not mapping:
        return {}
    # valid alpha-renaming: injective, and no new name may collide with a name the function already uses
    used = {n.id for n in ast.walk(fn) if isinstance(n, ast.Name)} | params_of(fn)
    # validated against the FINAL accepted set, to a fixpoint: a target name that stays in use (its own renaming was
    # rejected) must not receive another variable, otherwise two different variables would be merged
    ok = dict(mapping)
    changed = True
    while changed:
        changed = False
        for c, r in list(ok.items()):
            dup = sum(1 for v in ok.values() if v == r) > 1
            if dup or (r in used and r not in ok):      # r stays in use: it is not itself renamed away in the accepted set
                del ok[c]
                changed = True
    # renaming chains (a->b while b->c) are fine when applied simultaneously
    for n in ast.walk(fn):
        if isinstance(n, ast.Name) and n.id in ok:
            n.id = ok[n.id]
    return ok


# ---------------------------------------------------------------------------------------------------------
# temporaries that the reference tree does not have: `tmp = <pure expr>` immediately followed by the only
# statement that reads `tmp` is the same computation as that statement with the expression written in place
PURE_CALL_ROOTS = {"np", "numpy", "math", "len", "range", "min", "max", "abs", "int", "float", "slice", "tuple", "list"}


PURE_METHODS = {"conj", "conjugate", "copy", "flatten", "ravel", "reshape", "transpose", "astype", "sum", "min", "max", "any", "all",
                "index", "count", "Get_size", "Get_rank", "keys", "values", "items", "get", "dot", "mean", "prod", "cumsum", "tolist"}


def _pure(e):
    for n in ast.walk(e):
        if isinstance(n, ast.Call):
            f = n.func
            root = f
            while isinstance(root, ast.Attribute):
                root = root.value
            pure_method = isinstance(f, ast.Attribute) and f.attr in PURE_METHODS
            if not (isinstance(root, ast.Name) and root.id in PURE_CALL_ROOTS) and not pure_method:
                return False
        elif isinstance(n, (ast.Lambda, ast.ListComp, ast.GeneratorExp, ast.DictComp, ast.SetComp, ast.Yield, ast.Await, ast.NamedExpr,
                            ast.Starred)):
            return False
    return True


class _Subst(ast.NodeTransformer):
    def __init__(self, name, expr):
        self.name, self.expr, self.n = name, expr, 0

    def visit_Name(self, node):
        if node.id == self.name and isinstance(node.ctx, ast.Load):
            self.n += 1
            new = ast.parse(ast.unparse(self.expr), mode="eval").body
            for x in ast.walk(new):
                ast.copy_location(x, node)
            return new
        return node


def _is_chain(e):
    """name, attribute chain (self.a.b) or element/view of one by names and constants (self.a[i, j]): an object reference"""
    while isinstance(e, (ast.Attribute, ast.Subscript)):
        if isinstance(e, ast.Subscript):
            idx = e.slice.elts if isinstance(e.slice, ast.Tuple) else [e.slice]
            if not all(isinstance(i, (ast.Name, ast.Constant)) for i in idx):
                return False
        e = e.value
    return isinstance(e, ast.Name)


def propagate_new_aliases(fn, ref_names):
    """a local the reference tree does not have, bound once to a name / attribute chain that the function never rebinds,
    is that object under another name: every use is replaced by the chain. -> names replaced"""
    done = []
    # a, b = <chain>   ->   a = <chain>[0]; b = <chain>[1]     (new locals only)
    for k, st in enumerate(list(fn.body)):
        if isinstance(st, ast.Assign) and len(st.targets) == 1 and isinstance(st.targets[0], ast.Tuple) and _is_chain(st.value) \
                and not isinstance(st.value, ast.Name) and all(isinstance(e, ast.Name) and e.id not in ref_names for e in st.targets[0].elts):
            new = []
            for pos, e in enumerate(st.targets[0].elts):
                a = ast.Assign(targets=[ast.Name(id=e.id, ctx=ast.Store())],
                               value=ast.Subscript(value=ast.parse(ast.unparse(st.value), mode="eval").body,
                                                   slice=ast.Constant(value=pos), ctx=ast.Load()))
                for x in ast.walk(a):
                    ast.copy_location(x, st)
                a._parent = fn
                new.append(a)
            i0 = fn.body.index(st)
            fn.body[i0:i0 + 1] = new
    stores = {}
    for n in ast.walk(fn):
        if isinstance(n, ast.Name) and isinstance(n.ctx, ast.Store):
            stores.setdefault(n.id, []).append(n)
    attr_stores = {ast.unparse(n) for n in ast.walk(fn) if isinstance(n, ast.Attribute) and isinstance(n.ctx, ast.Store)}
    for st in list(ast.walk(fn)):
        if not (isinstance(st, ast.Assign) and len(st.targets) == 1 and isinstance(st.targets[0], ast.Name) and _is_chain(st.value)):
            continue
        nm = st.targets[0].id
        if nm in ref_names or len(stores.get(nm, [])) != 1 or isinstance(st.value, ast.Name):
            continue
        chain = ast.unparse(st.value)
        root = chain.split(".")[0].split("[")[0]
        base = st.value
        prefixes = set()
        while isinstance(base, (ast.Attribute, ast.Subscript)):
            prefixes.add(ast.unparse(base))
            base = base.value
        prefixes.add(ast.unparse(base))
        idx_names = {x.id for x in ast.walk(st.value) if isinstance(x, ast.Name)} - {root}
        if any(len(stores.get(x, [])) > 0 and x not in params_of(fn) or (x in params_of(fn) and stores.get(x)) for x in idx_names):
            continue
        if prefixes & attr_stores or (root != "self" and len(stores.get(root, [])) > 0 and root not in params_of(fn)) or \
                (root in params_of(fn) and stores.get(root)):
            continue
        par = getattr(st, "_parent", None)
        blk = None
        for f in ("body", "orelse", "finalbody"):
            b = getattr(par, f, None)
            if isinstance(b, list) and any(x is st for x in b):
                blk = b
        if blk is None or par is not fn:
            continue            # only aliases made at the top level of the function dominate all their uses
        uses = [n for n in ast.walk(fn) if isinstance(n, ast.Name) and n.id == nm and isinstance(n.ctx, ast.Load)]
        if any((u.lineno, u.col_offset) < (st.lineno, st.col_offset) for u in uses):
            continue
        _Subst(nm, st.value).visit(fn)
        blk[:] = [x for x in blk if x is not st]
        done.append(nm)
    return done


class _SpliceStar(ast.NodeTransformer):
    """f(*(a, b)) -> f(a, b)"""

    def visit_Call(self, node):
        self.generic_visit(node)
        if any(isinstance(a, ast.Starred) and isinstance(a.value, (ast.Tuple, ast.List)) for a in node.args):
            new = []
            for a in node.args:
                if isinstance(a, ast.Starred) and isinstance(a.value, (ast.Tuple, ast.List)):
                    new.extend(a.value.elts)
                else:
                    new.append(a)
            node.args = new
        return node


class _SubstMany(ast.NodeTransformer):
    def __init__(self, m):
        self.m = m

    def visit_Name(self, node):
        if node.id in self.m and isinstance(node.ctx, ast.Load):
            new = ast.parse(ast.unparse(self.m[node.id]), mode="eval").body
            for x in ast.walk(new):
                ast.copy_location(x, node)
            return new
        return node


def unroll_new_table_loops(fn, ref_names):
    """`for a, b in ((x1, y1), (x2, y2)): body` with loop variables the reference tree does not have and a literal table of
    side-effect-free entries is the body repeated with the entries written in place. -> number of loops unrolled"""
    n_done = 0
    for _ in range(4):
        changed = False
        for node in list(ast.walk(fn)):
            for f in ("body", "orelse", "finalbody"):
                blk = getattr(node, f, None)
                if not isinstance(blk, list):
                    continue
                for k, st in enumerate(blk):
                    if not isinstance(st, ast.For) or st.orelse:
                        continue
                    rows, table_def = None, None
                    if isinstance(st.iter, (ast.Tuple, ast.List)):
                        rows = st.iter.elts
                    elif isinstance(st.iter, ast.Name) and st.iter.id not in ref_names:
                        defs = [n for n in ast.walk(fn) if isinstance(n, ast.Assign) and len(n.targets) == 1
                                and isinstance(n.targets[0], ast.Name) and n.targets[0].id == st.iter.id]
                        uses = [n for n in ast.walk(fn) if isinstance(n, ast.Name) and n.id == st.iter.id]
                        if len(defs) == 1 and len(uses) == 2 and isinstance(defs[0].value, (ast.Tuple, ast.List)):
                            rows, table_def = defs[0].value.elts, defs[0]
                    if rows is None or not rows or len(rows) > 16:
                        continue
                    tgts = st.target.elts if isinstance(st.target, (ast.Tuple, ast.List)) else [st.target]
                    if not all(isinstance(t, ast.Name) and t.id not in ref_names for t in tgts):
                        continue
                    if any(isinstance(n, (ast.Break, ast.Continue)) for n in ast.walk(st)):
                        continue
                    tn = {t.id for t in tgts}
                    if any(isinstance(n, ast.Name) and n.id in tn and isinstance(n.ctx, ast.Store) for b_ in st.body for n in ast.walk(b_)):
                        continue
                    new, ok = [], True
                    for r in rows:
                        if isinstance(st.target, (ast.Tuple, ast.List)):
                            if not isinstance(r, (ast.Tuple, ast.List)) or len(r.elts) != len(tgts):
                                ok = False
                                break
                            vals = r.elts
                        else:
                            vals = [r]
                        if not all(_pure(v) for v in vals):
                            ok = False
                            break
                        m = {t.id: v for t, v in zip(tgts, vals)}
                        for b_ in st.body:
                            c = ast.parse(ast.unparse(b_)).body[0]
                            for x in ast.walk(c):
                                ast.copy_location(x, b_)
                            new.append(_SubstMany(m).visit(c))
                    if not ok:
                        continue
                    blk[k:k + 1] = new
                    if table_def is not None:
                        for n2 in ast.walk(fn):
                            for f2 in ("body", "orelse", "finalbody"):
                                b2 = getattr(n2, f2, None)
                                if isinstance(b2, list) and any(x is table_def for x in b2):
                                    b2[:] = [x for x in b2 if x is not table_def]
                    n_done += 1
                    changed = True
                    break
                if changed:
                    break
            if changed:
                break
        if not changed:
            break
    return n_done


def inline_new_temps(rel, fn, qual):
    """-> names inlined"""
    ref = load_table().get(rel, {}).get(qual)
    if ref is None and qual in reference_functions(rel):
        ref = []                 # a function of the reference tree that has no locals there
    if ref is None or has_nested_scope(fn):
        return []
    ref_names = {r[0] for r in ref}
    _SpliceStar().visit(fn)
    cur = bindings(fn)
    if len(cur) <= len(ref_names) and {c[0] for c in cur} <= ref_names:
        return []
    if unroll_new_table_loops(fn, ref_names):
        ast.fix_missing_locations(fn)
        for node in ast.walk(fn):
            for ch in ast.iter_child_nodes(node):
                ch._parent = node
    done = propagate_new_aliases(fn, ref_names)
    changed = True
    while changed:
        changed = False
        loads, stores = {}, {}
        for n in ast.walk(fn):
            if isinstance(n, ast.Name):
                (stores if isinstance(n.ctx, ast.Store) else loads).setdefault(n.id, []).append(n)
        for node in ast.walk(fn):
            for f in ("body", "orelse", "finalbody"):
                blk = getattr(node, f, None)
                if not isinstance(blk, list):
                    continue
                for k in range(len(blk) - 1):
                    st, nxt = blk[k], blk[k + 1]
                    if not (isinstance(st, ast.Assign) and len(st.targets) == 1 and isinstance(st.targets[0], ast.Name)):
                        continue
                    nm = st.targets[0].id
                    if nm in ref_names or len(stores.get(nm, [])) != 1 or len(loads.get(nm, [])) != 1 or not _pure(st.value):
                        continue
                    use = loads[nm][0]
                    if not any(use is x for x in ast.walk(nxt)) or isinstance(nxt, (ast.For, ast.While, ast.FunctionDef, ast.ClassDef)):
                        continue
                    # the next statement must not assign anything the expression reads before using it (single statement: only
                    # its own targets, evaluated after the value) - safe for Assign/AugAssign/Expr/Return/If-test
                    if isinstance(nxt, ast.If):
                        if not any(use is x for x in ast.walk(nxt.test)):
                            continue
                        nxt.test = _Subst(nm, st.value).visit(nxt.test)
                    elif isinstance(nxt, (ast.Assign, ast.AugAssign, ast.Expr, ast.Return, ast.Assert)):
                        blk[k + 1] = _Subst(nm, st.value).visit(nxt)
                    else:
                        continue
                    del blk[k]
                    done.append(nm)
                    changed = True
                    break
                if changed:
                    break
            if changed:
                break
    return done


# ---------------------------------------------------------------------------------------------------------
# helper functions the reference tree does not have ("extract method"): a call of such a helper whose body is
# straight-line code ending in at most one `return` is the helper's body with the parameters bound to the
# arguments.  Writing the body back at the call site is the inverse of the refactoring and preserves behaviour.
def reference_functions(rel):
    return set(load_table().get("__functions__", {}).get(rel, []))


def _simple_helper(fn):
    if fn.args.vararg or fn.args.kwarg or fn.args.posonlyargs or fn.args.kwonlyargs:
        return False
    for d in fn.decorator_list:
        if not (isinstance(d, ast.Name) and d.id in ("staticmethod", "pure", "inline")):
            return False
    body = [st for st in fn.body if not (isinstance(st, ast.Expr) and isinstance(st.value, ast.Constant))]
    if not body:
        return False
    in_defaults = {id(x) for d in list(fn.args.defaults) + [k for k in fn.args.kw_defaults if k is not None] for x in ast.walk(d)}
    for n in ast.walk(fn):
        if n is fn or id(n) in in_defaults:
            continue
        if isinstance(n, (ast.FunctionDef, ast.AsyncFunctionDef, ast.ClassDef, ast.Lambda, ast.Yield, ast.YieldFrom, ast.Global,
                          ast.Nonlocal, ast.Try, ast.With)):
            return False
    rets = [n for n in ast.walk(fn) if isinstance(n, ast.Return)]
    if len(rets) > 1 or (rets and rets[0] is not body[-1]):
        return False
    return True


class _RenameAll(ast.NodeTransformer):
    def __init__(self, m):
        self.m = m

    def visit_Name(self, node):
        if node.id in self.m:
            node.id = self.m[node.id]
        return node


def _clone_body(fn):
    mod = ast.parse(ast.unparse(ast.Module(body=[st for st in fn.body if not (isinstance(st, ast.Expr) and isinstance(st.value, ast.Constant))],
                                           type_ignores=[])))
    return mod.body


def inline_new_helpers(tree, rel):
    """-> list of (caller qualname, helper name) inlined"""
    ref = reference_functions(rel)
    if not ref:
        return []
    helpers = {}           # (class or None, name) -> FunctionDef
    known = []             # (qualname, FunctionDef, class name or None)
    for st in tree.body:
        if isinstance(st, ast.FunctionDef):
            if st.name in ref:
                known.append((st.name, st, None))
            else:
                helpers[(None, st.name)] = st
        elif isinstance(st, ast.ClassDef):
            for m in st.body:
                if isinstance(m, ast.FunctionDef):
                    q = f"{st.name}.{m.name}"
                    if any(ast.unparse(d).endswith(".setter") for d in m.decorator_list):
                        q += ".setter"
                    if q in ref:
                        known.append((q, m, st.name))
                    else:
                        helpers[(st.name, m.name)] = m
    # a method that a subclass of the same module overrides is not a fixed piece of code at `self.h()` call sites
    bases = {st.name: [ast.unparse(b).split(".")[-1] for b in st.bases] for st in tree.body if isinstance(st, ast.ClassDef)}
    methods = {st.name: {m.name for m in st.body if isinstance(m, ast.FunctionDef)} for st in tree.body if isinstance(st, ast.ClassDef)}

    def overridden(cls, name):
        for sub, bs in bases.items():
            if cls in bs and (name in methods.get(sub, ()) or overridden(sub, name)):
                return True
        return False
    helpers = {k: v for k, v in helpers.items() if _simple_helper(v) and not (k[0] is not None and overridden(k[0], k[1]))}
    has_new_local = any(isinstance(st, ast.FunctionDef) and st.name not in load_table().get("__nested__", {}).get(rel, {}).get(q, [])
                        for q, fn, cls in known for st in fn.body)
    if not helpers and not has_new_local:
        return []
    done = []
    counter = [0]

    def resolve(call, cls):
        f = call.func
        if isinstance(f, ast.Name) and (None, f.id) in helpers:
            return helpers[(None, f.id)], False
        if isinstance(f, ast.Attribute) and isinstance(f.value, ast.Name):
            if f.value.id == "self" and cls and (cls, f.attr) in helpers:
                h = helpers[(cls, f.attr)]
                static = any(isinstance(d, ast.Name) and d.id == "staticmethod" for d in h.decorator_list)
                return h, not static
            if (f.value.id, f.attr) in helpers:
                h = helpers[(f.value.id, f.attr)]
                static = any(isinstance(d, ast.Name) and d.id == "staticmethod" for d in h.decorator_list)
                return (h, False) if static else (None, False)
        return None, False

    def expand(call, h, bound_self, caller_names, kind, target):
        """statements replacing the call; kind in expr/assign/return"""
        counter[0] += 1
        params = [a.arg for a in h.args.args]
        defaults = dict(zip(params[len(params) - len(h.args.defaults):], h.args.defaults))
        actual = {}
        pos = list(call.args)
        if bound_self:
            actual[params[0]] = ast.Name(id="self", ctx=ast.Load())
            rest = params[1:]
        else:
            rest = params
        if len(pos) > len(rest) or any(isinstance(a, ast.Starred) for a in pos) or any(k.arg is None for k in call.keywords):
            return None
        for p, a in zip(rest, pos):
            actual[p] = a
        for k in call.keywords:
            if k.arg not in rest or k.arg in actual:
                return None
            actual[k.arg] = k.value
        for p in rest:
            if p not in actual:
                if p not in defaults:
                    return None
                actual[p] = defaults[p]
        body = _clone_body(h)
        stored = {n.id for st in body for n in ast.walk(st) if isinstance(n, ast.Name) and isinstance(n.ctx, ast.Store)}
        mapping, pre = {}, []
        for p in params:
            a = actual[p]
            if isinstance(a, ast.Name) and p not in stored:
                if a.id != p:
                    mapping[p] = a.id
            else:
                new = p if p not in caller_names else f"{p}__h{counter[0]}"
                if new != p:
                    mapping[p] = new
                pre.append(ast.Assign(targets=[ast.Name(id=new, ctx=ast.Store())], value=ast.parse(ast.unparse(a), mode="eval").body))
        for loc in stored - set(params):
            if loc in caller_names:
                mapping[loc] = f"{loc}__h{counter[0]}"
        # a mapped parameter must not capture a helper local of the same name
        if set(mapping.values()) & (stored - set(mapping)):
            return None
        body = [_RenameAll(mapping).visit(st) for st in body]
        out = pre + body
        if out and isinstance(out[-1], ast.Return):
            r = out.pop()
            val = r.value if r.value is not None else ast.Constant(value=None)
            if kind == "assign":
                out.append(ast.Assign(targets=[target], value=val))
            elif kind == "return":
                out.append(ast.Return(value=val))
            elif kind == "augassign":
                out.append(ast.AugAssign(target=target[0], op=target[1], value=val))
        elif kind in ("assign", "augassign"):
            return None
        elif kind == "return":
            out.append(ast.Return(value=ast.Constant(value=None)))
        for st in out:
            for x in ast.walk(st):
                ast.copy_location(x, call)
        return out

    def process(fn, cls, qual):
        changed = True
        rounds = 0
        while changed and rounds < 20:
            changed = False
            rounds += 1
            caller_names = {n.id for n in ast.walk(fn) if isinstance(n, ast.Name)} | params_of(fn)
            for node in ast.walk(fn):
                for f in ("body", "orelse", "finalbody"):
                    blk = getattr(node, f, None)
                    if not isinstance(blk, list):
                        continue
                    for k, st in enumerate(blk):
                        call = kind = target = None
                        if isinstance(st, ast.Expr) and isinstance(st.value, ast.Call):
                            call, kind = st.value, "expr"
                        elif isinstance(st, ast.Assign) and len(st.targets) == 1 and isinstance(st.value, ast.Call):
                            call, kind, target = st.value, "assign", st.targets[0]
                        elif isinstance(st, ast.Return) and isinstance(st.value, ast.Call):
                            call, kind = st.value, "return"
                        elif isinstance(st, ast.AugAssign) and isinstance(st.value, ast.Call):
                            call, kind, target = st.value, "augassign", (st.target, st.op)
                        if call is None:
                            continue
                        h, bound = resolve(call, cls)
                        if h is None or h is fn:
                            continue
                        new = expand(call, h, bound, caller_names, kind, target)
                        if new is None:
                            continue
                        blk[k:k + 1] = new
                        done.append((qual, h.name))
                        changed = True
                        break
                    if changed:
                        break
                if changed:
                    break

    # expression helpers (`def h(a, b): return <expr>`): a call anywhere inside an expression is the expression itself
    def is_expr_helper(h):
        body = [st for st in h.body if not (isinstance(st, ast.Expr) and isinstance(st.value, ast.Constant))]
        return len(body) == 1 and isinstance(body[0], ast.Return) and body[0].value is not None

    class _ExprInline(ast.NodeTransformer):
        def __init__(self, cls, qual):
            self.cls, self.qual, self.n = cls, qual, 0

        def visit_Call(self, node):
            self.generic_visit(node)
            h, bound = resolve(node, self.cls)
            if h is None or not is_expr_helper(h):
                return node
            params = [a.arg for a in h.args.args]
            rest = params[1:] if bound else params
            if len(node.args) > len(rest) or any(isinstance(a, ast.Starred) for a in node.args) or any(k.arg is None for k in node.keywords):
                return node
            actual = dict(zip(rest, node.args))
            for k in node.keywords:
                if k.arg not in rest or k.arg in actual:
                    return node
                actual[k.arg] = k.value
            defaults = dict(zip(params[len(params) - len(h.args.defaults):], h.args.defaults))
            for p_ in rest:
                if p_ not in actual:
                    if p_ not in defaults:
                        return node
                    actual[p_] = defaults[p_]
            if bound:
                actual[params[0]] = ast.Name(id="self", ctx=ast.Load())
            body = [st for st in h.body if not (isinstance(st, ast.Expr) and isinstance(st.value, ast.Constant))]
            expr = ast.parse(ast.unparse(body[0].value), mode="eval").body
            uses = {}
            for x in ast.walk(expr):
                if isinstance(x, ast.Name) and x.id in actual:
                    uses[x.id] = uses.get(x.id, 0) + 1
            for p_, a in actual.items():
                simple = isinstance(a, (ast.Name, ast.Constant, ast.Attribute, ast.Subscript)) and _pure(a)
                if uses.get(p_, 0) > 1 and not simple and not _pure(a):
                    return node
                if uses.get(p_, 0) == 0 and not _pure(a):
                    return node
            # locals of the expression (comprehension variables) must not capture names of the arguments
            bound_in_expr = {x.id for x in ast.walk(expr) if isinstance(x, ast.Name) and isinstance(x.ctx, ast.Store)}
            arg_names = {x.id for a in actual.values() for x in ast.walk(a) if isinstance(x, ast.Name)}
            if bound_in_expr & arg_names:
                return node

            class Sub(ast.NodeTransformer):
                def visit_Name(self_, x):
                    if x.id in actual and isinstance(x.ctx, ast.Load):
                        return ast.parse(ast.unparse(actual[x.id]), mode="eval").body
                    return x
            new = Sub().visit(expr)
            for x in ast.walk(new):
                ast.copy_location(x, node)
            self.n += 1
            done.append((self.qual, h.name))
            return new

    def process_expr(fn, cls, qual):
        for _ in range(5):
            t = _ExprInline(cls, qual)
            for k, st in enumerate(fn.body):
                fn.body[k] = t.visit(st)
            if not t.n:
                break

    # helpers may call helpers: expand inside helpers first (bounded), then in the known functions
    for (cls, name), h in list(helpers.items()):
        process_expr(h, cls, (cls + "." if cls else "") + name)
        process(h, cls, (cls + "." if cls else "") + name)
    for q, fn, cls in known:
        process_expr(fn, cls, q)
        process(fn, cls, q)
    # local functions the reference tree does not have ("extract local function"): their calls inside the enclosing function
    # are written back the same way; the closure reads the enclosing function's variables, which is what the inlined body does
    ref_nested = load_table().get("__nested__", {}).get(rel, {})
    for q, fn, cls in known:
        new_local = {}
        for st in fn.body:
            if isinstance(st, ast.FunctionDef) and st.name not in ref_nested.get(q, []) and _simple_helper(st) \
                    and not any(isinstance(n, (ast.Nonlocal, ast.Global)) for n in ast.walk(st)):
                new_local[st.name] = st
        if not new_local:
            continue
        saved = {}
        for nm, h in new_local.items():
            if (None, nm) in helpers:
                saved[nm] = helpers[(None, nm)]
            helpers[(None, nm)] = h
        before = len(done)
        process_expr(fn, cls, q)
        process(fn, cls, q)
        for nm in new_local:
            helpers.pop((None, nm), None)
            if nm in saved:
                helpers[(None, nm)] = saved[nm]
        if len(done) > before:
            # drop the local definitions that are no longer referenced
            for nm, h in new_local.items():
                refs = [n for n in ast.walk(fn) if isinstance(n, ast.Name) and n.id == nm and isinstance(n.ctx, ast.Load)]
                if not refs:
                    fn.body[:] = [x for x in fn.body if x is not h]
    if done:
        _SpliceStar().visit(tree)
    return done


# ---------------------------------------------------------------------------------------------------------
# `match` statements whose patterns are literals, constants, wildcards, alternatives of those or fixed-length sequences
# of those are if/elif chains (PEP 634: value patterns compare with ==, True/False/None by identity, the first matching
# case wins, no case matching does nothing).  They are written as such before any rule runs, so that every rule and
# engine sees the branch structure it already understands.  A statement with any other pattern (class patterns, mapping
# patterns, star patterns, captures used by a guard) is left untouched and stays an unmodelled construct.
def _match_test(pat, subj):
    """test expression for `subj` matching `pat`, the list of (name, expr) captures, or None if the pattern is not simple"""
    if isinstance(pat, ast.MatchValue):
        return ast.Compare(left=subj, ops=[ast.Eq()], comparators=[pat.value]), []
    if isinstance(pat, ast.MatchSingleton):
        return ast.Compare(left=subj, ops=[ast.Is()], comparators=[ast.Constant(value=pat.value)]), []
    if isinstance(pat, ast.MatchAs) and pat.pattern is None:
        return True, ([] if pat.name is None else [(pat.name, subj)])
    if isinstance(pat, ast.MatchOr):
        tests = []
        for q in pat.patterns:
            r = _match_test(q, subj)
            if r is None or r[1]:
                return None
            if r[0] is True:
                return True, []
            tests.append(r[0])
        return ast.BoolOp(op=ast.Or(), values=tests), []
    if isinstance(pat, ast.MatchSequence) and isinstance(subj, ast.Tuple) and len(subj.elts) == len(pat.patterns) \
            and not any(isinstance(q, ast.MatchStar) for q in pat.patterns):
        tests, caps = [], []
        for q, e in zip(pat.patterns, subj.elts):
            r = _match_test(q, e)
            if r is None:
                return None
            if r[0] is not True:
                tests.append(r[0])
            caps += r[1]
        if not tests:
            return True, caps
        return (tests[0] if len(tests) == 1 else ast.BoolOp(op=ast.And(), values=tests)), caps
    return None


_SUBJECT_CALLS = {"bool", "str", "hasattr", "isinstance", "getattr", "type", "callable"}


def _pure_subject(e):
    """the subject may be written once per test: it reads but does not change anything"""
    for n in ast.walk(e):
        if isinstance(n, ast.Call) and isinstance(n.func, ast.Name) and n.func.id in _SUBJECT_CALLS and not n.keywords:
            continue
        if isinstance(n, ast.Call):
            f = n.func
            root = f
            while isinstance(root, ast.Attribute):
                root = root.value
            pure_method = isinstance(f, ast.Attribute) and f.attr in PURE_METHODS
            if not (isinstance(root, ast.Name) and root.id in PURE_CALL_ROOTS) and not pure_method:
                return False
        elif isinstance(n, (ast.Lambda, ast.ListComp, ast.GeneratorExp, ast.DictComp, ast.SetComp, ast.Yield, ast.Await, ast.NamedExpr,
                            ast.Starred)):
            return False
    return True


class _LowerMatch(ast.NodeTransformer):
    def __init__(self):
        self.count = 0

    def visit_Match(self, node):
        self.generic_visit(node)
        subj = node.subject
        if not _pure_subject(subj):
            return node
        arms = []
        for case in node.cases:
            r = _match_test(case.pattern, subj)
            if r is None:
                return node
            test, caps = r
            if case.guard is not None:
                if caps:
                    return node
                test = case.guard if test is True else ast.BoolOp(op=ast.And(), values=[test, case.guard])
            body = [ast.Assign(targets=[ast.Name(id=n, ctx=ast.Store())], value=copy.deepcopy(e), lineno=case.body[0].lineno)
                    for n, e in caps] + case.body
            arms.append((test, body))
        chain = None
        for test, body in reversed(arms):
            if test is True:
                chain = body                      # an irrefutable case: everything after it is unreachable
            else:
                chain = [ast.If(test=copy.deepcopy(test), body=body, orelse=chain or [])]
        if not chain or not any(test is True for test, _ in arms):
            # without an irrefutable last case "no case matched" is a path of its own whose feasibility depends on the type of
            # the subject (e.g. two booleans matched exhaustively): not decidable here, the statement stays unmodelled
            return node
        self.count += 1
        out = chain if isinstance(chain, list) else [chain]
        for st in out:
            ast.copy_location(st, node)
        return out


def lower_simple_match(tree):
    t = _LowerMatch()
    t.visit(tree)
    if t.count:
        ast.fix_missing_locations(tree)
    return t.count
