import sys, os; sys.path.insert(0, os.getcwd())
"""
C03 reproduction: LayoutSwapper treats two layouts that belong to two different
groups distributed over the same communicators as "secretly just a transpose"
without comparing which dimension each communicator distributes
(LayoutSwapper._compatibleLayout, branch `nDim1 == nDim2`).  The constructor
accepts the configuration on every rank, then a transpose between two layouts
of the swapper raises or silently delivers the wrong blocks.

Run with cwd = a checkout of pygyro:   /venv/bin/python repro.py
exit 1 : a configuration accepted by the constructor violates the property
exit 0 : every accepted configuration moves the data correctly
         (configurations that the constructor refuses are reported, not counted)

A small thread based stand-in for mpi4py is installed (one thread per rank).
"""
import threading
import types
import numpy as np

TIMEOUT = 20


class _Datatype:
    def __init__(self, size):
        self.size = size


class _Shared:
    def __init__(self, size, registry):
        self.size = size
        self.barrier = threading.Barrier(size)
        self.slots = [None]*size
        self.lock = threading.Lock()
        self.children = {}
        self.registry = registry
        registry.append(self)


def _raw(spec):
    arr = spec[0] if isinstance(spec, (tuple, list)) else spec
    assert arr.flags['C_CONTIGUOUS']
    return arr.reshape(-1).view(np.uint8)


class Comm:
    def __init__(self, shared, rank):
        self._sh = shared
        self._rank = rank
        self._ncalls = 0

    def Get_size(self):
        return self._sh.size

    def Get_rank(self):
        return self._rank

    def _child(self, key, size):
        with self._sh.lock:
            if key not in self._sh.children:
                self._sh.children[key] = _Shared(size, self._sh.registry)
            return self._sh.children[key]

    def Create_cart(self, dims, periods=None, reorder=False):
        dims = [int(d) for d in dims]
        if int(np.prod(dims)) != self._sh.size:
            raise RuntimeError("Create_cart: grid %s on %d processes" % (dims, self._sh.size))
        self._ncalls += 1
        return Cartcomm(self._child(('cart', self._ncalls), self._sh.size), self._rank, dims)

    def Allgather(self, sendbuf, recvbuf):
        send, recv = _raw(sendbuf), _raw(recvbuf)
        n, size = send.size, self._sh.size
        self._sh.slots[self._rank] = send
        self._sh.barrier.wait(TIMEOUT)
        if any(s.size != n for s in self._sh.slots) or recv.size < n*size:
            self._sh.barrier.abort()
            raise RuntimeError("Allgather: inconsistent sizes")
        for r in range(size):
            recv[r*n:(r+1)*n] = self._sh.slots[r]
        self._sh.barrier.wait(TIMEOUT)

    def Alltoall(self, sendbuf, recvbuf):
        send, recv = _raw(sendbuf), _raw(recvbuf)
        size = self._sh.size
        n = send.size//size
        self._sh.slots[self._rank] = send
        self._sh.barrier.wait(TIMEOUT)
        if any(s.size != send.size for s in self._sh.slots) or recv.size < n*size:
            self._sh.barrier.abort()
            raise RuntimeError("Alltoall: inconsistent sizes")
        for r in range(size):
            recv[r*n:(r+1)*n] = self._sh.slots[r][self._rank*n:(self._rank+1)*n]
        self._sh.barrier.wait(TIMEOUT)


class Cartcomm(Comm):
    def __init__(self, shared, rank, dims):
        Comm.__init__(self, shared, rank)
        self._dims = list(dims)

    def Get_coords(self, rank):
        return [int(c) for c in np.unravel_index(rank, self._dims)] if self._dims else []

    def Sub(self, remain_dims):
        keep = [bool(b) for b in remain_dims]
        coords = self.Get_coords(self._rank)
        fixed = tuple(c for c, k in zip(coords, keep) if not k)
        kdims = [d for d, k in zip(self._dims, keep) if k]
        kcoords = [c for c, k in zip(coords, keep) if k]
        size = int(np.prod(kdims)) if kdims else 1
        rank = int(np.ravel_multi_index(kcoords, kdims)) if kdims else 0
        self._ncalls += 1
        return Cartcomm(self._child(('sub', self._ncalls, fixed), size), rank, kdims)


_pkg = types.ModuleType('mpi4py')
_mod = types.ModuleType('mpi4py.MPI')
_mod.Comm = Comm
_mod.Cartcomm = Cartcomm
_mod.Intracomm = Comm
_mod.DOUBLE = _Datatype(8)
_pkg.MPI = _mod
sys.modules['mpi4py'] = _pkg
sys.modules['mpi4py.MPI'] = _mod

import pygyro  # noqa: E402
assert os.path.realpath(pygyro.__file__).startswith(os.path.realpath(os.getcwd())+os.sep), \
    "pygyro was imported from %s, not from the current directory" % pygyro.__file__
from pygyro.model import layout as L  # noqa: E402
from pygyro.model.layout import LayoutSwapper  # noqa: E402
# the warnings machinery is not thread safe: silence "requires N steps"
L.warnings = types.SimpleNamespace(warn=lambda *a, **k: None)


def run_op(nranks, npts, layouts, nprocs, op):
    """ Build the swapper on every simulated rank; put the known global field
        in layout `src`; move src -> dst (with or without a buffer) and back.
        Returns ('rejected', msg) if the constructor raised on some rank,
        otherwise ('accepted', [problems]) """
    src, dst, use_buf = op
    eta_grids = [np.linspace(0, 1, n) for n in npts]
    G = np.arange(1., 1.+np.prod(npts)).reshape(npts)
    registry = []
    world = _Shared(nranks, registry)
    built = threading.Barrier(nranks)
    ctor_err = [None]*nranks
    err = [None]*nranks
    out = [None]*nranks

    def abort_all():
        for s in list(registry):
            s.barrier.abort()

    def block(lay):
        sl = tuple(slice(int(s), int(e)) for s, e in zip(lay.starts, lay.ends))
        return np.transpose(G, lay.dims_order)[sl]

    def body(r):
        try:
            sw = LayoutSwapper(Comm(world, r), [dict(g) for g in layouts],
                               [n if isinstance(n, int) else list(n) for n in nprocs], eta_grids, src)
        except BaseException as e:  # noqa
            ctor_err[r] = e
        try:
            built.wait(60)
        except threading.BrokenBarrierError:
            return
        if any(e is not None for e in ctor_err):
            return
        try:
            ls, ld = sw.getLayout(src), sw.getLayout(dst)
            a, b, c = (np.full(sw.bufferSize, np.nan) for _ in range(3))
            a[:ls.size].reshape(ls.shape)[:] = block(ls)
            if use_buf:
                sw.transpose(a, b, src, dst, c)
                intact = np.array_equal(a[:ls.size].reshape(ls.shape), block(ls))
            else:
                sw.transpose(a, b, src, dst)
                intact = True
            there = b[:ld.size].reshape(ld.shape).copy()
            # and back again: must reproduce the original distributed block
            a[:] = np.nan
            sw.transpose(b, a, dst, src)
            back = a[:ls.size].reshape(ls.shape).copy()
            out[r] = (np.array_equal(there, block(ld)), intact, np.array_equal(back, block(ls)),
                      (tuple(ld.starts), tuple(ld.ends)), there)
        except threading.BrokenBarrierError as e:
            err[r] = ('hang', e)
        except BaseException as e:  # noqa
            err[r] = ('raise', e)
            abort_all()

    threads = [threading.Thread(target=body, args=(r,)) for r in range(nranks)]
    for t in threads:
        t.start()
    for t in threads:
        t.join()

    if any(e is not None for e in ctor_err):
        e = [e for e in ctor_err if e is not None][0]
        return 'rejected', '%s: %s' % (type(e).__name__, e)
    problems = []
    raised = [(r, e[1]) for r, e in enumerate(err) if e is not None and e[0] == 'raise']
    hung = [r for r, e in enumerate(err) if e is not None and e[0] == 'hang']
    if raised:
        problems.append('raises on rank(s) %s: %s: %s' % ([r for r, _ in raised], type(raised[0][1]).__name__, raised[0][1]))
    elif hung:
        problems.append('dead-lock on rank(s) %s' % hung)
    else:
        bad = [r for r in range(nranks) if not out[r][0]]
        if bad:
            problems.append('wrong data delivered (no exception) on rank(s) %s' % bad)
        if not all(o[1] for o in out):
            problems.append('source modified although a buffer was given')
        if not bad and not all(o[2] for o in out):
            problems.append('moving back does not reproduce the original blocks')
        seen = {}
        for o in out:
            if o[3] in seen and not np.array_equal(seen[o[3]], o[4]):
                problems.append('replicas differ')
                break
            seen.setdefault(o[3], o[4])
    return 'accepted', problems


def case(title, grid, npts, layouts, nprocs):
    names = [n for g in layouts for n in g]
    nranks = int(np.prod(grid))
    print("%s\n  shape %s, process grid %s, groups %s, nprocs %s" % (title, npts, grid, layouts, nprocs))
    nbad = 0
    nops = 0
    for src in names:
        for dst in names:
            for use_buf in (False, True):
                status, res = run_op(nranks, npts, layouts, nprocs, (src, dst, use_buf))
                if status == 'rejected':
                    print("  constructor refuses this configuration (%s): not counted" % res)
                    return 0
                nops += 1
                if res:
                    nbad += 1
                    if nbad <= 4:
                        print("  VIOLATION %s -> %s (%s): %s" % (src, dst, 'buffer' if use_buf else 'no buffer', '; '.join(res)))
    print("  constructor accepted on every rank; %d of %d moves violate the property" % (nbad, nops))
    return nbad


def main():
    bad = 0
    # 1. The layout groups used by pygyro itself for phi, on a process grid with
    #    an extent of 1, the 1-D group listed before the 2-D group.
    bad += case("case 1: extent of 1, 1-D group listed first",
                [4, 1], [8, 12, 12],
                [{'v_parallel_1d': [0, 2, 1]},
                 {'v_parallel_2d': [0, 2, 1], 'mode_solve': [1, 2, 0]},
                 {'poloidal': [2, 1, 0]}],
                [4, [4, 1], 1])
    # 2. Two 2-D groups on a square grid: the block shapes coincide, so the wrong
    #    local copy is delivered silently (a -> c).
    bad += case("case 2: two 2-D groups, equal extents",
                [2, 2], [4, 4, 4],
                [{'a': [0, 1, 2], 'a2': [2, 1, 0], 'a3': [2, 0, 1]},
                 {'c': [1, 0, 2], 'c3': [2, 0, 1]}],
                [[2, 2], [2, 2]])
    # 3. Equal extents: two 1-D groups end up on the same communicator although
    #    they distribute different dimensions (fs1: eta1, pol1: eta4).
    bad += case("case 3: equal extents, two 1-D groups on one communicator",
                [2, 2], [6, 4, 6, 5],
                [{'fs1': [0, 3, 1, 2]},
                 {'fs2': [0, 3, 1, 2], 'vp': [0, 2, 1, 3], 'pol': [3, 2, 1, 0]},
                 {'pol1': [3, 2, 1, 0], 'pol1b': [3, 1, 2, 0]}],
                [2, [2, 2], [2]])
    # control: the usual ordering on the same grids works
    bad += case("control: 2-D group first",
                [4, 1], [8, 12, 12],
                [{'v_parallel_2d': [0, 2, 1], 'mode_solve': [1, 2, 0]},
                 {'v_parallel_1d': [0, 2, 1]},
                 {'poloidal': [2, 1, 0]}],
                [[4, 1], 4, 1])
    print("C03 VIOLATED on a configuration accepted by the constructor" if bad else "C03 holds on every accepted configuration")
    return 1 if bad else 0


if __name__ == '__main__':
    sys.exit(main())
