#!/bin/bash
# verify_any.sh <variant-dir> <label>: scratch worktree of /repo HEAD; demo on clean, apply patch, demo + suite; prints one JSON line
out=$(readlink -f $1); label=$2
wt=/tmp/verx/$(echo $label | tr '/' '_')
rm -rf $wt; mkdir -p /tmp/verx
git -C /repo worktree add -q --detach $wt HEAD 2>/dev/null || { echo "{\"id\":\"$label\",\"error\":\"worktree\"}"; exit 0; }
cd $wt
PYTHONPATH=$wt timeout 1500 /venv/bin/python $out/demo.py > $wt.clean.log 2>&1; clean=$?
if git apply --whitespace=nowarn $out/patch.diff 2>/dev/null; then applied=1; else applied=0; fi
mutrc=-1; tests="na"
if [ $applied != 0 ]; then
  PYTHONPATH=$wt timeout 1500 /venv/bin/python $out/demo.py > $wt.mut.log 2>&1; mutrc=$?
  tests=$(timeout 1500 /venv/bin/python -m pytest -q -p no:cacheprovider --timeout=900 --continue-on-collection-errors 2>&1 | tail -1 | tr -d '\n' | cut -c1-80)
fi
cd /; git -C /repo worktree remove --force $wt 2>/dev/null
echo "{\"id\":\"$label\",\"applied\":$applied,\"demo_clean_rc\":$clean,\"demo_mut_rc\":$mutrc,\"tests\":\"$tests\"}"
