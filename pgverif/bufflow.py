"""Engine D: buffer effects and field-location flow for the layout transposes.

An abstract interpreter over *buffer names*: every array value is a view of a
set of root buffers (the array parameters of the entry point).  One abstract
token - "the field" - sits in a root buffer; a write whose right-hand side
reads the buffer holding the token moves the token.  No data, no indices: only
which buffer is read/written, which layout name the data is in, and which
handler is current.  Small integer loop counts (route lengths) are enumerated
concretely and shown 2-periodic.  See DESIGN.md 4.3.
"""
from __future__ import annotations

import ast
import copy
from dataclasses import dataclass, field

from .core import src, AnalysisError, parent
from .resolve import Program


class Roots(frozenset):
    """a view of (a subset of) these root buffers; .extent = symbolic element count of the view if known"""
    extent = None

    def __repr__(self):
        return "View(" + ",".join(sorted(self)) + (f"[:{self.extent}]" if self.extent is not None else "") + ")"


def with_extent(r: "Roots", ext):
    v = Roots(r)
    v.extent = ext
    return v


@dataclass(frozen=True)
class Fresh:
    """a new array computed from these roots (copy semantics)"""
    derived: frozenset

    def __repr__(self):
        return "Fresh(" + ",".join(sorted(self.derived)) + ")"


class _Opaque:
    def __repr__(self):
        return "?"


OPAQUE = _Opaque()


class _NotNone:
    def __repr__(self):
        return "notNone"


NOTNONE = _NotNone()


@dataclass(frozen=True)
class Sym:
    """symbolic scalar/name: ('name', 'source_name') / ('step', 3) / ('layout', x) / ('mgr', x) ..."""
    kind: str
    arg: object

    def __repr__(self):
        return f"{self.kind}:{self.arg}"


def _subst_sym(v, old, new, _depth=0):
    """replace the symbol `old` by `new` inside a value (symbols, tuples, lists, sets, dicts, dataclasses)"""
    import dataclasses
    if _depth > 8:
        return v
    if isinstance(v, Sym):
        if v == old:
            return new
        a = _subst_sym(v.arg, old, new, _depth + 1)
        return v if a is v.arg else Sym(v.kind, a)
    if isinstance(v, tuple) and not dataclasses.is_dataclass(v):
        out = tuple(_subst_sym(x, old, new, _depth + 1) for x in v)
        return v if all(a is b for a, b in zip(out, v)) else (type(v)(*out) if hasattr(v, "_fields") else out)
    if isinstance(v, list):
        out = [_subst_sym(x, old, new, _depth + 1) for x in v]
        return v if all(a is b for a, b in zip(out, v)) else out
    if isinstance(v, frozenset):
        out = [_subst_sym(x, old, new, _depth + 1) for x in v]
        if all(a is b or a == b for a, b in zip(out, v)):
            return v
        try:
            return type(v)(out)
        except Exception:
            return v
    if isinstance(v, dict):
        out = {k: _subst_sym(x, old, new, _depth + 1) for k, x in v.items()}
        return v if all(out[k] is v[k] for k in v) else out
    if dataclasses.is_dataclass(v) and not isinstance(v, type):
        ch = {}
        for f in dataclasses.fields(v):
            cur = getattr(v, f.name)
            nv = _subst_sym(cur, old, new, _depth + 1)
            if nv is not cur and nv != cur:
                ch[f.name] = nv
        if ch:
            try:
                return dataclasses.replace(v, **ch)
            except Exception:
                return v
    return v


VIEW_METHODS = {"reshape", "transpose", "view", "swapaxes", "squeeze", "ravel"}
VIEW_ATTRS = {"T", "real", "imag", "flat", "base"}
COPY_METHODS = {"flatten", "copy", "astype", "conj", "conjugate"}
NP_VIEW_FUNCS = {"split", "transpose", "reshape", "real", "imag", "atleast_1d", "atleast_2d", "swapaxes",
                 "moveaxis", "squeeze", "array_split", "asarray", "ravel"}
NP_COPY_FUNCS = {"array", "copy", "concatenate", "stack", "ascontiguousarray", "abs", "sum", "conj"}


@dataclass
class Tok:
    loc: str | None            # root buffer holding the field
    prev: str | None = None    # where the last move came from
    layout: object = None      # symbolic layout name the data is in
    writes: frozenset = frozenset()
    trace: tuple = ()
    problems: tuple = ()       # (kind, msg, node)
    assumed: tuple = ()        # path description
    attrs: tuple = ()          # tracked self attributes ((name, value),...)
    moved: bool = False

    def with_(self, **kw):
        d = dict(loc=self.loc, prev=self.prev, layout=self.layout, writes=self.writes, trace=self.trace,
                 problems=self.problems, assumed=self.assumed, attrs=self.attrs, moved=self.moved)
        d.update(kw)
        return Tok(**d)


class State:
    def __init__(self, env, tok):
        self.env = env
        self.tok = tok
        self.ret = False
        self.retval = None

    def fork(self):
        s = State(dict(self.env), self.tok)
        return s


class Interp:
    """Abstract interpreter.  `step_funcs`: names of single-step transpose
    functions whose (layout_source, layout_dest) parameters advance the layout
    token; `contracts`: functions replaced by their contract when re-entered."""

    def __init__(self, prog: Program, rel: str, cls: str, chk, scenario: dict,
                 assume_false=(), contract_funcs=(), max_depth=8):
        self.prog = prog
        self.rel = rel
        self.cls = cls
        self.chk = chk
        self.scenario = scenario        # e.g. {"nSteps": 4}
        self.assume_false = set(assume_false)
        self.contract_funcs = set(contract_funcs)
        self.stack: list[str] = []
        self.max_depth = max_depth
        self.executed: set[str] = set()

    # ------------------------------------------------------------ helpers
    def problem(self, st: State, kind, msg, node, fq):
        st.tok = st.tok.with_(problems=st.tok.problems + ((kind, msg, getattr(node, "lineno", None), src(node)[:160], fq),))

    def roots_of(self, v):
        if isinstance(v, Roots):
            return set(v)
        if isinstance(v, Fresh):
            return set(v.derived)
        if isinstance(v, (list, tuple)):
            out = set()
            for x in v:
                out |= self.roots_of(x)
            return out
        return set()

    def check_extent(self, st: State, view, node, fq, side):
        ext = getattr(view, "extent", None)
        if ext is None or not isinstance(view, Roots):
            return

        def unwrap(x):
            while isinstance(x, Sym) and x.kind == "layout":
                x = x.arg
            return x
        lay = unwrap(ext.arg[0])
        ok = {repr(unwrap(st.tok.layout))}
        if st.env.get("<lay_dst>") is not None:
            ok.add(repr(unwrap(st.env["<lay_dst>"])))
        if st.env.get("<lay_src>") is not None:
            ok.add(repr(unwrap(st.env["<lay_src>"])))
        if repr(lay) not in ok:
            self.problem(st, "extent", f"{side} view is cut to the size of layout `{lay}` but the data is in layout "
                         f"{sorted(ok)}: elements beyond that size are not copied", node, fq)

    def event(self, st: State, reads: set, writes: set, node, fq, what=""):
        """apply a read/write event to the field token"""
        t = st.tok
        if not writes:
            return
        tr = t.trace + ((fq, what or src(node)[:80], tuple(sorted(reads)), tuple(sorted(writes))),)
        neww = t.writes | frozenset(writes)
        for w in sorted(writes):
            if t.loc in reads and w != t.loc:
                t = t.with_(prev=t.loc, loc=w, moved=True)
            elif w == t.loc:
                if t.loc in reads:
                    pass                                   # in-place update of the field
                elif t.prev is not None and t.prev in reads:
                    pass                                   # continuing the same move (block-wise copy)
                elif not reads:
                    st.tok = t
                    self.problem(st, "clobber", f"buffer `{w}` holding the field is overwritten without being read", node, fq)
                    t = st.tok
                else:
                    st.tok = t
                    self.problem(st, "clobber", f"buffer `{w}` holding the field is overwritten from {sorted(reads)}", node, fq)
                    t = st.tok
            else:
                if reads and t.loc not in reads and not (t.prev in reads and w == t.loc):
                    st.tok = t
                    self.problem(st, "stale-read", f"`{w}` is filled from {sorted(reads)} but the field is in `{t.loc}`", node, fq)
                    t = st.tok
        st.tok = t.with_(writes=neww, trace=tr)

    # ------------------------------------------------------------ expressions
    def ev(self, e, st: State, fq):
        env = st.env
        if e is None:
            return None
        if isinstance(e, ast.Constant):
            return e.value if isinstance(e.value, (int, bool, str)) or e.value is None else OPAQUE
        if isinstance(e, ast.Name):
            if e.id in env:
                return env[e.id]
            return OPAQUE
        if isinstance(e, ast.Attribute):
            s = src(e)
            if s in env:
                return env[s]
            base = self.ev(e.value, st, fq)
            if isinstance(base, (Roots, Fresh)):
                if e.attr in VIEW_ATTRS:
                    return base
                return OPAQUE
            if isinstance(base, Sym) and base.kind == "layout":
                if e.attr == "name":
                    return base.arg
                return Sym("lattr", (base.arg, e.attr))
            return OPAQUE
        if isinstance(e, ast.Subscript):
            base = self.ev(e.value, st, fq)
            if isinstance(base, Roots):
                if isinstance(e.slice, ast.Slice) and e.slice.lower is None and e.slice.upper is not None:
                    up = self.ev(e.slice.upper, st, fq)
                    if isinstance(up, Sym) and up.kind == "lattr" and up.arg[1] == "size":
                        return with_extent(base, up)
                return base
            if isinstance(base, Fresh):
                return base
            if isinstance(base, list):
                idx = self.ev(e.slice, st, fq)
                if isinstance(e.slice, ast.Slice):
                    lo = self.ev(e.slice.lower, st, fq) if e.slice.lower else None
                    hi = self.ev(e.slice.upper, st, fq) if e.slice.upper else None
                    if (lo is None or isinstance(lo, int)) and (hi is None or isinstance(hi, int)) and e.slice.step is None:
                        return base[lo:hi]
                    return OPAQUE
                if isinstance(idx, int) and not isinstance(idx, bool):
                    try:
                        return base[idx]
                    except IndexError:
                        return OPAQUE
                return OPAQUE
            s = src(e.value)
            # self._layouts[name] / self._route_map[a][b] / self._managers[self._handlers[name]]
            if s == "self._layouts":
                return Sym("layout", self.ev(e.slice, st, fq))
            if s == "self._handlers":
                return Sym("handler_idx", self.ev(e.slice, st, fq))
            if s == "self._managers":
                k = self.ev(e.slice, st, fq)
                if isinstance(k, Sym) and k.kind == "handler_idx":
                    return Sym("mgr", k.arg)
                return Sym("mgr", k)
            if isinstance(e.value, ast.Subscript) and src(e.value.value) == "self._route_map":
                n = self.scenario.get("nSteps")
                if n is None:
                    return OPAQUE
                return [Sym("step", i) for i in range(n)]
            if isinstance(e.slice, ast.Slice):
                return OPAQUE
            return OPAQUE
        if isinstance(e, ast.Call):
            return self.call_value(e, st, fq)
        if isinstance(e, ast.Tuple):
            return tuple(self.ev(x, st, fq) for x in e.elts)
        if isinstance(e, ast.List):
            return [self.ev(x, st, fq) for x in e.elts]
        if isinstance(e, ast.BinOp):
            a, b = self.ev(e.left, st, fq), self.ev(e.right, st, fq)
            if isinstance(a, int) and isinstance(b, int) and not isinstance(a, bool) and not isinstance(b, bool):
                try:
                    if isinstance(e.op, ast.Add):
                        return a + b
                    if isinstance(e.op, ast.Sub):
                        return a - b
                    if isinstance(e.op, ast.Mult):
                        return a * b
                    if isinstance(e.op, ast.Mod):
                        return a % b
                    if isinstance(e.op, ast.FloorDiv):
                        return a // b
                except ZeroDivisionError:
                    return OPAQUE
            r = self.roots_of(a) | self.roots_of(b)
            if r:
                return Fresh(frozenset(r))
            return OPAQUE
        if isinstance(e, ast.UnaryOp):
            v = self.ev(e.operand, st, fq)
            if isinstance(e.op, ast.Not):
                if isinstance(v, bool):
                    return not v
                return OPAQUE
            if isinstance(v, int) and isinstance(e.op, ast.USub):
                return -v
            r = self.roots_of(v)
            return Fresh(frozenset(r)) if r else OPAQUE
        if isinstance(e, ast.Compare) and len(e.ops) == 1:
            a, b = self.ev(e.left, st, fq), self.ev(e.comparators[0], st, fq)
            op = e.ops[0]
            if isinstance(op, (ast.Is, ast.IsNot)):
                res = None
                if b is None:
                    if a is None:
                        res = True
                    elif isinstance(a, (Roots, Fresh, _NotNone, Sym, int, str, list, tuple)):
                        res = False
                if res is None:
                    return OPAQUE
                return res if isinstance(op, ast.Is) else (not res)
            if isinstance(a, int) and isinstance(b, int) and not isinstance(a, bool):
                return {ast.Eq: a == b, ast.NotEq: a != b, ast.Lt: a < b, ast.LtE: a <= b,
                        ast.Gt: a > b, ast.GtE: a >= b}.get(type(op), OPAQUE)
            if isinstance(a, Sym) and isinstance(b, Sym) and isinstance(op, (ast.Eq, ast.NotEq)) and a == b:
                return isinstance(op, ast.Eq)
            return OPAQUE
        if isinstance(e, ast.BoolOp):
            vals = [self.ev(v, st, fq) for v in e.values]
            if isinstance(e.op, ast.And):
                if any(v is False for v in vals):
                    return False
                if all(v is True for v in vals):
                    return True
            else:
                if any(v is True for v in vals):
                    return True
                if all(v is False for v in vals):
                    return False
            return OPAQUE
        if isinstance(e, ast.ListComp):
            return OPAQUE
        if isinstance(e, ast.Starred):
            return self.ev(e.value, st, fq)
        return OPAQUE

    def call_value(self, e: ast.Call, st: State, fq):
        f = e.func
        name = f.id if isinstance(f, ast.Name) else f.attr if isinstance(f, ast.Attribute) else ""
        recv = f.value if isinstance(f, ast.Attribute) else None
        args = [self.ev(a, st, fq) for a in e.args]
        if recv is not None and isinstance(recv, ast.Name) and recv.id in ("np", "numpy"):
            if name in NP_VIEW_FUNCS and args:
                r = self.roots_of(args[0])
                if isinstance(args[0], Roots):
                    if name == "split" and len(args) > 1 and isinstance(args[1], list) and len(args[1]) == 1 \
                            and isinstance(args[1][0], Sym) and args[1][0].kind == "lattr" and args[1][0].arg[1] == "size":
                        return [with_extent(args[0], args[1][0]), Roots(args[0])]
                    if name in ("split", "array_split"):
                        return [Roots(args[0]), Roots(args[0])]
                    return args[0]
                return Fresh(frozenset(r)) if r else OPAQUE
            r = set()
            for a in args:
                r |= self.roots_of(a)
            return Fresh(frozenset(r)) if r else OPAQUE
        if name == "len" and args:
            if isinstance(args[0], (list, tuple)):
                return len(args[0])
            return OPAQUE
        if name == "range":
            if all(isinstance(a, int) for a in args) and args:
                return list(range(*args))
            return OPAQUE
        if name in ("list", "tuple") and args and isinstance(args[0], (list, tuple)):
            return list(args[0])
        if recv is not None:
            base = self.ev(recv, st, fq)
            if isinstance(base, Roots):
                if name in VIEW_METHODS:
                    return base
                if name in COPY_METHODS:
                    return Fresh(frozenset(base))
                return OPAQUE
            if isinstance(base, Fresh):
                return base if name in VIEW_METHODS | COPY_METHODS else OPAQUE
            if name == "getLayout" and args:
                return Sym("layout", args[0])
        # method call with effects returning a value is handled in exec_call (statements only)
        return OPAQUE

    # ------------------------------------------------------------ statements
    def run(self, fn: ast.FunctionDef, st: State, fq: str) -> list[State]:
        self.executed.add(fq)
        outs = self.block(fn.body, [st], fq)
        for s in outs:
            s.ret = False
        return outs

    def block(self, stmts, states: list[State], fq) -> list[State]:
        for stn in stmts:
            nxt = []
            for s in states:
                if s.ret:
                    nxt.append(s)
                else:
                    nxt.extend(self.stmt(stn, s, fq))
            states = self.merge(nxt)
            if len(states) > 400:
                raise AnalysisError(f"state explosion in {fq}")
        return states

    @staticmethod
    def _key(s: "State"):
        t = s.tok
        env = tuple(sorted((k, repr(v)) for k, v in s.env.items()))
        return (s.ret, repr(s.retval), t.loc, t.prev, repr(t.layout), t.writes,
                tuple((p[0], p[2], p[4]) for p in t.problems), repr(t.attrs), env)

    def merge(self, states):
        """join states that agree on everything but the path description"""
        seen = {}
        out = []
        for s in states:
            k = self._key(s)
            if k in seen:
                continue
            seen[k] = s
            out.append(s)
        return out

    def assign_name(self, st, name, val):
        if name in self.scenario and name != "nSteps_unused":
            val = self.scenario[name]
        st.env[name] = val

    def stmt(self, n, st: State, fq) -> list[State]:
        if isinstance(n, ast.Assign):
            if isinstance(n.value, ast.Call):
                outs = self.exec_call(n.value, st, fq, want_value=True)
            else:
                outs = [(st, self.ev(n.value, st, fq))]
            res = []
            for s, val in outs:
                for t in n.targets:
                    self.assign(t, val, n.value, s, fq, n)
                res.append(s)
            return res
        if isinstance(n, ast.AugAssign):
            tv = self.ev(n.target, st, fq) if not isinstance(n.target, ast.Name) else st.env.get(n.target.id, OPAQUE)
            v = self.ev(n.value, st, fq)
            if isinstance(n.target, ast.Subscript):
                base = self.ev(n.target.value, st, fq)
                if isinstance(base, Roots):
                    self.event(st, set(base) | self.roots_of(v), set(base), n, fq)
            elif isinstance(n.target, ast.Name):
                if isinstance(tv, Roots):
                    self.event(st, set(tv) | self.roots_of(v), set(tv), n, fq)
                elif isinstance(tv, int) and isinstance(v, int):
                    b = ast.BinOp(left=ast.Constant(tv), op=n.op, right=ast.Constant(v))
                    st.env[n.target.id] = self.ev(b, st, fq)
                else:
                    st.env[n.target.id] = OPAQUE
            return [st]
        if isinstance(n, ast.Expr):
            if isinstance(n.value, ast.Call):
                return [s for s, _ in self.exec_call(n.value, st, fq, want_value=False)]
            return [st]
        if isinstance(n, ast.If):
            t = self.ev(n.test, st, fq)
            ts = src(n.test)
            if ts in self.assume_false:
                t = False
            if t is True:
                return self.block(n.body, [st], fq)
            if t is False:
                return self.block(n.orelse, [st], fq)
            a = st.fork()
            b = st.fork()
            a.tok = a.tok.with_(assumed=a.tok.assumed + (ts,))
            b.tok = b.tok.with_(assumed=b.tok.assumed + ("not (" + ts + ")",))
            self.refine(n.test, True, a)
            self.refine(n.test, False, b)
            return self.block(n.body, [a], fq) + self.block(n.orelse, [b], fq)
        if isinstance(n, ast.For):
            it = self.ev(n.iter, st, fq)
            if isinstance(n.iter, ast.Call) and isinstance(n.iter.func, ast.Name) and n.iter.func.id == "enumerate":
                inner = self.ev(n.iter.args[0], st, fq) if n.iter.args else OPAQUE
                if isinstance(inner, list):
                    it = [(i, x) for i, x in enumerate(inner)]
                elif isinstance(inner, (Roots, Fresh)):
                    it = None
                    states = [st]
                    for _ in range(2):
                        for s in states:
                            self.bind_target(n.target, (OPAQUE, inner), s)
                        states = self.block(n.body, states, fq)
                        for s in states:
                            s.ret = s.ret
                    return states
            if isinstance(it, list):
                states = [st]
                for x in it:
                    for s in states:
                        if not s.ret:
                            self.bind_target(n.target, x, s)
                    states = self.block(n.body, states, fq)
                return states
            # unknown iterable: one-or-more iterations, run the body twice (stability)
            states = [st]
            for _ in range(2):
                for s in states:
                    if not s.ret:
                        self.bind_target(n.target, OPAQUE, s)
                states = self.block(n.body, states, fq)
            return states
        if isinstance(n, ast.While):
            states = self.block(n.body, [st], fq)
            return states
        if isinstance(n, ast.Return):
            st.ret = True
            st.retval = self.ev(n.value, st, fq) if n.value is not None else None
            return [st]
        if isinstance(n, (ast.Assert, ast.Pass, ast.Import, ast.ImportFrom, ast.Global)):
            return [st]
        if isinstance(n, ast.Raise):
            st.ret = True
            st.tok = st.tok.with_(assumed=st.tok.assumed + ("<raises>",))
            return [st]
        if isinstance(n, ast.With):
            return self.block(n.body, [st], fq)
        if isinstance(n, (ast.FunctionDef, ast.ClassDef)):
            return [st]
        return [st]

    def refine(self, test, truth, st):
        """learn from `a == b` on name symbols (source_name == dest_name)"""
        if isinstance(test, ast.Compare) and len(test.ops) == 1 and isinstance(test.ops[0], ast.Eq) and truth:
            a, b = test.left, test.comparators[0]
            if isinstance(a, ast.Name) and isinstance(b, ast.Name):
                va, vb = st.env.get(a.id), st.env.get(b.id)
                if isinstance(va, Sym) and isinstance(vb, Sym) and va.kind == "name" and vb.kind == "name":
                    # the two names denote one layout on this path: every value already derived from `b` is rewritten too
                    # (look-ups hoisted above the test must not keep the other name)
                    for k in list(st.env):
                        st.env[k] = _subst_sym(st.env[k], vb, va)
                    st.tok = _subst_sym(st.tok, vb, va)
                    st.env[b.id] = va
                    st.env["<same-name>"] = True

    def bind_target(self, t, val, st):
        if isinstance(t, ast.Name):
            st.env[t.id] = val
        elif isinstance(t, (ast.Tuple, ast.List)):
            if isinstance(val, (tuple, list)) and len(val) == len(t.elts):
                for e, v in zip(t.elts, val):
                    self.bind_target(e, v, st)
            else:
                for e in t.elts:
                    self.bind_target(e, OPAQUE, st)

    def assign(self, t, val, value_node, st: State, fq, node):
        if isinstance(t, ast.Name):
            self.assign_name(st, t.id, val)
        elif isinstance(t, (ast.Tuple, ast.List)):
            if isinstance(val, (tuple, list)) and len(val) == len(t.elts):
                for e, v in zip(t.elts, val):
                    self.assign(e, v, None, st, fq, node)
            else:
                for e in t.elts:
                    self.assign(e, OPAQUE, None, st, fq, node)
        elif isinstance(t, ast.Subscript):
            base = self.ev(t.value, st, fq)
            if isinstance(base, Roots):
                tv = self.ev(t, st, fq)
                self.check_extent(st, tv, node, fq, "destination")
                self.check_extent(st, val, node, fq, "source")
                self.event(st, self.roots_of(val), set(base), node, fq)
            elif isinstance(base, list):
                idx = self.ev(t.slice, st, fq)
                if isinstance(idx, int) and not isinstance(idx, bool) and -len(base) <= idx < len(base):
                    base[idx] = val
        elif isinstance(t, ast.Attribute):
            s = src(t)
            st.env[s] = val
            if s.startswith("self."):
                st.tok = st.tok.with_(attrs=tuple(x for x in st.tok.attrs if x[0] != s) + ((s, val),))
            if t.attr == "flat":
                base = self.ev(t.value, st, fq)
                if isinstance(base, Roots):
                    self.event(st, self.roots_of(val), set(base), node, fq)

    # ------------------------------------------------------------ calls
    def exec_call(self, e: ast.Call, st: State, fq, want_value) -> list[tuple[State, object]]:
        f = e.func
        name = f.id if isinstance(f, ast.Name) else f.attr if isinstance(f, ast.Attribute) else ""
        # MPI collectives with buffer arguments
        if name in ("Alltoall", "Alltoallv", "Allgather", "Allgatherv", "Gather", "Gatherv", "Scatter", "Bcast",
                    "Reduce", "Allreduce", "Sendrecv") and len(e.args) >= 2:
            def first(x):
                v = self.ev(x, st, fq)
                if isinstance(v, (tuple, list)) and v:
                    return v[0]
                return v
            s_, r_ = first(e.args[0]), first(e.args[1])
            self.event(st, self.roots_of(s_), self.roots_of(r_) if isinstance(r_, Roots) else set(), e, fq,
                       what=f"{name}({src(e.args[0])[:30]} -> {src(e.args[1])[:30]})")
            return [(st, OPAQUE)]
        tg = self.prog.resolve(e, self.rel)
        tg = [(r, q, n) for r, q, n in tg if r == self.rel]
        if not tg:
            return [(st, self.ev(e, st, fq) if want_value else OPAQUE)]
        outs = []
        # receiver-typed dispatch may give several candidates (LayoutHandler/LayoutSwapper); analyse each
        cands = tg
        if len(cands) > 1:
            recv = self.ev(f.value, st, fq) if isinstance(f, ast.Attribute) else None
            if isinstance(f, ast.Attribute) and isinstance(f.value, ast.Name) and f.value.id == "self":
                own = [c for c in cands if c[1].split(".")[0] == self.cls]
                cands = own or cands
            elif isinstance(recv, Sym) and recv.kind == "mgr":
                own = [c for c in cands if c[1].split(".")[0] == "LayoutHandler"]
                cands = own or cands
        for r, q, node in cands[:1] if len(cands) == 1 else cands:
            s2 = st.fork() if len(cands) > 1 else st
            outs.extend(self.invoke(e, q, node, s2, fq))
        return outs

    def invoke(self, call: ast.Call, q: str, fn: ast.FunctionDef, st: State, fq) -> list[tuple[State, object]]:
        params = [a.arg for a in fn.args.args]
        is_method = params and params[0] == "self"
        if is_method:
            params = params[1:]
        defaults = fn.args.defaults
        dvals = {}
        for p, d in zip(params[len(params) - len(defaults):], defaults):
            dvals[p] = d
        bound = {}
        for i, a in enumerate(call.args):
            if i < len(params):
                bound[params[i]] = self.ev(a, st, fq)
        for k in call.keywords:
            if k.arg in params:
                bound[k.arg] = self.ev(k.value, st, fq)
        for p in params:
            if p not in bound:
                bound[p] = self.ev(dvals[p], st, fq) if p in dvals else OPAQUE
        short = q.split(".")[-1]
        owner = q.split(".")[0]
        # layout bookkeeping at single-step functions
        lay_src = bound.get("layout_source", bound.get("source_name"))
        lay_dst = bound.get("layout_dest", bound.get("dest_name"))
        is_step = short in ("_transpose", "_transpose_source_intact") or short == "transpose"

        def unwrap(x):
            while isinstance(x, Sym) and x.kind == "layout":
                x = x.arg
            return x
        if is_step and lay_src is not None:
            cur = unwrap(st.tok.layout)
            got = unwrap(lay_src)
            if isinstance(got, Sym) and isinstance(cur, Sym) and got != cur:
                self.problem(st, "layout-bookkeeping",
                             f"step called with source layout `{got}` but the data is in layout `{cur}`", call, fq)
            elif not isinstance(got, Sym):
                self.problem(st, "layout-bookkeeping-undecided",
                             f"cannot identify the source layout argument `{src(call)[:60]}`", call, fq)
        use_contract = (q in self.stack) or (short in self.contract_funcs and self.stack) or len(self.stack) >= self.max_depth
        recv_is_other_mgr = isinstance(call.func, ast.Attribute) and not (isinstance(call.func.value, ast.Name) and call.func.value.id == "self") \
            and short == "transpose"
        if recv_is_other_mgr:
            use_contract = True
        results = []
        if use_contract:
            if short != "transpose":
                raise AnalysisError(f"recursion through {q} has no contract")
            s_, d_, b_ = bound.get("source"), bound.get("dest"), bound.get("buf")
            if not isinstance(s_, Roots) or not isinstance(d_, Roots):
                self.problem(st, "contract-args-undecided", f"cannot identify buffers in `{src(call)[:60]}`", call, fq)
                return [(st, OPAQUE)]
            # contract of the public transpose: field source -> dest; writes dest and (source | buf)
            self.event(st, set(s_), set(d_), call, fq, what=f"contract {q}({sorted(s_)}->{sorted(d_)})")
            if isinstance(b_, Roots):
                st.tok = st.tok.with_(writes=st.tok.writes | frozenset(b_))
            elif b_ is None:
                st.tok = st.tok.with_(writes=st.tok.writes | frozenset(s_))
            else:
                st.tok = st.tok.with_(writes=st.tok.writes | frozenset(s_))
            if is_step and lay_dst is not None:
                st.tok = st.tok.with_(layout=unwrap(lay_dst))
            if owner == "LayoutSwapper" and not recv_is_other_mgr:
                # the swapper's own transpose also updates the current manager
                st.env["self._current_manager"] = Sym("mgr", unwrap(lay_dst))
                st.tok = st.tok.with_(attrs=tuple(x for x in st.tok.attrs if x[0] != "self._current_manager") +
                                      (("self._current_manager", Sym("mgr", unwrap(lay_dst))),))
            return [(st, None)]
        # inline
        env2 = {k: v for k, v in st.env.items() if k.startswith("self.") or k == "<same-name>"}
        env2.update(bound)
        env2["self"] = OPAQUE
        if short in ("_transpose", "_transpose_source_intact"):
            env2["<lay_dst>"] = lay_dst
            env2["<lay_src>"] = lay_src
        else:
            env2["<lay_dst>"] = None
            env2["<lay_src>"] = None
        callee_state = State(env2, st.tok)
        self.stack.append(q)
        try:
            outs = self.run(fn, callee_state, q)
        finally:
            self.stack.pop()
        for o in outs:
            s3 = State(dict(st.env), o.tok)
            for k, v in o.env.items():
                if k.startswith("self."):
                    s3.env[k] = v
            if is_step and lay_dst is not None:
                s3.tok = s3.tok.with_(layout=unwrap(lay_dst))
            results.append((s3, o.retval))
        return results
