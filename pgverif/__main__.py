"""CLI: python -m pgverif check <ID> [--tier quick|thorough] | selfcheck | selftest [ID...]"""
from __future__ import annotations

import argparse
import importlib
import os
import sys

from .core import run_check, AnalysisError, Repo

ALL = [f"C{i:02d}" for i in range(1, 21)]


def _load(pid):
    try:
        return importlib.import_module(f"pgverif.props.{pid}")
    except ModuleNotFoundError as e:
        if e.name == f"pgverif.props.{pid}":
            return None
        raise


def main(argv=None):
    ap = argparse.ArgumentParser(prog="pgverif")
    sub = ap.add_subparsers(dest="cmd", required=True)
    c = sub.add_parser("check")
    c.add_argument("pid")
    c.add_argument("--tier", default=os.environ.get("VERIF_TIER", "quick"), choices=["quick", "thorough"])
    c.add_argument("--only-key", default=None)
    sub.add_parser("selfcheck")
    sub.add_parser("refnames")
    st = sub.add_parser("selftest")
    st.add_argument("pids", nargs="*")
    st.add_argument("--jobs", type=int, default=16)
    args = ap.parse_args(argv)

    if args.cmd == "check":
        mod = _load(args.pid)
        if mod is None:
            print(f"ANALYSIS-ERROR property={args.pid} no checker implemented (fail-closed stub)")
            return 2
        code = run_check(args.pid, mod.run, args.tier)
        if args.tier == "thorough" and code == 0 and hasattr(mod, "thorough_extra"):
            code = mod.thorough_extra(args.pid)
        if args.tier == "thorough" and code == 0 and os.environ.get("PGVERIF_NO_SELFTEST") != "1":
            # the checker itself, both ways: silent on behaviour-preserving rewrites of today's tree, firing on every recorded
            # breaking change of this property.  A failure here is a defect of the checker, not of the repository: exit 2.
            from .selftest import run_selftest
            if run_selftest([args.pid], jobs=8, verbose=True, write=False) != 0:
                print(f"ANALYSIS-ERROR property={args.pid} self-test of the checker failed (see lines above)")
                return 2
        return code
    if args.cmd == "selfcheck":
        from .units import ALL_UNITS
        r = Repo()
        n = 0
        try:
            for u in ALL_UNITS:
                m = r.mod(u)
                n += len(m.functions())
        except AnalysisError as e:
            print(f"ANALYSIS-ERROR selfcheck {e}")
            return 2
        print(f"selfcheck: {len(ALL_UNITS)} units parsed, {n} functions indexed")
        return 0
    if args.cmd == "refnames":
        # maintainers' command: record the locals of the reference tree (recognition aid of alpha.py); never run by a check
        import json
        from . import alpha
        from .core import REPO
        from .units import ALL_UNITS
        t = alpha.build_table(REPO, ALL_UNITS)
        alpha.TABLE.write_text(json.dumps(t, indent=0, sort_keys=True))
        print(f"refnames: {sum(len(v) for v in t.values())} functions of {len(t)} units recorded in {alpha.TABLE}")
        return 0
    if args.cmd == "selftest":
        from .selftest import run_selftest
        return run_selftest(args.pids or ALL, args.jobs)
    return 2


if __name__ == "__main__":
    import signal
    signal.signal(signal.SIGPIPE, signal.SIG_DFL)
    sys.stdout.reconfigure(line_buffering=True)
    code = main()
    sys.stdout.flush()
    os._exit(code)
