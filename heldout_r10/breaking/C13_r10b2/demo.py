import sys, os; sys.path.insert(0, os.getcwd())
import types
import numpy as np

# ---- fake mpi4py (no MPI library in the sandbox) ---------------------------
if 'mpi4py' not in sys.modules:
    try:
        import mpi4py.MPI  # noqa
    except Exception:
        _m = types.ModuleType('mpi4py')
        _M = types.ModuleType('mpi4py.MPI')

        class _Comm:
            def Get_rank(self): return 0
            def Get_size(self): return 1
            def __getattr__(self, name):
                raise AttributeError(name)
        _M.Comm = _Comm
        _M.Intracomm = _Comm
        _M.Cartcomm = _Comm
        _M.COMM_WORLD = _Comm()
        _M.COMM_NULL = None
        for _n in ('SUM', 'MAX', 'MIN', 'DOUBLE', 'INT', 'IN_PLACE', 'DOUBLE_COMPLEX'):
            setattr(_M, _n, object())
        _m.MPI = _M
        sys.modules['mpi4py'] = _m
        sys.modules['mpi4py.MPI'] = _M

import pygyro
assert os.path.abspath(pygyro.__file__).startswith(os.path.abspath(os.getcwd()) + os.sep), pygyro.__file__

from fractions import Fraction
from scipy.interpolate import make_interp_spline
from pygyro.splines.splines import BSplines, make_knots
from pygyro.advection.advection import ParallelGradient


class FakeLayout:
    """Only what ParallelGradient reads: local range of the r dimension."""

    def __init__(self, r_start, r_end):
        self.inv_dims_order = [0, 2, 1]
        self.starts = [r_start, 0, 0]
        self.ends = [r_end, 0, 0]


class FakeConstants:
    def __init__(self, R0, iota0, shear):
        self.R0 = R0
        self._iota0 = iota0
        self._shear = shear

    def iota(self, r):
        return self._iota0 + self._shear*np.asarray(r, dtype=float)


def make_grid(nr, nq, nz, zmax, degree=3, uniform=True):
    r = np.linspace(0.1, 14.5, nr)
    breaks_q = np.linspace(0, 2*np.pi, nq+1)
    spl_q = BSplines(make_knots(breaks_q, degree, True), degree, True, uniform)
    q = np.array(spl_q.greville)
    assert q.size == nq
    z = np.linspace(0, zmax, nz, endpoint=False)
    return spl_q, [r, q, z, np.linspace(-5, 5, 4)]


def fd_weights(order):
    """Exact rational first-derivative weights on the stencil the property states:
    order+1 consecutive integer offsets, centred when the order is even
    (one extra forward point when it is odd)."""
    n = order+1
    start = -(order//2)
    offs = list(range(start, start+n))
    # solve sum_j w_j offs_j^i = delta_{i1} exactly (Gauss elimination over Q)
    A = [[Fraction(o)**i for o in offs] + [Fraction(1 if i == 1 else 0)]
         for i in range(n)]
    for c in range(n):
        p = next(k for k in range(c, n) if A[k][c] != 0)
        A[c], A[p] = A[p], A[c]
        A[c] = [x/A[c][c] for x in A[c]]
        for k in range(n):
            if k != c and A[k][c] != 0:
                A[k] = [x-A[k][c]*y for x, y in zip(A[k], A[c])]
    return offs, [float(A[i][n]) for i in range(n)]


def reference(phi, q, z, r_i, iota_r, R0, order, degree=3):
    """Independent evaluation: periodic scipy spline in theta, field-line shifted
    evaluation, exact FD weights, z wrapped periodically."""
    nz, nq = phi.shape
    dz = z[1]-z[0]
    offs, w = fd_weights(order)
    qext = np.concatenate([q, [q[0]+2*np.pi]])
    out = np.zeros_like(phi)
    for k in range(nz):
        for o, c in zip(offs, w):
            row = phi[(k+o) % nz]
            s = make_interp_spline(qext, np.concatenate([row, row[:1]]), k=degree,
                                   bc_type='periodic')
            out[k] += c*s(np.mod(q+iota_r*dz*o/R0 - q[0], 2*np.pi)+q[0])
    bz = 1/np.sqrt(1+(r_i*iota_r/R0)**2)
    return out*bz/dz


def check(name, got, ref, tol=1e-9):
    scale = np.abs(ref).max() or 1.0
    err = np.abs(got-ref).max()/scale if np.isfinite(got).all() else np.inf
    ok = err < tol
    print('%-58s err=%9.2e %s' % (name, err, 'ok' if ok else 'VIOLATED'))
    return ok


def main():
    rng = np.random.default_rng(99)
    ok = True
    nr, nq, nz = 6, 16, 12
    cst = FakeConstants(239.8, 0.8, 0.01)
    for order in (2, 3, 4, 5, 6):
        spl, eta = make_grid(nr, nq, nz, 1506.7)
        r0, r1 = 1, 5
        pg = ParallelGradient(spl, eta, FakeLayout(r0, r1), cst, order)
        nloc = r1-r0
        phi = rng.standard_normal((nloc, nz, nq))
        refs = [reference(phi[i], eta[1], eta[2], eta[0][r0+i], cst.iota(eta[0][r0+i]),
                          cst.R0, order) for i in range(nloc)]

        # (a) the storage of fullSimulation.py: [r, z, theta], C ordered
        store = np.full((nloc, nz, nq), np.nan)
        for i in range(nloc):
            pg.parallel_gradient(phi[i], i, store[i])
        ok &= all([check('order %d, result in store[i] of [r,z,q] array, i=%d' % (order, i),
                         store[i], refs[i], 1e-10) for i in range(nloc)])

        # (b) the caller keeps the gradient with r as the fastest index
        # ([z, theta, r], the ordering of the v_parallel layout)
        store = np.full((nz, nq, nloc), np.nan)
        for i in range(nloc):
            pg.parallel_gradient(phi[i], i, store[:, :, i])
        ok &= all([check('order %d, result in store[:,:,i] of [z,q,r] array, i=%d' % (order, i),
                         store[:, :, i], refs[i], 1e-10) for i in range(nloc)])

        # (c) Fortran ordered result array, potential given as the real part
        # of a complex array (what VParallelAdvection.gridStep passes)
        der = np.full((nz, nq), np.nan, order='F')
        phic = phi[2] + 1j*rng.standard_normal((nz, nq))
        pg.parallel_gradient(np.real(phic), 2, der)
        ok &= check('order %d, Fortran ordered result array' % order, der, refs[2], 1e-10)

        # (d) result array of a [theta, z] storage seen transposed
        buf = np.full((nq, nz), np.nan)
        pg.parallel_gradient(phi[1], 1, buf.T)
        ok &= check('order %d, transposed view as result array' % order, buf.T, refs[1], 1e-10)
    print('PROPERTY HOLDS' if ok else 'PROPERTY VIOLATED')
    return 0 if ok else 1


if __name__ == '__main__':
    sys.exit(main())
