"""C10 - flux-surface advection is a field-aligned shift along z."""
from __future__ import annotations

import ast

import sympy as sp
from sympy import Symbol, Function, Integer

from ..core import src, AnalysisError, parent
from .. import units as U
from ..symx import SymExec, make_args, Undecided, alg_equal, sym_equal, ITE, Wrap, PI
from ..npsym import NpSym, PROD, DELTA
from ..kernels import SPLINE_HANDLERS, S1, h_scalar1, h_vector1
from .. import agree, lints
from .C05 import flux_surface as flux_index_spaces

CLS = "FluxSurfaceAdvection"


def geometry_env():
    r, dz, R0, dt, v = sp.symbols("r dz R0 dt v", real=True)
    iota = Function("iota")
    return dict(r=r, dz=dz, R0=R0, dt=dt, v=v, iota=iota)


def lagrange_points(chk):
    fn = chk.func(U.ADV, f"{CLS}._getLagrangePts")
    g = geometry_env()
    n = NpSym(env={"r": g["r"], "R0": g["R0"], "dt": g["dt"], "iota": g["iota"]},
              hooks={"eta_grid[2][2] - eta_grid[2][1]": g["dz"], "eta_grid[2][1]": Symbol("z1", real=True)})
    # the local radii and velocities (their index spaces are engine C's subject)
    for st in fn.body:
        if isinstance(st, ast.Assign) and src(st.targets[0]) == "r":
            n.hooks[src(st.value)] = g["r"]
    for nd in ast.walk(fn):
        if isinstance(nd, ast.Subscript) and src(nd.value) == "eta_grid[3]" and isinstance(nd.slice, ast.Slice):
            n.hooks[src(nd)] = g["v"]
    n.hooks["self._zLagrangePts"] = Symbol("nL", integer=True, positive=True)
    n.run(fn.body, skip=lambda st: isinstance(st, ast.Assign) and src(st.targets[0]) in ("nR", "nV") or
          (isinstance(st, ast.Assign) and src(st.targets[0]) == "self._shifts" and "ndarray" in src(st.value)))
    K = Symbol("K")
    r, dz, R0, dt, v, iota = g["r"], g["dz"], g["R0"], g["dt"], g["v"], g["iota"]
    bz = 1 / sp.sqrt(1 + (r * iota(r) / R0) ** 2)
    zDist = -v * bz * dt
    shifts = sp.floor(zDist / dz) + K
    spec = {
        "bz": (bz, "b_z = 1/sqrt(1 + (r iota(r)/R0)^2)"),
        "dtheta": (dz * iota(r) / R0, "theta shift per cell = dz iota(r)/R0"),
        "zDist": (zDist, "foot displacement = -v b_z(r) dt"),
        "self._shifts": (shifts, "stencil cells = floor(displacement/dz) + stencil offsets"),
        "self._thetaShifts": (dz * iota(r) / R0 * shifts, "theta shifts = (dz iota/R0) x cell shifts (field-line pitch)"),
        "zDiff": (zDist - dz * shifts, "distance foot - stencil node = displacement - dz x shift (reference z cancels)"),
    }
    for key, (want, what) in spec.items():
        got = n.env.get(key)
        if got is None:
            chk.ob("F6-lagrange-geometry", fn, key, None, f"`{key}` not extractable: {n.env.get('<undecided>' + key, 'not assigned')}",
                   file=U.ADV, func=f"{CLS}._getLagrangePts")
            continue
        ok = alg_equal(got, want)
        chk.ob("F6-lagrange-geometry", fn, f"{key} = ...", ok, what if ok else f"`{key}` is {got}, expected {want} ({what})",
               file=U.ADV, func=f"{CLS}._getLagrangePts", facts={"code": str(got), "spec": str(want)})
    # stencil offsets centred on the foot: K in [-n/2+1, n/2]
    ar = n.aranges.get("K")
    okc = None
    if ar and len(ar) == 2:
        try:
            okc = all(eval(src(ar[0]), {"__builtins__": {}}, {"self": _Obj(m)}) == -m // 2 + 1 and
                      eval(src(ar[1]), {"__builtins__": {}}, {"self": _Obj(m)}) == m // 2 + 1 for m in (2, 4, 6, 8, 10))
        except Exception:
            okc = None
    chk.ob("F6-stencil-centring", fn, "np.arange(-n//2+1, n//2+1)", okc,
           "the n stencil cells are floor(foot)-n/2+1 .. floor(foot)+n/2: the foot lies in the central cell" if okc else
           "stencil offsets are not -n/2+1 .. n/2 around the cell containing the foot", file=U.ADV, func=f"{CLS}._getLagrangePts")
    # first barycentric form with exact on-node special case
    coeffs = n.env.get("self._lagrangeCoeffs")
    zPts, zPos, zDiff = n.env.get("zPts"), n.env.get("zPos"), n.env.get("zDiff")
    omega, lambdas = n.env.get("omega"), n.env.get("lambdas")
    ok = None
    why = "barycentric construction not extractable"
    if all(x is not None for x in (coeffs, zPts, zPos, zDiff, omega, lambdas)):
        want = ITE(sp.Eq(zPts, zPos), Integer(1), omega * lambdas / zDiff)
        shape_ok = isinstance(omega, sp.Basic) and omega.func == PROD and alg_equal(omega.args[0], zDiff) and str(omega.args[1]) == "axis2"
        lam_ok = isinstance(lambdas, sp.Basic) and alg_equal(1 / lambdas - PROD(DELTA, Symbol("axis3")), 0) is not None
        # lambdas = 1/PROD(zPts_j - zPts_k + eye): in the element-wise model the pairwise difference vanishes, leaving PROD(DELTA)
        lam_ok = alg_equal(lambdas, 1 / PROD(DELTA, Symbol("axis3")))
        cond_exact = isinstance(coeffs, ITE) and isinstance(coeffs.args[0], sp.Eq)
        ok = bool(shape_ok and lam_ok and cond_exact and sym_equal(coeffs, want)[0])
        why = ("weights = omega lambda_j / (foot - node_j) with omega = prod_j (foot - node_j), lambda_j = 1/prod_{k!=j}(node_j - node_k), "
               "and exactly 1 on a node hit by the foot" if ok else
               f"weights are {coeffs}; omega ok={shape_ok}, lambda ok={lam_ok}, exact on-node test ok={cond_exact}")
    # the on-node test must be exact equality (a tolerance snaps near-node feet while the other weights stay non-zero)
    wh = [c for c in ast.walk(fn) if isinstance(c, ast.Call) and src(c.func) == "np.where"]
    if wh and ok is None:
        cnd = wh[0].args[0]
        env = {st.targets[0].id: st.value for st in fn.body if isinstance(st, ast.Assign) and isinstance(st.targets[0], ast.Name)}
        cexp = env.get(cnd.id) if isinstance(cnd, ast.Name) else cnd
        if isinstance(cexp, ast.Call):
            ok = False
            why = f"the on-node special case is selected by `{src(cexp)}`, not by exact equality: a foot merely near a node gets weight 1 " \
                  "while the other weights stay non-zero (weights no longer sum to 1)"
    chk.ob("F6-barycentric-weights", fn, "self._lagrangeCoeffs = np.where(zPts == zPos, 1, omega*lambdas/zDiff)", ok, why,
           file=U.ADV, func=f"{CLS}._getLagrangePts")
    return n


class _Obj:
    def __init__(self, m):
        self._zLagrangePts = m


def sibling_geometry(chk):
    """b_z and the field-line pitch agree between FluxSurfaceAdvection, ParallelGradient and fieldline()"""
    g = geometry_env()
    r, dz, R0, iota = g["r"], g["dz"], g["R0"], g["iota"]
    pg = chk.func(U.ADV, "ParallelGradient.__init__")
    n = NpSym(env={"r": r, "iota": iota}, hooks={"constants.iota(r)": iota(r), "constants.R0": R0})
    bzs = [st for st in pg.body if isinstance(st, ast.Assign) and src(st.targets[0]) == "self._bz"]
    ok = False
    got = None
    if bzs:
        try:
            got = n.ev(bzs[0].value)
            ok = alg_equal(got, 1 / sp.sqrt(1 + (r * iota(r) / R0) ** 2))
        except Undecided as e:
            got = str(e)
    chk.ob("F6-sibling-geometry", bzs[0] if bzs else pg, "ParallelGradient._bz", ok,
           "b_z(r) has the same normal form as in the flux-surface advection" if ok else f"b_z is {got}", file=U.ADV,
           func="ParallelGradient.__init__")
    fl = chk.func(U.ADV, "fieldline")
    th, zd = sp.symbols("theta z_diff", real=True)
    n2 = NpSym(env={"theta": th, "z_diff": zd, "r": r, "R0": R0, "iota": iota})
    ret = [s for s in fl.body if isinstance(s, ast.Return)]
    ok2 = False
    got2 = None
    if ret:
        try:
            got2 = n2.ev(ret[0].value)
            ok2 = alg_equal(got2, Wrap(th + iota(r) * zd / R0))
        except Undecided as e:
            got2 = str(e)
    chk.ob("F6-sibling-geometry", fl, "fieldline(theta, z_diff, iota, r, R0)", ok2,
           "field line: theta + iota(r) z_diff / R0 (mod 2 pi) - the same pitch iota/R0 as the flux-surface theta shifts"
           if ok2 else f"field line is {got2}", file=U.ADV, func="fieldline")


def kernels(chk):
    kmod = chk.mod(U.ADVK)
    # writer: general_get_lagrange_vals
    fn = kmod.func("general_get_lagrange_vals")
    chk.functions.add(f"{U.ADVK}:general_get_lagrange_vals")
    args = make_args(fn, funcs={"eval_spline_1d_vector": h_vector1, "eval_spline_1d_scalar": h_scalar1})
    ex = SymExec(fn, args, calls=dict(SPLINE_HANDLERS))
    try:
        ex.run()
        j, k = Symbol("j", integer=True), Symbol("k", integer=True)
        vals = ex.env["vals"]
        keys = list(vals.cells)
        # the loop variables are whatever the kernel calls them: take them from the written cell
        if len(keys) == 1 and len(keys[0]) == 3 and isinstance(keys[0][1], sp.Symbol) and isinstance(keys[0][2], sp.Symbol):
            k, j = keys[0][1], keys[0][2]
        nz = Symbol("n0_vals", integer=True, positive=True)
        i = args["i"]
        want_key = (Function("mod")(i - args["shifts"].fn(j), nz), k, j)
        fam = (Symbol("arr_kts"), args["deg"], Symbol("arr_coeffs"))
        want_val = S1(Wrap(args["qVals"].fn(k) + args["thetaShifts"].fn(j)), 0, *fam)
        def congruent(a, b):
            # row indices are compared modulo nz (interpreted Python wraps a negative index; whether compiled code may
            # rely on that is C19's rule K1, not this property's)
            strip = lambda e: e.replace(lambda x: x.func == Function("mod") and x.args[1] == nz, lambda x: x.args[0])
            return alg_equal(strip(a), strip(b))
        ok = len(keys) == 1 and congruent(keys[0][0], want_key[0]) and all(alg_equal(a, b) for a, b in zip(keys[0][1:], want_key[1:])) \
            and alg_equal(vals.cells[keys[0]], want_val)
        chk.ob("F6-table-writer", fn, "vals[(i - shifts[j]) % nz, k, j] = S(theta_k + thetaShifts[j])", ok,
               "the value for source row i and stencil entry j is stored at target row (i - shift_j) mod nz, with the theta "
               "shift of the same j" if ok else f"writer stores {dict(vals.cells)}", file=U.ADVK, func="general_get_lagrange_vals",
               facts={"key": str(keys[0]) if keys else "", "value": str(vals.cells[keys[0]]) if keys else ""})
    except Undecided as e:
        chk.ob("F6-table-writer", fn, "general_get_lagrange_vals", None, f"outside the extractable fragment: {e}", file=U.ADVK,
               func="general_get_lagrange_vals")
    # reader: flux_advection
    fr = kmod.func("flux_advection")
    chk.functions.add(f"{U.ADVK}:flux_advection")
    a2 = make_args(fr)
    ex2 = SymExec(fr, a2, calls={})
    try:
        ex2.run()
        i, j, k = (Symbol(x, integer=True) for x in "ijk")
        got = ex2.env["f"].read([j, i])
        c, v = a2["coeffs"].fn, a2["vals"].fn
        nco = Symbol("n0_coeffs", integer=True, positive=True)
        want = c(0) * v(i, j, 0) + sp.Sum(c(k) * v(i, j, k), (k, 1, nco - 1))
        ok = alg_equal(got, want)
        chk.ob("F6-table-reader", fr, "f[j,i] = sum_k coeffs[k] vals[i,j,k]", ok,
               "new value at (theta j, z i) = Lagrange-weighted sum over the stencil of row i of the table" if ok else
               f"reader computes {got}", file=U.ADVK, func="flux_advection")
    except Undecided as e:
        chk.ob("F6-table-reader", fr, "flux_advection", None, f"outside the extractable fragment: {e}", file=U.ADVK, func="flux_advection")
    agree.check_wrapper_dispatch(chk, kmod, "get_lagrange_vals", "general_get_lagrange_vals")


def step_wiring(chk):
    fn = chk.func(U.ADV, f"{CLS}.step")
    kmod = chk.mod(U.ADVK)
    calls = {c.func.id: c for c in ast.walk(fn) if isinstance(c, ast.Call) and isinstance(c.func, ast.Name)
             and c.func.id in ("get_lagrange_vals", "flux_advection")}
    if len(calls) != 2:
        raise AnalysisError("C10: kernel calls not found in FluxSurfaceAdvection.step")
    c1 = calls["get_lagrange_vals"]
    agree.check_roles(chk, U.ADV, f"{CLS}.step", c1, [a.arg for a in kmod.func("get_lagrange_vals").args.args], {
        "i": "i", "self._shifts[rIdx, cIdx]": "shifts", "self._LagrangeVals": "vals", "self._points[0]": "qVals",
        "self._thetaShifts[rIdx, cIdx]": "thetaShifts", "self._thetaSpline.basis.knots": "kts",
        "self._thetaSpline.basis.degree": "deg", "self._thetaSpline.coeffs": "coeffs",
        "self._thetaSpline.basis.cubic_uniform": "cubic_uniform_splines"})
    c2 = calls["flux_advection"]
    a = [src(x).replace(" ", "") for x in c2.args]
    ok = a == ["*self._nPoints", "f", "self._lagrangeCoeffs[rIdx,cIdx]", "self._LagrangeVals"] or \
        a == ["self._nPoints[0]", "self._nPoints[1]", "f", "self._lagrangeCoeffs[rIdx,cIdx]", "self._LagrangeVals"]
    chk.ob("E2-argument-role", c2, "flux_advection(*self._nPoints, f, coeffs[rIdx,cIdx], vals)", ok,
           "(n_theta, n_z), the field, the weights of the same (r,v) entry as the shifts, and the table" if ok else f"arguments {a}",
           file=U.ADV, func=f"{CLS}.step")
    init = chk.func(U.ADV, f"{CLS}.__init__")
    t = src(init).replace(" ", "").replace("\n", "")
    okp = "self._points=eta_grid[1:3]" in t and "self._nPoints=(self._points[0].size,self._points[1].size)" in t and \
        "self._LagrangeVals=np.ndarray([self._nPoints[1],self._nPoints[0],self._zLagrangePts])" in t
    chk.ob("E2-point-order", init, "points = (theta, z); table [n_z, n_theta, stencil]", okp,
           "the slice is (theta, z); the table is allocated [z, theta, stencil] as the kernels index it" if okp else
           "point order or table allocation changed", file=U.ADV, func=f"{CLS}.__init__")
    # loop: one spline per z column i, interpolated from f[:, i] before the table row is produced
    lp = [n for n in fn.body if isinstance(n, ast.For)]
    okl = len(lp) == 1 and src(lp[0].iter).replace(" ", "") == "range(self._nPoints[1])" and \
        "self._interpolator.compute_interpolant(f[:,i],self._thetaSpline)" in src(lp[0]).replace(" ", "").replace("\n", "") and \
        lp[0].lineno < c2.lineno
    chk.ob("E2-interpolate-before-evaluate", lp[0] if lp else fn, "for i in range(n_z): interpolate f[:, i]; fill table", okl,
           "every z column is interpolated along theta and entered into the table before the weighted sum overwrites f" if okl else
           "the table is not filled column by column before the update", file=U.ADV, func=f"{CLS}.step")
    # precomputed tables are not modified by the step
    muts = [m for m in lints.shared_state_mutations(fn, lambda s: s.startswith("self._") and s.split("[")[0] in
                                                    ("self._shifts", "self._thetaShifts", "self._lagrangeCoeffs"))]
    chk.ob("G2-no-shared-mutation", fn, "step vs precomputed tables", not muts,
           "the per-(r,v) tables are only read" if not muts else "; ".join(d for _, d in muts), file=U.ADV, func=f"{CLS}.step")


def run(chk):
    chk.explanation = (
        "Element-wise model of FluxSurfaceAdvection._getLagrangePts (b_z, theta shift per cell, foot displacement -v b_z dt, "
        "stencil cells, theta shifts, node distances with the reference z cancelling, first barycentric weights with an exact "
        "on-node case, stencil centring); sibling agreement of b_z and the field-line pitch with ParallelGradient/fieldline; "
        "table writer/reader agreement of the two kernels by symbolic forward substitution (target row (i - shift_j) mod nz, "
        "theta shift of the same j; weighted sum over the stencil); dispatch, argument roles, interpolate-before-evaluate; "
        "index-space typing of the tables and of gridStep (engine C). Constants/linearity/shift identities are consequences "
        "and are not decided separately; floor conventions are fixed by the stencil rule only.")
    chk.in_file(U.ADV)
    lagrange_points(chk)
    sibling_geometry(chk)
    kernels(chk)
    step_wiring(chk)
    flux_index_spaces(chk)
    from .. import lints as _l
    _l.check_cache_keys(chk, U.ADV, "FluxSurfaceAdvection")
    chk.floor("F6-", 12)
    chk.floor("C-", 8)
