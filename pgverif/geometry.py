"""Symbolic block-shape lists (writer/reader geometry agreement, DESIGN 5 C01-3 / C02-3 / C03-4).

A *shape list* is `list(L.shape)` (or `[slice(x) for x in L.shape]`) with some
entries overridden: `shape[k] = v`.  Its product is compared between the site
that sizes the buffer, the packer and the unpacker, as
(base layout, set of overridden positions, product of the override values).
Position swaps (`shape[0], shape[a] = shape[a], shape[0]`) do not change the
product and are recorded separately for the axis-role rule.
"""
from __future__ import annotations

import ast
import re
from dataclasses import dataclass, field

from .core import src, AnalysisError


@dataclass
class ShapeList:
    base: str                         # e.g. 'layout_source.shape'
    over: dict = field(default_factory=dict)     # index-src -> value-src
    swaps: list = field(default_factory=list)    # [(i_src, j_src, lineno)]
    kind: str = "shape"               # 'shape' | 'slices'
    defined_at: int = 0

    def copy(self):
        return ShapeList(self.base, dict(self.over), list(self.swaps), self.kind, self.defined_at)


def _is_list_of_shape(v):
    """list(X.shape) / [slice(x) for x in X.shape] / [slice(n) for n in X.shape] -> (base, kind)"""
    if isinstance(v, ast.Call) and isinstance(v.func, ast.Name) and v.func.id == "list" and len(v.args) == 1 \
            and isinstance(v.args[0], ast.Attribute) and v.args[0].attr == "shape":
        return src(v.args[0]), "shape"
    if isinstance(v, ast.ListComp) and len(v.generators) == 1:
        g = v.generators[0]
        if isinstance(g.iter, ast.Attribute) and g.iter.attr == "shape" and isinstance(v.elt, ast.Call) \
                and isinstance(v.elt.func, ast.Name) and v.elt.func.id == "slice" and len(v.elt.args) == 1 \
                and isinstance(v.elt.args[0], ast.Name) and isinstance(g.target, ast.Name) \
                and v.elt.args[0].id == g.target.id:
            return src(g.iter), "slices"
    return None


def _is_list_of_list(v, lists):
    """[slice(x) for x in <shape list var>]"""
    if isinstance(v, ast.ListComp) and len(v.generators) == 1:
        g = v.generators[0]
        if isinstance(g.iter, ast.Name) and g.iter.id in lists and isinstance(v.elt, ast.Call) \
                and isinstance(v.elt.func, ast.Name) and v.elt.func.id == "slice" and len(v.elt.args) == 1 \
                and isinstance(v.elt.args[0], ast.Name) and isinstance(g.target, ast.Name) \
                and v.elt.args[0].id == g.target.id:
            return g.iter.id
    return None


class ShapeFlow:
    """Forward pass over a function body (statements in source order, branches merged
    by taking both): tracks shape lists and `size = np.prod(list)` snapshots."""

    def __init__(self, fn: ast.FunctionDef):
        self.fn = fn
        self.lists: dict[str, ShapeList] = {}
        self.prods: dict[str, tuple[ShapeList, int]] = {}   # var -> (snapshot, lineno)
        self.subscripts: list = []                          # (listname, index_src, lineno, node, swaps_so_far)
        self.walk(fn.body)

    def walk(self, stmts):
        for st in stmts:
            self.stmt(st)

    def stmt(self, st):
        if isinstance(st, ast.Assign) and len(st.targets) == 1:
            t, v = st.targets[0], st.value
            if isinstance(t, ast.Name):
                r = _is_list_of_shape(v)
                if r:
                    self.lists[t.id] = ShapeList(r[0], kind=r[1], defined_at=st.lineno)
                    return
                d = _is_list_of_list(v, self.lists)
                if d:
                    c = self.lists[d].copy()
                    c.kind = "slices"
                    c.defined_at = st.lineno
                    self.lists[t.id] = c
                    return
                if isinstance(v, ast.Call) and src(v.func) in ("np.prod", "numpy.prod", "prod") and v.args \
                        and isinstance(v.args[0], ast.Name) and v.args[0].id in self.lists:
                    self.prods[t.id] = (self.lists[v.args[0].id].copy(), st.lineno)
                    return
                if t.id in self.lists:
                    del self.lists[t.id]
                return
            if isinstance(t, ast.Subscript) and isinstance(t.value, ast.Name) and t.value.id in self.lists:
                L = self.lists[t.value.id]
                k = src(t.slice)
                self.subscripts.append((t.value.id, k, st.lineno, st, list(L.swaps)))
                L.over[k] = src(v)
                return
            if isinstance(t, ast.Tuple) and isinstance(v, ast.Tuple) and len(t.elts) == 2 and len(v.elts) == 2:
                a, b = t.elts
                if isinstance(a, ast.Subscript) and isinstance(b, ast.Subscript) and isinstance(a.value, ast.Name) \
                        and a.value.id in self.lists and src(a.value) == src(b.value) \
                        and src(v.elts[0]) == src(b) and src(v.elts[1]) == src(a):
                    L = self.lists[a.value.id]
                    i, j = src(a.slice), src(b.slice)
                    # swap the override entries as well
                    oi, oj = L.over.get(i), L.over.get(j)
                    L.swaps.append((i, j, st.lineno))
                    return
        for f in ("body", "orelse", "finalbody"):
            sub = getattr(st, f, None)
            if sub and isinstance(sub, list) and sub and isinstance(sub[0], ast.stmt):
                self.walk(sub)


def rename(s: str, mapping: dict) -> str:
    for a, b in mapping.items():
        s = re.sub(r"\b" + re.escape(a) + r"\b", b, s)
    return s


def canon_product(sl: ShapeList, mapping: dict, extra_factor: str | None = None):
    """-> (base, frozenset(overridden positions), sympy product of override values [* extra])"""
    import sympy
    base = rename(sl.base, mapping)
    keys = frozenset(rename(k, mapping) for k in sl.over)
    expr = sympy.Integer(1)
    atoms = {}

    def atom(text):
        text = rename(text, mapping)
        # split on top-level '*' only for simple products `A*mpi_size`
        parts = _split_mul(text)
        e = sympy.Integer(1)
        for p in parts:
            p = p.strip()
            if re.fullmatch(r"\d+", p):
                e *= sympy.Integer(int(p))
            else:
                e *= atoms.setdefault(p, sympy.Symbol(p))
        return e
    for k, v in sl.over.items():
        expr *= atom(v)
    if extra_factor:
        expr *= atom(extra_factor)
    return base, keys, sympy.expand(expr)


def _split_mul(text):
    parts, depth, cur = [], 0, ""
    for ch in text:
        if ch in "([":
            depth += 1
        elif ch in ")]":
            depth -= 1
        if ch == "*" and depth == 0:
            parts.append(cur)
            cur = ""
        else:
            cur += ch
    parts.append(cur)
    return parts
