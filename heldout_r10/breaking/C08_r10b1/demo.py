import sys, os; sys.path.insert(0, os.getcwd())
import warnings
import numpy as np
from scipy.interpolate import BSpline
import pygyro
assert os.path.abspath(pygyro.__file__).startswith(os.path.abspath(os.getcwd()) + os.sep), pygyro.__file__
from pygyro.splines.splines import make_knots, BSplines, Spline1D
from pygyro.splines.spline_interpolators import SplineInterpolator1D

# Complex data on clamped spaces: S(x_i) = u_i, real and imaginary part.
# The interpolator and the spline are created with the dtype OF THE DATA
# (ug.dtype, a numpy dtype object that compares equal to `complex`), as a
# caller holding a complex array naturally writes it, and also with the
# builtin `complex`.
warnings.simplefilter('ignore')
rng = np.random.default_rng(7)
worst = {}
for degree in (1, 2, 3, 4, 5):
    for ncells in (1, 4, 9, 16):
        for kind in ('uniform', 'graded'):
            breaks = np.linspace(0.1, 1.9, ncells + 1)
            if kind == 'graded':
                breaks = 0.1 + 1.8 * np.linspace(0, 1, ncells + 1) ** 2
            knots = make_knots(breaks, degree, False)
            basis = BSplines(knots.copy(), degree, False, kind == 'uniform')
            if basis.cubic_uniform:
                dx = breaks[1] - breaks[0]
                knots = breaks[0] + dx * np.arange(-3, ncells + 4)
            xg = np.array(basis.greville)
            n = basis.nbasis
            ug = rng.standard_normal(n) + 1j * rng.standard_normal(n)
            assert ug.dtype == complex
            for how, dt in (('builtin complex', complex), ('ug.dtype', ug.dtype)):
                interp = SplineInterpolator1D(basis, dtype=dt)
                spl = Spline1D(basis, dt)
                interp.compute_interpolant(ug, spl)
                # independent evaluation of the interpolant (scipy)
                val = BSpline(knots, spl.coeffs, degree)(xg)
                err = abs(val - ug).max()
                worst[how] = max(worst.get(how, 0.0), err)
                # and through the library, part by part (its evaluators are real)
                part = Spline1D(basis)
                part.coeffs[:] = spl.coeffs.real
                re = part.eval(xg)
                part.coeffs[:] = spl.coeffs.imag
                im = part.eval(xg)
                worst[how] = max(worst[how], abs(re + 1j * im - ug).max())
for how, err in worst.items():
    print("dtype given as %-16s max |S(x_i) - u_i| = %.3e" % (how, err))
if max(worst.values()) > 1e-10:
    print("PROPERTY VIOLATED: complex data are not reproduced at the interpolation points")
    sys.exit(1)
print("property holds")
sys.exit(0)
