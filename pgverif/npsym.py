"""Element-wise model of vectorised numpy formulas (DESIGN 4.5, second half).

Arrays are represented by their generic element: broadcasting subscripts ([:, None],
[None, :, None]) are the identity, np.prod/np.sum along an axis are uninterpreted
reductions, np.where is ITE, np.arange(a, b) along the stencil axis is a symbol K with
recorded bounds, np.eye is the diagonal indicator.  Forward substitution over the
statements of a function gives each attribute / local as a sympy expression.
"""
from __future__ import annotations

import ast

import sympy as sp
from sympy import Function, Symbol

from .core import src
from .symx import ITE, Undecided, Wrap, PI

PROD = Function("PROD")
SUMR = Function("SUMR")
DELTA = Symbol("DELTA")


class NpSym:
    def __init__(self, env=None, hooks=None):
        self.env: dict[str, object] = dict(env or {})
        self.hooks = hooks or {}          # normalised source text -> sympy value
        self.aranges: dict[str, tuple] = {}

    def lookup_src(self, e):
        s = src(e)
        if s in self.hooks:
            return self.hooks[s]
        if s in self.env:
            return self.env[s]
        return None

    def ev(self, e):
        v = self.lookup_src(e)
        if v is not None:
            return v
        if isinstance(e, ast.Constant):
            if isinstance(e.value, bool):
                return sp.true if e.value else sp.false
            if isinstance(e.value, int):
                return sp.Integer(e.value)
            if isinstance(e.value, float):
                return sp.Rational(repr(e.value))
            raise Undecided(f"constant {e.value!r}")
        if isinstance(e, ast.Name):
            if e.id == "pi":
                return PI
            raise Undecided(f"unknown name `{e.id}`")
        if isinstance(e, ast.Attribute):
            if src(e) in ("np.pi", "math.pi"):
                return PI
            if e.attr == "size" and not isinstance(e.value, ast.Call):
                # number of elements of an array the model does not track: an unknown positive integer
                return Symbol("size_" + "".join(ch if ch.isalnum() else "_" for ch in src(e.value)), integer=True, positive=True)
            raise Undecided(f"unknown attribute `{src(e)}`")
        if isinstance(e, ast.BinOp):
            a, b = self.ev(e.left), self.ev(e.right)
            op = e.op
            if isinstance(op, ast.Add):
                return a + b
            if isinstance(op, ast.Sub):
                return a - b
            if isinstance(op, ast.Mult):
                return a * b
            if isinstance(op, ast.Div):
                return a / b
            if isinstance(op, ast.Pow):
                return a ** b
            if isinstance(op, ast.FloorDiv):
                return sp.floor(a / b)
            if isinstance(op, ast.Mod):
                if sp.simplify(b - 2 * PI) == 0:
                    return Wrap(a)
                return Function("mod")(a, b)
            raise Undecided(f"operator in `{src(e)[:40]}`")
        if isinstance(e, ast.UnaryOp):
            v = self.ev(e.operand)
            if isinstance(e.op, ast.USub):
                return -v
            if isinstance(e.op, ast.UAdd):
                return v
            if isinstance(e.op, ast.Not):
                return sp.Not(v)
        if isinstance(e, ast.Compare) and len(e.ops) == 1:
            a, b = self.ev(e.left), self.ev(e.comparators[0])
            op = e.ops[0]
            return {ast.Eq: sp.Eq, ast.NotEq: sp.Ne, ast.Lt: sp.Lt, ast.LtE: sp.Le, ast.Gt: sp.Gt, ast.GtE: sp.Ge}[type(op)](a, b)
        if isinstance(e, ast.Subscript):
            items = e.slice.elts if isinstance(e.slice, ast.Tuple) else [e.slice]
            if all((isinstance(i, ast.Slice) and i.lower is None and i.upper is None and i.step is None) or
                   (isinstance(i, ast.Constant) and i.value is None) for i in items):
                return self.ev(e.value)
            raise Undecided(f"subscript `{src(e)[:50]}`")
        if isinstance(e, ast.Call):
            f = src(e.func)
            name = f.split(".")[-1]
            if f in ("np.sqrt", "sqrt", "math.sqrt"):
                return sp.sqrt(self.ev(e.args[0]))
            if f in ("np.floor", "floor"):
                return sp.floor(self.ev(e.args[0]))
            if f in ("np.round", "np.rint", "round", "np.around") and len(e.args) == 1:
                return Function("round")(self.ev(e.args[0]))
            if f in ("np.ceil", "ceil"):
                return sp.ceiling(self.ev(e.args[0]))
            if f == "len" and len(e.args) == 1 and not isinstance(e.args[0], ast.Call):
                return Symbol("size_" + "".join(ch if ch.isalnum() else "_" for ch in src(e.args[0])), integer=True, positive=True)
            if f in ("np.abs", "abs"):
                return sp.Abs(self.ev(e.args[0]))
            if f in ("np.exp", "exp"):
                return sp.exp(self.ev(e.args[0]))
            if f in ("np.tanh", "tanh", "np.cos", "cos", "np.sin", "sin") and f.split(".")[-1] not in self.env:
                return getattr(sp, f.split(".")[-1])(self.ev(e.args[0]))
            if f in ("np.mod",):
                a, b = self.ev(e.args[0]), self.ev(e.args[1])
                return Wrap(a) if sp.simplify(b - 2 * PI) == 0 else Function("mod")(a, b)
            if f == "np.where" and len(e.args) == 3:
                return ITE(self.ev(e.args[0]), self.ev(e.args[1]), self.ev(e.args[2]))
            if f in ("np.prod", "np.sum"):
                ax = [k.value for k in e.keywords if k.arg == "axis"]
                axv = src(ax[0]) if ax else (src(e.args[1]) if len(e.args) > 1 else "all")
                return (PROD if f == "np.prod" else SUMR)(self.ev(e.args[0]), Symbol("axis" + axv))
            if f == "np.arange":
                key = "K_" + "_".join(src(a).replace(" ", "") for a in e.args)
                sym = Symbol("K")
                self.aranges["K"] = tuple(e.args)
                return sym
            if f == "np.eye":
                return DELTA
            if name in self.env and callable(self.env[name]):
                return self.env[name](*[self.ev(a) for a in e.args])
            if f in self.env and callable(self.env[f]):
                return self.env[f](*[self.ev(a) for a in e.args])
            raise Undecided(f"call `{src(e)[:50]}`")
        raise Undecided(f"expression `{src(e)[:50]}`")

    def run(self, stmts, skip=lambda st: False):
        for st in stmts:
            if skip(st):
                continue
            if isinstance(st, ast.Assign) and len(st.targets) == 1:
                t = st.targets[0]
                key = src(t)
                if isinstance(t, ast.Subscript) and isinstance(t.slice, ast.Slice) and t.slice.lower is None and t.slice.upper is None:
                    key = src(t.value)       # X[:] = expr
                elif isinstance(t, ast.Subscript):
                    continue
                try:
                    self.env[key] = self.ev(st.value)
                except Undecided as e:
                    self.env[key] = None
                    self.env["<undecided>" + key] = str(e)
            elif isinstance(st, ast.With):
                self.run(st.body, skip)
