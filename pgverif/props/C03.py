"""C03 - redistribution across differently distributed layout groups (LayoutSwapper).

Decides (DESIGN 5/C03): field-location flow and effects over LayoutSwapper.transpose
(scatter / gather / same-group / multi-step paths, with and without buffer), manager
typestate, gathered/scattered role agreement of every getAxes result (index-ownership
typing), Allgather geometry and symmetric replication, permutation typing.

The gather and scatter arms are read symbolically (forward substitution of the arm's
statements, see SymArm) on a behaviour-preserving view of the two single-step routines
(C01.normal_view), so the verdict does not depend on temporaries, helper methods, the
slicing idiom or the order of the arms.
"""
from __future__ import annotations

import ast

from ..core import src, parent, guards_of, contains
from ..resolve import Program, inline_locals, expand
from .. import units as U
from ..bufflow import Sym
from ..geometry import ShapeFlow
from .. import permcheck
from .C01 import flow_check, safe_flow_check, normal_view, unit_view, has_call, ModView, engine, xsrc, canonical_steps

CLS = "LayoutSwapper"
STEP = ("LayoutSwapper._transpose", "LayoutSwapper._transpose_source_intact")


def view_of(chk, mod, q):
    """the behaviour-preserving view of a function the shape-reading rules work on (one per run)"""
    cache = chk.__dict__.setdefault("_c03_views", {})
    key = (mod.rel, q)
    if key not in cache:
        cls = q.split(".")[0]
        want = has_call("Allgather", "Gather", "Allgatherv", "allgather", "gather") if q in STEP else None
        v = unit_view(canonical_steps(mod, cls), cls, q, want=want, normal=True)
        conv = getaxes_convention(mod)
        if conv is not None and conv != (0, 1, 0, 1):
            _canonical_getaxes_calls(v, conv)
        cache[key] = v
    return cache[key]


def _lib_normal(fn):
    """private copy of a function with equivalent library forms written the reference way (`L.inv_dims_order[e]` as `L.dims_order.index(e)`)"""
    from .C01 import clone, _InvToIndex, link
    v = clone(fn)
    v._parent = getattr(fn, "_parent", None)
    _InvToIndex().visit(v)
    ast.fix_missing_locations(v)
    link(v)
    v._parent = getattr(fn, "_parent", None)
    return v


def getaxes_convention(mod):
    """(position of the gathered layout among getAxes' arguments, position of the scattered one, position of the gathered-side axis in
    the returned pair, position of the scattered-side axis): the reference is (0, 1, 0, 1).  Read from the definition: the returned
    element of the form `<G>.dims_order.index(<S>.dims_order[<other element>])` is the gathered-side axis, G and S are the parameters.
    None when the definition is not read."""
    cache = mod.__dict__.setdefault("_c03_getaxes_conv", {})
    if "v" in cache:
        return cache["v"]
    conv = None
    if mod.has("LayoutSwapper.getAxes"):
        ga = _lib_normal(mod.func("LayoutSwapper.getAxes"))
        params = [a.arg for a in ga.args.args if a.arg != "self"]
        env = inline_locals(ga)
        rets = [n for n in ast.walk(ga) if isinstance(n, ast.Return) and n.value is not None]
        if len(params) == 2 and len(rets) == 1 and isinstance(rets[0].value, ast.Tuple) and len(rets[0].value.elts) == 2:
            import re
            for gi in (0, 1):
                g_, s_ = rets[0].value.elts[gi], rets[0].value.elts[1 - gi]
                gx = xsrc(g_, {k: v for k, v in env.items() if not (isinstance(s_, ast.Name) and k == s_.id)}).replace(" ", "")
                m_ = re.fullmatch(r"(\w+)\.dims_order\.index\((\w+)\.dims_order\[" + re.escape(src(s_)) + r"\]\)", gx)
                if m_ and {m_.group(1), m_.group(2)} == set(params):
                    conv = (params.index(m_.group(1)), params.index(m_.group(2)), gi, 1 - gi)
                    break
    cache["v"] = conv
    return conv


def _canonical_getaxes_calls(fn, conv):
    """`(x, y) = self.getAxes(A, B)` written in the reference convention `(gathered axis, scattered axis) = getAxes(gathered, scattered)`"""
    g_arg, s_arg, g_res, s_res = conv
    for n in ast.walk(fn):
        if isinstance(n, ast.Assign) and len(n.targets) == 1 and isinstance(n.targets[0], ast.Tuple) and len(n.targets[0].elts) == 2 \
                and isinstance(n.value, ast.Call) and isinstance(n.value.func, ast.Attribute) and n.value.func.attr == "getAxes" \
                and len(n.value.args) == 2 and not n.value.keywords:
            t, a = n.targets[0].elts, n.value.args
            n.targets[0].elts = [t[g_res], t[s_res]]
            n.value.args = [a[g_arg], a[s_arg]]


def manager_final(chk, o, bdesc, n, path, same):
    cm = dict(o.tok.attrs).get("self._current_manager")
    want = {repr(Sym("mgr", Sym("name", "dest_name"))), repr(Sym("mgr", Sym("step", n - 1)))}
    if same:
        want.add(repr(Sym("mgr", Sym("name", "source_name"))))
    # ASSUMPTIONS of a VIOLATED verdict: (1) `_current_manager` is a plain attribute that the followed routines assign (so `never
    # assigned on this path` is a fact about the path, not about where the analysis looked): when it is a property its getter is
    # evaluated in the exit state; when no assignment of it exists in the class the rule cannot tell where the state is kept;
    # (2) the path was followed completely; (3) the value is a handler identified by a layout name of the route
    why = None
    lost = bool(getattr(o, "lost", False))
    if cm is None:
        getter, writers = _manager_attribute(chk.mod(U.LAYOUT), "_current_manager")
        it = getattr(o, "interp", None)
        if getter is not None:
            rets = [r for r in ast.walk(getter) if isinstance(r, ast.Return) and r.value is not None]
            if len(rets) == 1 and it is not None and len([s_ for s_ in getter.body if not (isinstance(s_, ast.Expr) and isinstance(s_.value, ast.Constant))]) == 1:
                from ..bufflow import State
                cm = it.ev(rets[0].value, State(dict(o.env), o.tok), "LayoutSwapper._current_manager")
            if not isinstance(cm, Sym):
                cm, why = None, "`_current_manager` is a property whose getter could not be evaluated in the exit state"
        elif not writers:
            why = "no assignment of `self._current_manager` was found in LayoutSwapper or its base classes: where the current group is kept was not followed"
    ok = cm is not None and repr(cm) in want
    known = isinstance(cm, Sym) and cm.kind == "mgr" and isinstance(cm.arg, Sym) and cm.arg.kind in ("name", "step")
    decided = ok or (why is None and not lost and (cm is None or known))
    chk.ob("M1-current-manager", None, f"LayoutSwapper.transpose[{bdesc}; route length {n}; {path}]", ok if decided else None,
           "the current manager is the destination layout's handler at exit" if ok else
           (f"cannot decide: {why}" if why else
            f"_current_manager is {cm!r} at exit; nProcs/mpiCoords/nDistributedDirections would describe the wrong group" +
            ("" if decided else " (the path or the value was not followed completely: undecided)")),
           file=U.LAYOUT, func="LayoutSwapper.transpose")


def _manager_attribute(mod, attr):
    """(getter of a property `attr` of LayoutSwapper or a base class, or None; the assignments `self.<attr> = ...` in these classes)"""
    getter, writers = None, []
    todo, seen = [CLS], set()
    while todo:
        c = todo.pop()
        if c in seen or not mod.has(c):
            continue
        seen.add(c)
        cdef = mod.cls(c)
        todo += [src(b).split(".")[-1] for b in cdef.bases]
        for m in cdef.body:
            if isinstance(m, ast.FunctionDef):
                if m.name == attr and any(src(d) in ("property", "functools.cached_property", "cached_property") for d in m.decorator_list):
                    getter = getter or m
                writers += [n for n in ast.walk(m) if isinstance(n, (ast.Assign, ast.AugAssign, ast.AnnAssign)) and
                            any(src(t) == f"self.{attr}" for t in (n.targets if isinstance(n, ast.Assign) else [n.target]))]
            elif isinstance(m, ast.Assign) and any(src(t) == attr for t in m.targets) and isinstance(m.value, ast.Call) and src(m.value.func) == "property":
                getter = getter or (mod.func(f"{c}.{src(m.value.args[0])}") if m.value.args and mod.has(f"{c}.{src(m.value.args[0])}") else None)
    return getter, writers


# ------------------------------------------------------------------ getAxes ownership typing
def _layout_of_handler_expr(e, fn_env, handler_of):
    """self._managers[self._handlers[L.name]] -> 'L' ; Name h -> handler_of[h]"""
    if isinstance(e, ast.Name):
        return handler_of.get(e.id)
    if isinstance(e, ast.Subscript) and src(e.value) == "self._managers":
        k = e.slice
        if isinstance(k, ast.Subscript) and src(k.value) == "self._handlers":
            kk = k.slice
            if isinstance(kk, ast.Attribute) and kk.attr == "name" and isinstance(kk.value, ast.Name):
                return kk.value.id
            if isinstance(kk, ast.Name):
                return "name:" + kk.id
    return None


def _current_manager_dependent(mod, e):
    """text of the part of an expression that reads the swapper's current manager (directly, or through a property of the swapper
    whose getter reads it), else None"""
    for n in ast.walk(e):
        if isinstance(n, ast.Attribute) and isinstance(n.value, ast.Name) and n.value.id == "self":
            if n.attr == "_current_manager":
                return "`self._current_manager`"
            qp = f"{CLS}.{n.attr}"
            if mod.has(qp):
                try:
                    g = mod.func(qp)
                except Exception:
                    continue
                if any(src(d) == "property" for d in g.decorator_list) and \
                        any(isinstance(x, ast.Attribute) and src(x) == "self._current_manager" for x in ast.walk(g)):
                    return f"`self.{n.attr}` (a property that answers for `self._current_manager`)"
    return None


def axes_ownership(chk, mod, q):
    rel = mod.rel
    fn = view_of(chk, mod, q)
    chk.functions.add(f"{rel}:{q}")
    # handler variables -> layout variables (h1 = self._managers[self._handlers[name1]]; l1 = h1.getLayout(name1);
    # h = self._managers[self._handlers[L.name]])
    handler_of = {}
    for n in ast.walk(fn):
        if isinstance(n, ast.Assign) and isinstance(n.targets[0], ast.Name):
            t = n.targets[0].id
            v = n.value
            if isinstance(v, ast.Call) and isinstance(v.func, ast.Attribute) and v.func.attr == "getLayout" \
                    and isinstance(v.func.value, ast.Name):
                handler_of[v.func.value.id] = t
            L = _layout_of_handler_expr(v, None, {}) if isinstance(v, ast.Subscript) else None
            if L and not L.startswith("name:"):
                handler_of[t] = L
    # ndims variables -> layout
    nd_of = {}
    for n in ast.walk(fn):
        if isinstance(n, ast.Assign) and isinstance(n.targets[0], ast.Name) and isinstance(n.value, ast.Attribute) \
                and n.value.attr == "nDistributedDirections":
            L = _layout_of_handler_expr(n.value.value, None, handler_of)
            if L:
                nd_of[n.targets[0].id] = L
    # the arm (local copy / scatter / gather) is selected from the two ARGUMENTS: a count read from the swapper's current manager is
    # state left by the previous transpose, not a property of the layout the caller passes
    stale = {}
    for n in ast.walk(fn):
        if isinstance(n, ast.Assign) and len(n.targets) == 1 and isinstance(n.targets[0], ast.Name) and n.targets[0].id not in nd_of:
            dep = _current_manager_dependent(mod, n.value)
            if dep:
                stale[n.targets[0].id] = (n, dep)
    tied = any(isinstance(x, (ast.Assert, ast.If)) and "_current_manager" in src(x.test) and
               ("_handlers" in src(x.test) or "layout_source" in src(x.test)) for x in ast.walk(fn))
    if q in STEP:
        sel = []
        for n in ast.walk(fn):
            if isinstance(n, ast.If) and isinstance(n.test, ast.Compare) and len(n.test.ops) == 1:
                sides = [n.test.left, n.test.comparators[0]]
                kinds = []
                for x in sides:
                    if isinstance(x, ast.Name) and x.id in nd_of:
                        kinds.append(("arg", nd_of[x.id], x.id))
                    elif isinstance(x, ast.Name) and x.id in stale:
                        kinds.append(("state", stale[x.id][1], x.id))
                    elif _current_manager_dependent(mod, x):
                        kinds.append(("state", _current_manager_dependent(mod, x), src(x)))
                    else:
                        kinds.append(None)
                if all(kinds) :
                    sel.append((n, kinds))
        # ASSUMPTION of the diagnosis: nothing in the routine establishes that the current manager IS the handler of the layout passed
        # in (an assert / test that mentions both): then the state read is the argument's own count
        tied = any(isinstance(x, (ast.Assert, ast.If)) and "_current_manager" in src(x.test) and
                   ("_handlers" in src(x.test) or "layout_source" in src(x.test)) for x in ast.walk(fn))
        for n, kinds in sel:
            st_ = [k for k in kinds if k[0] == "state"]
            if st_:
                other = [k for k in kinds if k[0] == "arg"]
                chk.ob("M2-arm-selection", n, "if " + src(n.test)[:80], None if tied else False,
                       f"the arm is selected by comparing `{st_[0][2]}` = {st_[0][1]} with the count of "
                       f"{'`' + other[0][1] + '`' + chr(39) + 's handler' if other else 'the other side'}: that is the number of distributed directions of the "
                       "swapper's CURRENT manager (set by the previous transpose), not of the handler that owns `layout_source`/`layout_dest`. The "
                       "caller may pass any valid copy as the source (a transpose with a spare buffer leaves the source intact; Grid restores a "
                       "saved copy): when its group differs from the current manager's the wrong arm (local copy instead of scatter/gather) runs "
                       "and the move fails or mis-shapes the data", file=rel, func=q)
            else:
                chk.ob("M2-arm-selection", n, "if " + src(n.test)[:80], {k[1] for k in kinds} == {"layout_source", "layout_dest"} or None,
                       "the arm is selected by comparing the numbers of distributed directions of the handlers owning the two layouts passed in",
                       file=rel, func=q)
    n_calls = 0
    for call in [c for c in ast.walk(fn) if isinstance(c, ast.Call) and isinstance(c.func, ast.Attribute)
                 and c.func.attr == "getAxes"]:
        n_calls += 1
        st = call
        while not isinstance(st, ast.stmt):
            st = parent(st)
        if not (isinstance(st, ast.Assign) and isinstance(st.targets[0], ast.Tuple) and len(st.targets[0].elts) == 2
                and len(call.args) == 2 and all(isinstance(a, ast.Name) for a in call.args)):
            chk.ob("A1-getaxes-call-shape", call, src(st)[:100], None, "getAxes call is not `(a, b) = self.getAxes(G, S)`",
                   file=rel, func=q)
            continue
        G, S = call.args[0].id, call.args[1].id
        ig, is_ = [e.id if isinstance(e, ast.Name) else None for e in st.targets[0].elts]
        # which side is more distributed according to the enclosing guards
        larger = None
        facts = []
        for test, pol, kind in guards_of(st):
            if isinstance(test, ast.Compare) and len(test.ops) == 1 and isinstance(test.left, ast.Name) \
                    and isinstance(test.comparators[0], ast.Name):
                a, b = test.left.id, test.comparators[0].id
                if a in nd_of and b in nd_of:
                    facts.append((type(test.ops[0]).__name__, nd_of[a], nd_of[b], pol))
        for op, a, b, pol in facts:
            if (op == "Gt" and pol) or (op == "LtE" and not pol):
                larger = a
            elif (op == "Lt" and pol) or (op == "GtE" and not pol):
                larger = b
        if larger is None:
            neq = [(a, b) for op, a, b, pol in facts if (op == "Eq" and not pol) or (op == "NotEq" and pol)]
            ngt = [(a, b) for op, a, b, pol in facts if (op == "Gt" and not pol) or (op == "LtE" and pol)]
            nlt = [(a, b) for op, a, b, pol in facts if (op == "Lt" and not pol) or (op == "GtE" and pol)]
            # not (a > b) and a != b  =>  b larger ;  not (a < b) and a != b  =>  a larger
            for (a, b) in ngt:
                if (a, b) in neq or (b, a) in neq:
                    larger = b
            for (a, b) in nlt:
                if larger is None and ((a, b) in neq or (b, a) in neq):
                    larger = a
        ok = larger is not None and larger == S
        chk.ob("A1-getaxes-role-order", call, src(st)[:100], ok if larger is not None else None,
               f"scattered argument `{S}` is the more distributed layout under the enclosing guard" if ok else
               (f"the enclosing guard makes `{larger}` the more distributed layout but `{S}` is passed as the scattered one"
                if larger is not None else "cannot derive from the enclosing guards which layout is more distributed"),
               file=rel, func=q, facts={"guards": [str(f) for f in facts]})
        # ownership of the two results
        owners = {ig: G, is_: S}
        block = parent(st)
        body = None
        for f in ("body", "orelse"):
            if any(x is st for x in getattr(block, f, [])):
                body = getattr(block, f)
        if body is None:
            continue
        after = body[[i for i, x in enumerate(body) if x is st][0] + 1:]
        rebound = set()
        for s2 in after:
            # ASSUMPTION: the name still holds the axis getAxes returned (a later binding of the same name ends its ownership)
            for n in ast.walk(s2):
                if not (isinstance(n, ast.Name) and isinstance(n.ctx, ast.Load) and n.id in owners and n.id not in rebound):
                    continue
                p = parent(n)
                cont = None
                if isinstance(p, ast.Subscript) and p.slice is n:
                    c = p.value
                    if isinstance(c, ast.Attribute) and c.attr == "communicators":
                        # <handler>.communicators[idx]: communicators only exist on the scattered side for the changed direction
                        L = _layout_of_handler_expr(c.value, None, handler_of)
                        dep = _current_manager_dependent(mod, expand(c.value, {k_: v_ for k_, v_ in inline_locals(fn).items()})) if L is None else None
                        if dep and not tied:
                            # ASSUMPTION: nothing in the routine ties the current manager to the handler of the layout passed in (`tied`)
                            chk.ob("A1-index-ownership", n, src(enclosing(n))[:110], False,
                                   f"the communicator is taken from {dep} - the group recorded by the PREVIOUS transpose - but it is indexed by `{n.id}`, the axis "
                                   f"getAxes returned for the handler that owns `{owners[n.id]}`: the caller may pass any valid copy as the source (a transpose "
                                   "with a spare buffer leaves the source intact; Grid restores a saved copy), and when its group is not the current one the "
                                   "index addresses another group's communicator list (wrong communicator, or IndexError): the collective runs over the wrong "
                                   "processes", file=rel, func=q)
                            continue
                        okc, oks = (L == owners[n.id]), (owners[n.id] == S)
                        chk.ob("A1-index-ownership", n, src(enclosing(n))[:110], (okc and oks) if L is not None else None,
                               f"communicator of `{L}`'s handler indexed by the axis getAxes returned for `{owners[n.id]}`"
                               + ("" if okc and oks else " - index belongs to the other layout / the gathered side has no such communicator")
                               if L is not None else f"cannot identify the layout whose handler `{src(c.value)[:40]}` is",
                               file=rel, func=q)
                        continue
                    if isinstance(c, ast.Attribute) and isinstance(c.value, ast.Name):
                        cont = c.value.id
                    elif isinstance(c, ast.Name):
                        cont = _list_owner(fn, c.id, n.lineno)
                elif isinstance(p, ast.Call) and any(a is n for a in p.args) and isinstance(p.func, ast.Attribute) \
                        and p.func.attr in ("mpi_starts", "mpi_lengths") and isinstance(p.func.value, ast.Name):
                    cont = p.func.value.id
                else:
                    continue
                if cont is None or cont not in (G, S):
                    chk.ob("A1-index-ownership", n, src(enclosing(n))[:110], None,
                           f"cannot identify the layout that `{src(p)[:40]}` belongs to", file=rel, func=q)
                    continue
                ok2 = cont == owners[n.id]
                chk.ob("A1-index-ownership", n, src(enclosing(n))[:110], ok2,
                       f"`{n.id}` (axis of `{owners[n.id]}`) indexes a table of `{cont}`" +
                       ("" if ok2 else " - the index was computed for the other layout"), file=rel, func=q)
            rebound |= {x.id for x in ast.walk(s2) if isinstance(x, ast.Name) and isinstance(x.ctx, ast.Store) and x.id in owners}
    return n_calls


def _list_owner(fn, name, lineno, depth=0):
    """layout variable whose .shape a list variable was derived from (following list-to-list derivations)"""
    import re
    best = None
    for nn in ast.walk(fn):
        if isinstance(nn, ast.Assign) and isinstance(nn.targets[0], ast.Name) and nn.targets[0].id == name \
                and nn.lineno <= lineno:
            if best is None or nn.lineno > best.lineno:
                best = nn
    if best is None or depth > 4:
        return None
    vs = src(best.value)
    m = re.search(r"(\w+)\.shape", vs)
    if m:
        return m.group(1)
    for other in re.findall(r"\b([A-Za-z_]\w*)\b", vs):
        if other != name and other not in ("slice", "list", "for", "in", "x", "n", "tuple"):
            o = _list_owner(fn, other, best.lineno, depth + 1)
            if o:
                return o
    return None


def enclosing(n):
    while not isinstance(n, ast.stmt):
        n = parent(n)
    return n


# ------------------------------------------------------------------ symbolic reading of the gather / scatter arms
# The statements of an arm are substituted forward into one another (no value is computed): every local becomes an expression over
# the parameters (source, dest, buf, layout_source, layout_dest), the two axes returned by getAxes and the rank index of the
# unpack loop.  The Allgather call and the array stores are then compared with the specification, whatever temporaries, slicing
# idiom (np.split(x, [n])[0] / x[:n]) or loop form the code uses.
class Unknown(Exception):
    pass


class Buf:
    """elements [lo, hi) of the flat array `root` (a parameter)"""

    def __init__(self, root, lo, hi):
        self.root, self.lo, self.hi = root, lo, hi

    def __repr__(self):
        return f"{self.root}[{self.lo}:{self.hi}]"


class Whole:
    """a whole parameter array"""

    def __init__(self, root):
        self.root = root

    def __repr__(self):
        return self.root


class Pieces:
    """np.split(root, B*arange(1, m+1)): piece i is root[B*i : B*(i+1)] for i < m, plus the remainder"""

    def __init__(self, root, B, m, drop_last=False):
        self.root, self.B, self.m, self.drop_last = root, B, m, drop_last


class SL:
    """list(L.shape) / [slice(x) for x in L.shape] with overridden entries (position text -> value)"""

    def __init__(self, layout, kind, over=None, wrapped=None):
        self.layout, self.kind, self.over, self.wrapped = layout, kind, dict(over or {}), wrapped

    def copy(self):
        return SL(self.layout, self.kind, self.over, self.wrapped)

    def key(self):
        return (self.layout, self.kind, tuple(sorted((k, str(v)) for k, v in self.over.items())))

    def __repr__(self):
        o = ", ".join(f"[{k}]={v}" for k, v in sorted(self.over.items()))
        return f"{'shape' if self.kind == 'shape' else 'slices'}({self.layout}{'; ' + o if o else ''})"


class SliceV:
    def __init__(self, lo, hi):
        self.lo, self.hi = lo, hi

    def __repr__(self):
        return f"slice({self.lo}, {self.hi})"


class View:
    def __init__(self, buf, shape):
        self.buf, self.shape = buf, shape

    def __repr__(self):
        return f"{self.buf}.reshape({self.shape})"


class SubV:
    def __init__(self, view, slices):
        self.view, self.slices = view, slices

    def __repr__(self):
        return f"{self.view}[{self.slices}]"


class Tr:
    def __init__(self, x, perm):
        self.x, self.perm = x, perm


class Opaque:
    def __init__(self, text):
        self.text = text


CARRIED = "<value of the previous iteration>"


class SymArm:
    def __init__(self, fn, arrays=("source", "dest", "buf")):
        import sympy
        self.sp = sympy
        self.fn = fn
        self.env = {a.arg: Whole(a.arg) for a in fn.args.args if a.arg in arrays}
        self.literal = {a.arg for a in fn.args.args} | {"self", "np", "MPI"}
        self.axes_calls = []      # (gathered arg, scattered arg, node)
        self.gathers = []         # (call node, send spec, recv spec, comm text)
        self.stores = []          # (stmt, target value, rhs value, loop info or None)
        self.loop = None          # (trip count, node) while inside the unpack loop
        self.conds = []           # `if` statements met inside the arm
        self.path_vals = []       # (comparison, polarity assumed, value of the left side, value of the right side) of the resolved tests
        self.notes = []

    # -------------------------------------------------------------- scalars
    def atom(self, text):
        return self.sp.Symbol(text.replace(" ", ""), integer=True)

    def ctext(self, e):
        """source of e with the locals replaced by what they stand for"""
        arm = self

        class S(ast.NodeTransformer):
            def visit_Name(self, node):
                if node.id in arm.env:
                    v = arm.env[node.id]
                    if isinstance(v, arm.sp.Basic):
                        t = str(v)
                        try:
                            new = ast.parse(t, mode="eval").body
                        except SyntaxError:
                            raise Unknown(f"`{node.id}`")
                        return new
                    if isinstance(v, Whole):
                        return ast.Name(id=v.root, ctx=ast.Load())
                    if isinstance(v, Opaque):
                        return ast.parse(v.text, mode="eval").body
                    raise Unknown(f"`{node.id}` is not a number or a name here")
                if node.id in arm.literal or node.id in ("len", "range", "slice", "list", "tuple", "int", "max", "min"):
                    return node
                raise Unknown(f"name `{node.id}` has no single definition on this path")
        new = S().visit(ast.parse(ast.unparse(e), mode="eval").body)
        return ast.unparse(new)

    def sval(self, e):
        sp = self.sp
        if isinstance(e, ast.Constant) and isinstance(e.value, int) and not isinstance(e.value, bool):
            return sp.Integer(e.value)
        if isinstance(e, ast.Name):
            v = self.env.get(e.id)
            if isinstance(v, sp.Basic):
                return v
            if v is None and e.id in self.literal:
                return self.atom(e.id)
            raise Unknown(f"`{e.id}` is not a number on this path")
        if isinstance(e, ast.BinOp) and isinstance(e.op, (ast.Add, ast.Sub, ast.Mult)):
            a, b = self.sval(e.left), self.sval(e.right)
            return sp.expand(a + b if isinstance(e.op, ast.Add) else a - b if isinstance(e.op, ast.Sub) else a * b)
        if isinstance(e, ast.UnaryOp) and isinstance(e.op, ast.USub):
            return -self.sval(e.operand)
        if isinstance(e, ast.Call) and src(e.func) in ("np.prod", "numpy.prod") and len(e.args) == 1:
            L = self.val(e.args[0])
            if isinstance(L, SL) and L.kind == "shape":
                if any(v == CARRIED for v in L.over.values()):
                    raise Unknown("a shape list entry set in the previous loop iteration")
                return self.atom("prod(" + repr(L) + ")")
            raise Unknown(f"`{src(e)[:40]}`")
        if isinstance(e, ast.Attribute) and isinstance(e.value, ast.Name) and e.attr == "size" and isinstance(self.env.get(e.value.id), View):
            raise Unknown(f"`{src(e)}`")
        return self.atom(self.ctext(e))

    # -------------------------------------------------------------- arrays, lists
    def prefix(self, base, lo, hi):
        """base[lo:hi] (indices relative to base; None = open end); clipping at the end of base is not modelled: the rules assume a
        cut never exceeds the buffer it is taken from (true block <= padded block, P2-max-block)"""
        sp = self.sp
        lo = sp.Integer(0) if lo is None else lo
        if isinstance(base, Whole):
            return Buf(base.root, lo, hi)
        if isinstance(base, Buf):
            return Buf(base.root, sp.expand(base.lo + lo), sp.expand(base.lo + hi) if hi is not None else base.hi)
        raise Unknown("slice of something that is not a flat buffer")

    def val(self, e):
        sp = self.sp
        if isinstance(e, ast.Name):
            if e.id in self.env:
                v = self.env[e.id]
                if v is CARRIED:
                    raise Unknown(f"`{e.id}` is carried over from the previous loop iteration")
                return v
            raise Unknown(f"`{e.id}` has no single definition on this path")
        if isinstance(e, ast.Attribute) and e.attr == "shape" and isinstance(e.value, ast.Name) and e.value.id in ("layout_source", "layout_dest"):
            return SL(e.value.id, "shape")
        if isinstance(e, ast.Call):
            f = src(e.func)
            if f in ("list", "tuple", "np.array") and len(e.args) == 1:
                v = self.val(e.args[0])
                if isinstance(v, SL):
                    return v.copy()
                raise Unknown(f"`{src(e)[:40]}`")
            if f == "slice" and 1 <= len(e.args) <= 2:
                lo = self.sval(e.args[0]) if len(e.args) == 2 else sp.Integer(0)
                return SliceV(lo, self.sval(e.args[-1]))
            if f in ("np.split", "numpy.split") and len(e.args) == 2 and all(k.arg == "axis" and src(k.value) == "0" for k in e.keywords):
                base = self.val(e.args[0])
                cut = e.args[1]
                if isinstance(cut, ast.List) and len(cut.elts) == 1:
                    return ("split1", base, self.sval(cut.elts[0]))
                if isinstance(cut, ast.BinOp) and isinstance(cut.op, ast.Mult):
                    for a, b in ((cut.left, cut.right), (cut.right, cut.left)):
                        if isinstance(b, ast.Call) and src(b.func) in ("np.arange", "numpy.arange") and len(b.args) == 2 and src(b.args[0]) == "1":
                            m1 = self.sval(b.args[1])
                            return Pieces(base, self.sval(a), sp.expand(m1 - 1))
                raise Unknown(f"`{src(e)[:50]}`")
            if f in ("np.transpose", "numpy.transpose") and len(e.args) == 2:
                return Tr(self.val(e.args[0]), self.perm(e.args[1]))
            if isinstance(e.func, ast.Attribute) and e.func.attr == "transpose" and len(e.args) == 1:
                return Tr(self.val(e.func.value), self.perm(e.args[0]))
            if isinstance(e.func, ast.Attribute) and e.func.attr == "reshape" and (len(e.args) == 2 or (len(e.args) == 1 and isinstance(e.args[0], (ast.Tuple, ast.List))
                                                                                                       and len(e.args[0].elts) == 2)) and not e.keywords:
                # a flat cut of m x B elements viewed as m rows of B: row i is the chunk [B i, B (i+1)) (C order)
                base = self.val(e.func.value)
                m_e, b_e = e.args if len(e.args) == 2 else e.args[0].elts
                if isinstance(base, (Buf, Whole)):
                    m_, b_ = self.sval(m_e), self.sval(b_e)
                    if isinstance(base, Buf) and base.hi is not None and _eq(sp.expand(base.hi - base.lo), sp.expand(m_ * b_)):
                        return Pieces(base, b_, m_, drop_last=True)
                raise Unknown(f"`{src(e)[:50]}`")
            if isinstance(e.func, ast.Attribute) and e.func.attr == "reshape" and len(e.args) == 1:
                base = self.val(e.func.value)
                shp = self.val(e.args[0])
                if isinstance(base, (Buf, Whole)) and isinstance(shp, SL) and shp.kind == "shape":
                    if any(v == CARRIED for v in shp.over.values()):
                        raise Unknown("a shape list entry set in the previous loop iteration")
                    return View(base, shp.copy())
                raise Unknown(f"`{src(e)[:50]}`")
            raise Unknown(f"`{src(e)[:50]}`")
        if isinstance(e, ast.ListComp) and len(e.generators) == 1 and not e.generators[0].ifs and isinstance(e.generators[0].target, ast.Name) \
                and isinstance(e.elt, ast.Subscript) and isinstance(e.elt.slice, ast.Slice) and e.elt.slice.step is None \
                and e.elt.slice.lower is not None and e.elt.slice.upper is not None and isinstance(e.generators[0].iter, ast.Call) \
                and src(e.generators[0].iter.func) == "range" and len(e.generators[0].iter.args) == 1:
            # [x[j*B:(j+1)*B] for j in range(m)]: the m chunks of B elements
            g = e.generators[0]
            base = self.val(e.elt.value)
            m_ = self.sval(g.iter.args[0])
            saved = self.env.get(g.target.id)
            j = self.atom("<j>")
            self.env[g.target.id] = j
            try:
                lo, hi = self.sval(e.elt.slice.lower), self.sval(e.elt.slice.upper)
            finally:
                if saved is None:
                    self.env.pop(g.target.id, None)
                else:
                    self.env[g.target.id] = saved
            B_ = sp.expand(hi - lo)
            if isinstance(base, (Whole, Buf)) and j not in B_.free_symbols and _eq(lo, j * B_):
                return Pieces(base, B_, m_, drop_last=True)
            raise Unknown(f"`{src(e)[:50]}`")
        if isinstance(e, ast.ListComp) and len(e.generators) == 1 and not e.generators[0].ifs and isinstance(e.generators[0].target, ast.Name):
            g = e.generators[0]
            t = g.target.id
            if isinstance(e.elt, ast.Call) and src(e.elt.func) == "slice" and not e.elt.keywords and \
                    ((len(e.elt.args) == 1 and src(e.elt.args[0]) == t) or
                     (len(e.elt.args) in (2, 3) and src(e.elt.args[0]) == "0" and src(e.elt.args[1]) == t and
                      (len(e.elt.args) == 2 or src(e.elt.args[2]) in ("1", "None")))):
                it = self.val(g.iter)
                if isinstance(it, SL) and it.kind == "shape":
                    out = SL(it.layout, "slices", {k: SliceV(sp.Integer(0), v) for k, v in it.over.items()})
                    out.wrapped = it.copy() if it.over else None
                    return out
            raise Unknown(f"`{src(e)[:50]}`")
        if isinstance(e, ast.Subscript):
            sl = e.slice
            if isinstance(sl, ast.Slice) and sl.step is None:
                base = self.val(e.value)
                if isinstance(base, (View, SubV)) and sl.lower is None and sl.upper is None:
                    return base
                lo = self.sval(sl.lower) if sl.lower is not None else None
                hi = self.sval(sl.upper) if sl.upper is not None else None
                if isinstance(base, Pieces) and lo is None and hi == -1:
                    return Pieces(base.root, base.B, base.m, drop_last=True)
                if isinstance(base, (Whole, Buf)):
                    if lo is None and hi is None:
                        return base
                    return self.prefix(base, lo, hi)
                raise Unknown(f"`{src(e)[:50]}`")
            base = self.val(e.value)
            if isinstance(base, tuple) and base[0] == "split1" and src(sl) == "0":
                return self.prefix(base[1], None, base[2])
            if isinstance(base, View):
                inner = sl.args[0] if isinstance(sl, ast.Call) and src(sl.func) == "tuple" and len(sl.args) == 1 else sl
                s_ = self.val(inner)
                if isinstance(s_, SL) and s_.kind == "slices":
                    if any(v == CARRIED for v in s_.over.values()):
                        raise Unknown("a slice list entry set in the previous loop iteration")
                    return SubV(base, s_.copy())
            raise Unknown(f"`{src(e)[:50]}`")
        raise Unknown(f"`{src(e)[:50]}`")

    def perm(self, e):
        from ..core import same_expr
        x = e
        if isinstance(e, ast.Name) and isinstance(self.env.get(e.id), Opaque):
            x = ast.parse(self.env[e.id].text, mode="eval").body
        if same_expr(x, "[layout_source.dims_order.index(i) for i in layout_dest.dims_order]", vars=("i",)):
            return "source->dest"
        return "other:" + src(x)[:60]

    # -------------------------------------------------------------- statements
    def run(self, stmts):
        for st in stmts:
            self.stmt(st)

    def bind(self, name, e):
        try:
            if isinstance(e, ast.ListComp) and ".index(" in src(e):
                self.env[name] = Opaque(self.ctext_comp(e))
                return
            try:
                self.env[name] = self.val(e)
            except Unknown:
                self.env[name] = self.sval(e)
        except Unknown:
            self.env.pop(name, None)

    def ctext_comp(self, e):
        return ast.unparse(e)

    def stmt(self, st):
        sp = self.sp
        if isinstance(st, ast.Expr) and isinstance(st.value, ast.Constant):
            return
        if getattr(st, "_path_test", None) is not None:
            test, pol = st._path_test
            for c_ in ast.walk(test):
                if isinstance(c_, ast.Compare) and len(c_.ops) == 1:
                    try:
                        self.path_vals.append((c_, pol, self.sval(c_.left), self.sval(c_.comparators[0])))
                    except Unknown:
                        pass
            return
        if isinstance(st, (ast.Assert, ast.Pass)):
            return
        if id(st) in getattr(self, "_induct", {}):
            x, nxt = self._induct[id(st)]
            if nxt is None:
                from ..core import increment_of
                try:
                    self.running = dict(getattr(self, "running", {}))
                    self.running[x] = self.sval(increment_of(st)[1])
                except Unknown:
                    pass
                self.env.pop(x, None)
            else:
                self.env[x] = nxt
            return
        if isinstance(st, ast.Assign) and len(st.targets) == 1:
            t, v = st.targets[0], st.value
            if isinstance(t, ast.Name):
                self.bind(t.id, v)
                return
            if isinstance(t, ast.Tuple) and all(isinstance(x, ast.Name) for x in t.elts):
                if isinstance(v, ast.Call) and isinstance(v.func, ast.Attribute) and v.func.attr == "getAxes" and len(v.args) == 2 and len(t.elts) == 2:
                    g, s_ = src(v.args[0]), src(v.args[1])
                    self.axes_calls.append((g, s_, st))
                    names = {"layout_source": "idx_s", "layout_dest": "idx_d"}
                    if {g, s_} == set(names):
                        self.env[t.elts[0].id] = self.atom(names[g])
                        self.env[t.elts[1].id] = self.atom(names[s_])
                        self.axes_order = (g, s_)
                        return
                if isinstance(v, ast.Tuple) and len(v.elts) == len(t.elts):
                    vals = []
                    for x in v.elts:
                        try:
                            vals.append(self.val(x))
                        except Unknown:
                            try:
                                vals.append(self.sval(x))
                            except Unknown:
                                vals.append(None)
                    for x, w in zip(t.elts, vals):
                        if w is None:
                            self.env.pop(x.id, None)
                        else:
                            self.env[x.id] = w
                    return
                for x in t.elts:
                    self.env.pop(x.id, None)
                return
            if isinstance(t, ast.Subscript) and isinstance(t.value, ast.Name) and isinstance(self.env.get(t.value.id), SL):
                L = self.env[t.value.id]
                try:
                    k = str(self.sval(t.slice))
                    try:
                        w = self.val(v)
                        if not isinstance(w, SliceV):
                            raise Unknown("")
                    except Unknown:
                        w = self.sval(v)
                    L.over[k] = w
                except Unknown as u:
                    self.env.pop(t.value.id, None)
                    self.notes.append(f"`{src(st)[:60]}`: {u}")
                return
            if isinstance(t, ast.Subscript):
                try:
                    tv = self.val(t)
                except Unknown as u:
                    tv = None
                    why_t = str(u)
                try:
                    rv = self.val(v)
                except Unknown as u:
                    rv = None
                    why_r = str(u)
                if tv is None and rv is None and not isinstance(self.env.get(getattr(t.value, "id", None)), (View, Whole, Buf)):
                    return
                self.stores.append((st, tv, rv, self.loop))
                if tv is None:
                    self.notes.append(f"target of `{src(st)[:60]}`: {why_t}")
                if rv is None:
                    self.notes.append(f"value of `{src(st)[:60]}`: {why_r}")
                return
            return
        if isinstance(st, ast.Expr) and isinstance(st.value, ast.Call) and isinstance(st.value.func, ast.Attribute) \
                and st.value.func.attr in ("Allgather", "Gather", "Allgatherv", "allgather", "gather"):
            c = st.value
            try:
                comm = self.ctext(c.func.value)
            except Unknown:
                comm = None
            specs = []
            for a in c.args[:2]:
                if isinstance(a, (ast.Tuple, ast.List)) and a.elts:
                    try:
                        b = self.val(a.elts[0])
                    except Unknown as u:
                        b = None
                        self.notes.append(f"buffer `{src(a.elts[0])[:40]}` of the gather: {u}")
                    specs.append((b, [src(x) for x in a.elts[1:]], a))
                else:
                    try:
                        b = self.val(a)
                    except Unknown:
                        b = None
                    specs.append((b, None, a))
            self.gathers.append((c, specs, comm))
            return
        if isinstance(st, ast.For) and not st.orelse:
            it = st.iter
            trip = None
            saved = None
            try:
                if isinstance(it, ast.Call) and src(it.func) == "enumerate" and len(it.args) == 1 and isinstance(st.target, ast.Tuple) \
                        and len(st.target.elts) == 2 and all(isinstance(x, ast.Name) for x in st.target.elts):
                    try:
                        P = self.val(it.args[0])
                    except Unknown:
                        P = None
                    if isinstance(P, Pieces):
                        i = self.atom("i")
                        trip = P.m if P.drop_last else P.m + 1
                        self.env[st.target.elts[0].id] = i
                        self.env[st.target.elts[1].id] = self.prefix(P.root, sp.expand(P.B * i), sp.expand(P.B * i + P.B))
                elif isinstance(it, ast.Call) and src(it.func) == "range" and len(it.args) == 1 and isinstance(st.target, ast.Name):
                    trip = self.sval(it.args[0])
                    self.env[st.target.id] = self.atom("i")
                if trip is None:
                    trip = self.table_loop(st)
            except Unknown:
                trip = None
            if trip is None:
                self.havoc(st)
                self.notes.append(f"loop `for {src(st.target)} in {src(st.iter)[:40]}` not recognised as a loop over the ranks")
                return
            # what the body rebinds is unknown at the top of an iteration until it is bound again - except a running total that is
            # advanced by a loop-invariant amount once in every iteration: its value in iteration i is known in closed form
            tgt_names = {x.id for x in ast.walk(st.target) if isinstance(x, ast.Name)}
            induct = self.induction_variables(st, tgt_names)
            for n in ast.walk(ast.Module(body=st.body, type_ignores=[])):
                if isinstance(n, ast.Name) and isinstance(n.ctx, ast.Store) and n.id not in tgt_names and n.id in self.env and n.id not in induct:
                    self.env[n.id] = CARRIED
            for x, (c0, c, inc_st) in induct.items():
                self.env[x] = sp.expand(c0 + self.atom("i") * c) if c is not None else sp.expand(c0 + self.atom(f"running_total({x})"))
            self._induct = dict(getattr(self, "_induct", {}))
            for x, (c0, c, inc_st) in induct.items():
                self._induct[id(inc_st)] = (x, sp.expand(c0 + (self.atom("i") + 1) * c) if c is not None else None)
            for n in st.body:
                for s_ in ast.walk(n):
                    if isinstance(s_, ast.Assign) and isinstance(s_.targets[0], ast.Subscript) and isinstance(s_.targets[0].value, ast.Name) \
                            and isinstance(self.env.get(s_.targets[0].value.id), SL):
                        try:
                            self.env[s_.targets[0].value.id].over[str(self.sval(s_.targets[0].slice))] = CARRIED
                        except Unknown:
                            self.env.pop(s_.targets[0].value.id, None)
            outer = self.loop
            self.loop = (trip, st)
            self.run(st.body)
            self.loop = outer
            self.havoc(st, keep_lists=True)
            for x, (c0, c, inc_st) in induct.items():
                if c is not None:
                    self.env[x] = sp.expand(c0 + trip * c)
                else:
                    self.env.pop(x, None)
            return
        if isinstance(st, ast.If):
            self.conds.append(st)
            self.havoc(st)
            return
        if isinstance(st, ast.Return):
            return
        self.havoc(st)

    def table_loop(self, st):
        """`for a, b in zip(T1, T2)` / `for k, (a, b) in enumerate(zip(T1, T2))` / `for a in T` over per-rank tables of a layout: the
        element names stand for `T[i]`; -> trip count (the number of ranks along that axis), or None"""
        from .C01 import loop_index
        import re
        idx, elems = loop_index(st)
        if not elems:
            return None
        trips = set()
        piece_trips = []
        bound = {}
        i = self.atom("i")
        for nm, seq in elems.items():
            # the received chunks (one per rank), as np.split pieces or as the rows of a (ranks x block) view
            try:
                P = self.val(seq)
            except Unknown:
                P = None
            if isinstance(P, Pieces):
                bound[nm] = self.prefix(P.root, self.sp.expand(P.B * i), self.sp.expand(P.B * i + P.B))
                piece_trips.append(P.m if P.drop_last else P.m + 1)
                continue
            try:
                t = self.ctext(seq).replace(" ", "")
            except Unknown:
                return None
            m_ = re.fullmatch(r"(layout_source|layout_dest)\.(mpi_starts|mpi_lengths)\((\w+)\)", t)
            # the running total of the block lengths: entry i is the END of block i = start_i + length_i (the starts table is the
            # exclusive prefix sum of the lengths table: C02 P2-one-table)
            c_ = re.fullmatch(r"(?:np|numpy)\.cumsum\((layout_source|layout_dest)\.mpi_lengths\((\w+)\)\)", t)
            if m_:
                lay, ax = m_.group(1), m_.group(3)
                bound[nm] = self.atom(f"{t}[i]")
            elif c_:
                lay, ax = c_.group(1), c_.group(2)
                bound[nm] = self.sp.expand(self.atom(f"{lay}.mpi_starts({ax})[i]") + self.atom(f"{lay}.mpi_lengths({ax})[i]"))
            else:
                return None
            trips.add((lay, ax))
        if len(trips) > 1 or (not trips and not piece_trips):
            return None
        trip = None
        if trips:
            lay, ax = next(iter(trips))
            # one entry per rank of the communicator of that axis (how the tables are built: C02 P2-table-shape / P2-one-table)
            trip = self.atom(f"self._managers[self._handlers[{lay}.name]].communicators[{ax}].Get_size()")
        for pt in piece_trips:
            if trip is None:
                trip = pt
            elif not _eq(trip, pt):
                # zip stops at the shorter sequence; which one that is was not established
                return None
        self.env.update(bound)
        if idx is not None:
            self.env[idx] = i
        return trip

    def induction_variables(self, loop, tgt_names):
        """{x: (value before the loop, step, the statement that advances it)} for every local that is a number before the loop and whose
        only binding in the body is one `x += step` / `x = x + step` at the top level of the body, step not changed by the body, no
        `continue` before it"""
        from ..core import increment_of
        out = {}
        stored = {}
        for b_ in loop.body:
            for n in ast.walk(b_):
                if isinstance(n, ast.Name) and isinstance(n.ctx, ast.Store):
                    stored[n.id] = stored.get(n.id, 0) + 1
        for pos, b_ in enumerate(loop.body):
            inc = increment_of(b_) if isinstance(b_, (ast.Assign, ast.AugAssign)) else None
            if inc is None:
                continue
            x, step = inc
            if stored.get(x) != 1 or x in tgt_names or not isinstance(self.env.get(x), self.sp.Basic):
                continue
            if any(isinstance(n, (ast.Continue, ast.Break)) for prev in loop.body[:pos] for n in ast.walk(prev)):
                continue
            if any(isinstance(n, ast.Name) and n.id in stored for n in ast.walk(step)):
                # the amount changes from one iteration to the next: a running total, known only as such; the amount added in
                # iteration i is read when the statement is reached (self.running)
                out[x] = (self.env[x], None, b_)
                continue
            try:
                c = self.sval(step)
            except Unknown:
                continue
            out[x] = (self.env[x], c, b_)
        return out

    def havoc(self, st, keep_lists=False):
        for n in ast.walk(st):
            if isinstance(n, ast.Name) and isinstance(n.ctx, ast.Store):
                self.env.pop(n.id, None)
            if not keep_lists and isinstance(n, ast.Subscript) and isinstance(n.ctx, ast.Store) and isinstance(n.value, ast.Name):
                if isinstance(self.env.get(n.value.id), SL):
                    self.env.pop(n.value.id, None)


def arm_of(fn, node):
    """(statements before the arm on the path from the function entry, the arm's statements): the arm is the innermost
    block containing `node`"""
    path = []
    st = node
    while not isinstance(st, ast.stmt):
        st = parent(st)
    chain = []
    cur = st
    while cur is not fn and cur is not None:
        par = parent(cur)
        blk = None
        for f in ("body", "orelse", "finalbody"):
            b = getattr(par, f, None)
            if isinstance(b, list) and any(x is cur for x in b):
                blk = b
        if blk is None:
            return None
        chain.append((blk, cur))
        cur = par
    chain.reverse()
    # innermost block that is not a loop body
    k = len(chain) - 1
    while k > 0 and isinstance(parent(chain[k][1]), (ast.For, ast.While)):
        k -= 1
    prefix = []
    for blk, stmt_on_path in chain[:k]:
        for x in blk:
            if x is stmt_on_path:
                break
            prefix.append(x)
    return prefix, chain[k][0]


# ------------------------------------------------------------------ gather geometry
def _read_arm(fn, node):
    """SymArm after the statements on the path to, and of, the arm that contains `node`"""
    r = arm_of(fn, node)
    if r is None:
        return None
    prefix, arm = r
    A = SymArm(fn)
    A.run(prefix)
    A.conds, A.notes, A.stores, A.gathers = [], [], [], []
    A.run(arm)
    return A


def _path_marker(test, pol):
    """pseudo-statement standing where an `if` was resolved: the symbolic reader evaluates the two sides of its comparisons there"""
    m = ast.Pass()
    m._path_test = (test, pol)
    return m


def _linear_paths(stmts, limit=6):
    """the statement list with its top-level `if` statements resolved one way or the other: [([(test, polarity)], [statements])];
    None when there would be more than `limit` paths"""
    paths = [([], [])]
    for st in stmts:
        if isinstance(st, ast.If):
            arms = [(True, st.body), (False, st.orelse)]
            new = []
            for conds, done in paths:
                for pol, body in arms:
                    sub = _linear_paths(body, limit)
                    if sub is None:
                        return None
                    for c2, s2 in sub:
                        new.append((conds + [(st.test, pol)] + c2, done + [_path_marker(st.test, pol)] + s2))
            paths = new
            if len(paths) > limit:
                return None
        else:
            paths = [(c, d + [st]) for c, d in paths]
    return paths


def _read_arm_paths(fn, node):
    """one SymArm per way through the `if` statements of the arm that contains `node` (A.path = the tests assumed), or None"""
    r = arm_of(fn, node)
    if r is None:
        return None
    prefix, arm = r
    paths = _linear_paths(arm)
    if paths is None:
        paths = [([], arm)]
    out = []
    for conds, stmts in paths:
        A = SymArm(fn)
        A.run(prefix)
        A.conds, A.notes, A.stores, A.gathers = [], [], [], []
        A.run(stmts)
        A.path = conds
        out.append(A)
    return out


def _function_paths(stmts, limit=48):
    """every way through a statement list with its `if` statements resolved one way or the other and cut at a `return`/`raise`:
    [(conditions, statements, ended)]; None when there are more than `limit` ways (loops are kept as single statements)"""
    paths = [([], [], False)]
    for st in stmts:
        live = [p_ for p_ in paths if not p_[2]]
        done = [p_ for p_ in paths if p_[2]]
        if not live:
            break
        if isinstance(st, ast.If):
            new = []
            for pol, body in ((True, st.body), (False, st.orelse)):
                sub = _function_paths(body, limit)
                if sub is None:
                    return None
                for conds, sofar, _ in live:
                    for c2, s2, e2 in sub:
                        new.append((conds + [(st.test, pol)] + c2, sofar + s2, e2))
            paths = done + new
            if len(paths) > limit:
                return None
        elif isinstance(st, (ast.Return, ast.Raise)):
            paths = done + [(c, s_ + [st], True) for c, s_, _ in live]
        else:
            paths = done + [(c, s_ + [st], False) for c, s_, _ in live]
    return paths


def _consistent(conds):
    """no test is assumed both true and false along the path"""
    seen = {}
    for t, pol in conds:
        k = src(t)
        if seen.setdefault(k, pol) != pol:
            return False
    return True


def _read_paths_through(fn, node):
    """one SymArm per way through the function that executes the statement containing `node` (A.path = the tests assumed), or None"""
    paths = _function_paths(fn.body)
    if paths is None:
        return None
    out = []
    for conds, stmts, _ in paths:
        if not _consistent(conds):
            continue
        if not any(any(x is node for x in ast.walk(st)) for st in stmts):
            continue
        A = SymArm(fn)
        A.run(stmts)
        A.path = conds
        out.append(A)
    return out


def _path_text(A):
    return " and ".join(("" if pol else "not ") + "(" + src(t)[:60] + ")" for t, pol in getattr(A, "path", []))


def _eq(a, b):
    import sympy
    try:
        return sympy.expand(a - b) == 0
    except Exception:
        return False


def gather_geometry(chk, mod, q, recv_name):
    """Allgather of padded blocks; unpack with the sender's true block shape (symbolic reading of the gather arm)."""
    import sympy
    rel = mod.rel
    fn = view_of(chk, mod, q)
    rule = "G4-gather-geometry"
    what = ("every rank sends one block padded to max_block_shape along the scattered axis and receives communicator-size such "
            "blocks (uniform counts); the chunk of rank i is cut to and viewed with the sender's true block shape "
            "(mpi_lengths(idx_s)[i]) and placed at [start_i, start_i+len_i) of the source partition along the gathered axis")
    ag = [c for c in ast.walk(fn) if isinstance(c, ast.Call) and isinstance(c.func, ast.Attribute)
          and c.func.attr in ("Allgather", "Gather", "Allgatherv", "allgather", "gather")]
    if len(ag) != 1:
        chk.ob(rule, fn, f"gather arm of {q.split('.')[-1]}", None, f"expected exactly one gather collective in {q}, found {len(ag)}", file=rel, func=q)
        return
    c = ag[0]
    okr = True if c.func.attr == "Allgather" else False if c.func.attr in ("Gather", "gather") else None
    if okr is False and any(isinstance(x, ast.Call) and isinstance(x.func, ast.Attribute) and x.func.attr in ("Bcast", "bcast") for x in ast.walk(fn)):
        okr = None          # ASSUMPTION of the diagnosis: nothing redistributes the gathered data afterwards
    chk.ob("R1-symmetric-replication", c, src(c)[:100], okr,
           "the gather is an Allgather: every rank of the communicator receives all blocks (replicas identical)"
           if okr else f"`{c.func.attr}` delivers the blocks to the root rank only: the other replicas keep stale data" if okr is False
           else f"collective `{c.func.attr}` not modelled", file=rel, func=q)
    out = "source" if recv_name == "dest" else "dest"
    if c.func.attr not in ("Allgather", "Gather"):
        # ASSUMPTION of every geometry diagnosis: equal counts from every rank (the blocks lie at a uniform padded stride in the receive
        # buffer); a collective with per-rank counts has another layout of the receive buffer
        chk.ob(rule, c, f"gather arm of {q.split('.')[-1]}", None, f"the geometry of the collective `{c.func.attr}` (per-rank counts / pickled objects) is not modelled",
               file=rel, func=q)
        return
    arms = _read_arm_paths(fn, c)
    if not arms or any(len(A.gathers) != 1 for A in arms):
        chk.ob(rule, c, f"gather arm of {q.split('.')[-1]}", None, "the arm containing the gather could not be isolated", file=rel, func=q)
        return
    bad, und = [], []
    for A in arms:
        b_, u_ = _judge_gather_path(A, recv_name, out)
        where = _path_text(A)
        bad += [(f"when {where}: " if where else "") + x for x in b_]
        und += [(f"when {where}: " if where else "") + x for x in u_]
    ok = not bad and not und
    o = chk.pat(rule, c, f"gather arm of {q.split('.')[-1]}", ok, what, "; ".join(dict.fromkeys(bad)) or None, file=rel, func=q)
    if not ok and not bad:
        o.msg = "the gather arm could not be read completely: " + "; ".join(dict.fromkeys(und))[:600]


def _whole_buffer_views(A, recv_name, out):
    """stores outside the per-rank loop that fill the result from ONE reshaped view of (a prefix of) the receive buffer:
    [(statement, shape list of that view)]"""
    found = []
    for st_, tv, rv, loop in A.stores:
        if loop is not None or not isinstance(rv, Tr):
            continue
        x = rv.x.view if isinstance(rv.x, SubV) else rv.x
        if isinstance(x, View) and isinstance(x.buf, (Buf, Whole)) and x.buf.root == recv_name:
            tgt = tv.view if isinstance(tv, SubV) else tv
            if isinstance(tgt, View) and getattr(tgt.buf, "root", None) == out:
                found.append((st_, x.shape))
    return found


def _rank_local(text):
    """does a symbolic value depend on this rank's own block (its local shape/size) rather than on the partition as a whole?"""
    import re
    t = text.replace(" ", "")
    return bool(re.search(r"layout_source\.size|layout_source\.shape\[|prod\(shape\(layout_source\)\)|layout_source\.ends|layout_source\.starts", t))


def _safe_ctext(A, t):
    try:
        A.ctext(t)
        return True
    except Exception:
        return False


def _judge_gather_path(A, recv_name, out):
    """(diagnoses, things not followed) of one way through the gather arm"""
    import sympy
    bad, und = [], []
    at = A.atom
    # ---- the specification, in the vocabulary of the arm
    if getattr(A, "axes_order", None) != ("layout_dest", "layout_source"):
        und.append("the gather arm does not obtain its axes as `(idx_d, idx_s) = self.getAxes(layout_dest, layout_source)`")
    idx_s, idx_d = at("idx_s"), at("idx_d")
    comm_t = "self._managers[self._handlers[layout_source.name]].communicators[idx_s]"
    m = at(comm_t + ".Get_size()")
    pad = SL("layout_source", "shape", {"idx_s": at("layout_source.max_block_shape[idx_s]")})
    B = at("prod(" + repr(pad) + ")")
    len_i, st_i = at("layout_source.mpi_lengths(idx_s)[i]"), at("layout_source.mpi_starts(idx_s)[i]")
    true_shape = SL("layout_source", "shape", {"idx_s": len_i})
    n_i = at("prod(" + repr(true_shape) + ")")
    call, specs, comm = A.gathers[0]
    if recv_name == "buf" and len(specs) > 1 and isinstance(specs[1][0], Buf) and specs[1][0].root == "dest":
        # with a spare buffer the two arrays other than the source may play either role: received in one, assembled in the other (that
        # the result ends in `dest` and the source stays intact is decided by the field-location flow, D1/D2)
        recv_name, out = "dest", "buf"
    # ---- communicator
    if comm is None:
        und.append("communicator of the gather")
    elif comm.replace(" ", "") != comm_t.replace(" ", ""):
        if comm.replace(" ", "") == comm_t.replace("idx_s", "idx_d").replace(" ", "") or "layout_dest.name" in comm:
            # ASSUMPTION: the communicator text, with the arm's locals written out, is the DESTINATION handler's communicators[...] or is indexed by
            # idx_d (handlers are looked up as self._managers[self._handlers[<layout>.name]])
            bad.append(f"the gather runs on `{comm}`: the blocks are spread over the communicator of the SOURCE handler's scattered axis (idx_s)")
        else:
            und.append(f"communicator `{comm}`")
    # ---- counts
    for k, (role, root, want_hi) in enumerate((("send", "source", B), ("receive", recv_name, sympy.expand(B * m)))):
        if k >= len(specs):
            und.append(f"{role} buffer")
            continue
        b, extra, node = specs[k]
        if extra is not None and len(extra) >= 2 and extra[-1] == "MPI.DOUBLE" and any(w in " ".join(extra) for w in ("itemsize", "nbytes", "dtype", "iscomplex")):
            und.append(f"explicit count in `{src(node)[:60]}` (it depends on the element type: not followed)")
            continue
        if extra is not None and len(extra) >= 2 and extra[-1] == "MPI.DOUBLE":
            bad.append(f"`{src(node)}` passes an explicit count with MPI.DOUBLE: the count is the number of array ELEMENTS, but a complex "
                       "buffer holds two doubles per element, so only half of each block is exchanged (the two-element form lets mpi4py "
                       "derive the count from the buffer's size in bytes)")
            continue
        if extra is not None and extra != ["MPI.DOUBLE"]:
            und.append(f"{role} buffer specification `{src(node)[:50]}`")
        if not isinstance(b, Buf):
            und.append(f"{role} buffer `{src(node)[:50]}`")
            continue
        if b.root != root:
            if b.root in ("source", "dest", "buf"):
                # ASSUMPTION: the buffer was followed back to a parameter array; with a spare buffer the receive/assemble roles of dest and buf may be
                # exchanged (handled at the top)
                bad.append(f"the {role} buffer is a part of `{b.root}`, the arm's {role} buffer is `{root}`")
            else:
                und.append(f"{role} buffer root `{b.root}`")
            continue
        if not (_eq(b.lo, 0) and b.hi is not None and _eq(b.hi, want_hi)):
            t = str(b.hi)
            if b.hi is not None and _eq(b.lo, 0) and ("prod(shape(layout_source)" in t or "layout_source.size" in t or "layout_dest.size" in t
                                                      or "mpi_lengths" in t) and "max_block_shape" not in t:
                # ASSUMPTION: uniform-count collective (checked in gather_geometry); the count was resolved to an expression over this rank's own
                # block (no max_block_shape)
                bad.append(f"the {role} buffer holds `{b.hi}` elements: Allgather needs the same count from every rank, the block padded to "
                           f"max_block_shape along the scattered axis ({want_hi}); with unpadded counts the ranks disagree on the layout of the receive buffer")
            else:
                und.append(f"{role} count `{b.hi}` (expected {want_hi})")
    # ---- shortcuts decided by this rank's own block
    def own_vs_padded(x):
        # this rank's own extent (`L.shape[k]`, not `L.max_block_shape[k]`) compared with the padded one; a test on the per-rank table
        # mpi_lengths is the same on every rank and is not this defect
        t = src(x).replace("max_block_shape", "")
        return isinstance(x, ast.Compare) and "max_block_shape" in src(x) and ".shape[" in t.replace(" ", "")
    for test, pol in getattr(A, "path", []):
        cmp_ = [x for x in ast.walk(test) if own_vs_padded(x)]
        if cmp_:
            bad.append(f"`{src(cmp_[0])}` compares this rank's own block length with the padded length to decide how the gathered buffer is "
                       "read: on an uneven distribution the ranks holding a full-size block take the 'no padding' path although the shorter "
                       "blocks of the other ranks arrive padded - the padding is read as data, and the ranks disagree on the result")
    for c_, pol, va, vb in getattr(A, "path_vals", []):
        if getattr(c_, "lineno", 0) <= getattr(call, "lineno", 0):
            continue          # before the exchange: it cannot decide how the received buffer is read
        ta, tb = str(va), str(vb)
        for own, padded in ((ta, tb), (tb, ta)):
            if "max_block_shape" in padded and "max_block_shape" not in own and _rank_local(own) \
                    and not any("compares this rank's own block" in b_ for b_ in bad):
                bad.append(f"`{src(c_)}` compares this rank's own block size (`{own}`) with the padded size (`{padded}`) to decide how the gathered "
                           "buffer is read: the test is rank-local - on an uneven distribution it is true on every rank that holds a largest "
                           "block although the shorter blocks of the other ranks of the communicator arrive padded; those ranks read the padding "
                           "as data (misaligned buffer) while the others take the per-block path: the replicas differ")
    for cnd in A.conds:
        cmp_ = [x for x in ast.walk(cnd.test) if own_vs_padded(x)]
        if cmp_:
            bad.append(f"`{src(cmp_[0])}` compares this rank's own block length with the padded length to decide how the gathered buffer is "
                       "read: on an uneven distribution the ranks holding a full-size block take the 'no padding' path although the shorter "
                       "blocks of the other ranks arrive padded - the padding is read as data, and the ranks disagree on the result")
        else:
            und.append(f"branch `if {src(cnd.test)[:50]}` inside the gather arm")
    # ---- the unpack loop
    loop_stores = [s_ for s_ in A.stores if s_[3] is not None]
    whole = _whole_buffer_views(A, recv_name, out)
    if whole:
        # all received blocks read through ONE view of the receive buffer instead of rank by rank
        for st_, shp in whole:
            pos = sorted(shp.over)
            send = specs[0][0] if specs else None
            plain_send = isinstance(send, Buf) and send.root == "source" and _eq(send.lo, 0)
            # (a path that tests the POSITION idx_s itself - `idx_s == 0` - may have established that the gathered axis is the leading one)
            tests_axis = any((A.ctext(side).strip() == "idx_s") if _safe_ctext(A, side) else False
                             for t, _ in getattr(A, "path", []) for c_ in ast.walk(t) if isinstance(c_, ast.Compare)
                             for side in [c_.left] + list(c_.comparators))
            if shp.layout == "layout_source" and pos == ["idx_s"] and plain_send and not tests_axis:
                bad.append(f"`{src(st_)[:70]}` reads all received blocks through one view of shape `{shp}`: the receive buffer holds the blocks of "
                           "the ranks one after the other (block-major), which is the field concatenated ALONG axis idx_s of the source block "
                           "only if idx_s is the first (slowest) axis of that block; the swapper sends the blocks as they lie in memory, without "
                           "moving the gathered axis to the front, so for any other idx_s the elements of different ranks are interleaved wrongly "
                           "(silently: all shapes agree)")
            else:
                und.append(f"`{src(st_)[:60]}` reads all received blocks through one view of shape `{shp}`")
    elif len(loop_stores) != 1:
        if not any("compares this rank's own block" in b_ for b_ in bad):
            und.append(f"{len(loop_stores)} array stores in the unpack loop (1 expected)" + ("; " + "; ".join(A.notes[:3]) if A.notes else ""))
    else:
        st, tv, rv, (trip, loop_node) = loop_stores[0]
        if not _eq(trip, m):
            if _eq(trip, m + 1):
                # ASSUMPTION: the trip count was derived from np.split(x, B*arange(1, m+1)) (m+1 pieces) / range(...) and m is the size of the gather
                # communicator
                bad.append("the unpack loop also visits the piece after the last rank's block (np.split returns communicator-size + 1 pieces): "
                           "it is not a block of any rank")
            elif _eq(trip, m - 1):
                bad.append("the unpack loop visits communicator-size - 1 blocks: the last rank's block is never copied")
            else:
                und.append(f"trip count `{trip}` of the unpack loop (expected {m})")
        # target: result[0:layout_dest.size].reshape(layout_dest.shape)[..., idx_d: start_i .. start_i+len_i, ...]
        if isinstance(tv, SubV) and isinstance(tv.view, View) and isinstance(tv.view.buf, Buf):
            vb = tv.view
            if vb.buf.root != out:
                (bad if vb.buf.root in ("source", "dest", "buf") else und).append(
                    f"the blocks are assembled in `{vb.buf.root}`; with the receive buffer `{recv_name}` the result must be built in `{out}`")
            if not (_eq(vb.buf.lo, 0) and vb.buf.hi is not None and _eq(vb.buf.hi, at("layout_dest.size")) and vb.shape.key() == SL("layout_dest", "shape").key()):
                und.append(f"result view `{vb}`")
            sl = tv.slices
            if sl.layout != "layout_dest" or set(sl.over) != {"idx_d"} or not isinstance(sl.over.get("idx_d"), SliceV):
                if sl.layout == "layout_dest" and set(sl.over) == {"idx_s"}:
                    # ASSUMPTION: idx_s / idx_d are the two results of getAxes in the reference convention (the view renames them by the definition's
                    # convention)
                    bad.append("the block of rank i is placed along position idx_s of the destination view: idx_s is the process axis of the SOURCE "
                               "handler, the gathered dimension sits at position idx_d of the destination")
                else:
                    und.append(f"placement `{sl}`")
            else:
                sv = sl.over["idx_d"]
                if _eq(sv.lo, st_i) and _eq(sv.hi, st_i + len_i):
                    pass
                elif "layout_dest.mpi_" in str(sv.lo) + str(sv.hi):
                    # ASSUMPTION: the placement range was resolved to the destination layout's per-rank tables
                    bad.append(f"the block of rank i is placed at `{sv}`: blocks were cut by the source layout's partition, not the destination's "
                               "(the destination is not distributed along this dimension)")
                else:
                    und.append(f"placement range `{sv}`")
        else:
            und.append("target of the store in the unpack loop" + ("; " + "; ".join(A.notes[:2]) if A.notes else ""))
        # value: np.transpose(chunk_i viewed with the sender's true shape, source->dest)
        if isinstance(rv, Tr):
            if rv.perm != "source->dest":
                und.append(f"transposition `{rv.perm}`")
            x = rv.x
            sub = None
            if isinstance(x, SubV):
                x, sub = x.view, x.slices
            if isinstance(x, View) and isinstance(x.buf, Buf):
                shp = x.shape
                padded_view = shp.layout == "layout_source" and set(shp.over) == {"idx_s"} and _eq(shp.over["idx_s"], at("layout_source.max_block_shape[idx_s]"))
                packed_before = [s_ for s_ in A.stores if s_[3] is None and getattr(s_[0], "lineno", 0) < getattr(call, "lineno", 0)]
                if padded_view and packed_before:
                    und.append(f"the chunk is viewed with the padded shape `{shp}` and the sender stores into an array before the gather "
                               f"(`{src(packed_before[0][0])[:50]}`): whether it packs its block into that shape was not followed")
                elif padded_view:
                    # ASSUMPTION: the sender sends its block as it lies in memory (no store before the gather, send buffer = source[0:B])
                    bad.append(f"the received chunk of rank i is viewed with the padded block shape `{shp}`; the sender's "
                               "block is contiguous in its true shape, so for uneven blocks elements are mis-assigned unless the gathered "
                               "axis is the leading one")
                elif sub is not None:
                    und.append(f"chunk view `{x}` cut by `{sub}`")
                elif shp.key() != true_shape.key():
                    if shp.layout == "layout_dest" or any("layout_dest.mpi_" in str(v) for v in shp.over.values()):
                        bad.append(f"the chunk of rank i is viewed with `{shp}`: blocks were cut by the source layout's partition, not the destination's")
                    else:
                        und.append(f"chunk shape `{shp}`")
                b = x.buf
                # a running offset: what it is advanced by in every iteration decides what it is in iteration i
                for rx, amount in getattr(A, "running", {}).items():
                    rt = at(f"running_total({rx})")
                    if b.lo is not None and rt in getattr(b.lo, "free_symbols", ()):
                        if _eq(amount, B):
                            b = Buf(b.root, b.lo.subs(rt, B * at("i")), b.hi.subs(rt, B * at("i")) if b.hi is not None else None)
                        elif _eq(amount, n_i):
                            # ASSUMPTION: the offset variable is advanced exactly once per iteration by the resolved amount (induction_variables), the
                            # receive buffer holds uniform padded slots (Allgather)
                            bad.append(f"the chunk of rank i is read at a running offset that is advanced by the TRUE size of each block "
                                       f"(`{amount}`): every rank's block occupies a slot of the padded size {B} in the receive buffer, so for uneven "
                                       "blocks the chunks after the first short block are read from the wrong offsets")
                            b = Buf(b.root, B * at("i"), B * at("i") + n_i)
                if b.root != recv_name:
                    (bad if b.root in ("source", "dest", "buf") else und).append(f"the chunks are read from `{b.root}` but were received in `{recv_name}`")
                elif not _eq(b.lo, B * at("i")):
                    if "mpi_starts" in str(b.lo) or "mpi_lengths" in str(b.lo) or _eq(b.lo, n_i * at("i")):
                        # ASSUMPTION: the offset was resolved to the compact partition (starts table / i x true size); uniform padded slots
                        # (Allgather)
                        bad.append(f"the chunk of rank i is read at offset `{b.lo}`: every rank's block occupies a slot of the padded size {B} in the "
                                   "receive buffer, so for uneven blocks the chunks are read from the wrong offsets")
                    else:
                        und.append(f"chunk offset `{b.lo}` (expected {B}*i)")
                elif not padded_view and (b.hi is None or not _eq(b.hi, B * at("i") + n_i)):
                    und.append(f"chunk extent `{b}`")
            else:
                und.append("value stored in the unpack loop" + ("; " + "; ".join(A.notes[:2]) if A.notes else ""))
        else:
            und.append("value stored in the unpack loop" + ("; " + "; ".join(A.notes[:2]) if A.notes else ""))
    return bad, und


def scatter_geometry(chk, mod, q):
    rel = mod.rel
    fn = view_of(chk, mod, q)
    rule = "G4-scatter-slice"
    what = ("the local slice is [start_r, start_r+len_r) of the destination partition, for this rank's coordinate on the "
            "destination communicator, taken along the source axis of the scattered dimension")
    calls = [c for c in ast.walk(fn) if isinstance(c, ast.Call) and isinstance(c.func, ast.Attribute) and c.func.attr == "getAxes"
             and [src(a) for a in c.args] == ["layout_source", "layout_dest"]]
    if len(calls) != 1:
        chk.ob(rule, fn, "scatter arm of " + q.split(".")[-1], None,
               f"{len(calls)} calls `self.getAxes(layout_source, layout_dest)` found in {q} (1 expected): the scatter arm could not be isolated",
               file=rel, func=q)
        return
    arms = _read_paths_through(fn, calls[0])
    if not arms:
        A = _read_arm(fn, calls[0])
        arms = [A] if A is not None else []
    if not arms:
        chk.ob(rule, fn, "scatter arm of " + q.split(".")[-1], None, "the scatter arm could not be isolated", file=rel, func=q)
        return
    bad, und = [], []
    for A in arms:
        b_, u_ = _judge_scatter_path(A)
        where = _path_text(A) if len(arms) > 1 else ""
        bad += [(f"when {where}: " if where else "") + x for x in b_]
        und += [(f"when {where}: " if where else "") + x for x in u_]
    ok = not bad and not und
    o = chk.pat(rule, calls[0], "scatter arm of " + q.split(".")[-1], ok, what, "; ".join(dict.fromkeys(bad)) or None, file=rel, func=q)
    if not ok and not bad:
        o.msg = "the scatter arm could not be read completely: " + "; ".join(dict.fromkeys(und))[:600]


def _judge_scatter_path(A):
    """(diagnoses, things not followed) of one way through the function that takes the scatter arm"""
    bad, und = [], []
    at = A.atom
    comm_t = "self._managers[self._handlers[layout_dest.name]].communicators[idx_d]"
    rank = at(comm_t + ".Get_rank()")
    st_r, len_r = at(f"layout_dest.mpi_starts(idx_d)[{rank}]"), at(f"layout_dest.mpi_lengths(idx_d)[{rank}]")
    stores = [s_ for s_ in A.stores if s_[3] is None]
    for cnd in A.conds:
        und.append(f"branch `if {src(cnd.test)[:50]}` inside the scatter arm")
    if len(stores) != 1:
        und.append(f"{len(stores)} array stores in the scatter arm (1 expected)" + ("; " + "; ".join(A.notes[:3]) if A.notes else ""))
    else:
        st, tv, rv, _ = stores[0]
        if isinstance(tv, View) and isinstance(tv.buf, Buf) and tv.buf.root in ("source", "buf"):
            # ASSUMPTION: exactly one array store on this way through the scatter arm, its target followed back to a parameter array
            bad.append(f"the scatter arm writes its result into `{tv.buf.root}`: the local part of the destination layout must be stored in `dest`")
        elif not (isinstance(tv, View) and isinstance(tv.buf, Buf) and tv.buf.root == "dest" and _eq(tv.buf.lo, 0) and tv.buf.hi is not None
                  and _eq(tv.buf.hi, at("layout_dest.size")) and tv.shape.key() == SL("layout_dest", "shape").key()):
            und.append(f"destination view `{tv}`")
        if isinstance(rv, Tr) and isinstance(rv.x, SubV) and isinstance(rv.x.view, View) and isinstance(rv.x.view.buf, Buf):
            if rv.perm != "source->dest":
                und.append(f"transposition `{rv.perm}`")
            v, sl = rv.x.view, rv.x.slices
            if v.buf.root in ("dest", "buf"):
                bad.append(f"the scatter arm reads the replicated block from `{v.buf.root}`: the field is in `source`")
            elif not (v.buf.root == "source" and _eq(v.buf.lo, 0) and v.buf.hi is not None and _eq(v.buf.hi, at("layout_source.size"))
                      and v.shape.key() == SL("layout_source", "shape").key()):
                und.append(f"source view `{v}`")
            if sl.layout != "layout_source" or set(sl.over) != {"idx_s"} or not isinstance(sl.over.get("idx_s"), SliceV):
                if sl.layout == "layout_source" and set(sl.over) == {"idx_d"}:
                    bad.append("the local part is cut along position idx_d of the source view: idx_d is the process axis of the DESTINATION handler, "
                               "the dimension that becomes distributed sits at position idx_s of the source")
                else:
                    und.append(f"slice list `{sl}`")
            else:
                sv = sl.over["idx_s"]
                txt = str(sv.lo) + " " + str(sv.hi)
                own_lo, own_hi, own_len = at("layout_dest.starts[idx_d]"), at("layout_dest.ends[idx_d]"), at("layout_dest.shape[idx_d]")
                if _eq(sv.lo, st_r) and _eq(sv.hi, st_r + len_r):
                    pass
                elif _eq(sv.lo, own_lo) and (_eq(sv.hi, own_hi) or _eq(sv.hi, own_lo + own_len)):
                    # this rank's own block of the destination layout: Layout.starts/ends[k] are the entries of the per-rank tables at
                    # this rank's coordinate (C02 P2-one-table), which is its rank on the handler's communicator k (A2-coords-follow-communicators)
                    pass
                elif "layout_source.mpi_starts" in txt or "layout_source.mpi_lengths" in txt:
                    # ASSUMPTION: the slice bounds were resolved to per-rank tables of layout_source
                    bad.append("the scatter slice is taken from the source layout's partition table: the local block is defined by the destination's")
                elif "layout_dest.mpi_starts(idx_d)[" in txt and ".Get_rank()" in txt and comm_t.replace(" ", "") not in txt:
                    bad.append(f"the slice `{sv}` is taken at the rank of another communicator than the destination handler's communicators[idx_d]: "
                               "the table along idx_d is indexed by the coordinate on that communicator")
                else:
                    und.append(f"slice `{sv}` (expected slice({st_r}, {st_r} + {len_r}))")
        else:
            und.append("value stored by the scatter arm" + ("; " + "; ".join(A.notes[:3]) if A.notes else ""))
    return bad, und


# ------------------------------------------------------------------ buffer sizes
def handler_buffer(chk, mod):
    """LayoutHandler.__init__: the block of every connected pair starts from that pair's own local shape"""
    from .C01 import bufsize_rules, class_methods
    rel, q = mod.rel, "LayoutHandler.__init__"
    init = mod.func(q)
    rule = "G4-bufsize-handler-block"
    # the routine that sizes the exchange block, found by ROLE: it asks `_get_swap_axes` for the axis triple of a pair and overwrites
    # entries of a shape list with padded extents (the constructor itself, a helper method it delegates to, a nested function)
    cands = []
    for m in class_methods(mod, "LayoutHandler").values():
        for f in [x for x in ast.walk(m) if isinstance(x, ast.FunctionDef)]:
            own = [n for n in ast.walk(f) if not any(n is y for g in ast.walk(f) if isinstance(g, ast.FunctionDef) and g is not f for y in ast.walk(g))]
            if any(isinstance(n, ast.Call) and src(n.func) == "self._get_swap_axes" for n in own) and \
                    any(isinstance(n, ast.Assign) and isinstance(n.targets[0], ast.Subscript) and isinstance(n.targets[0].value, ast.Name)
                        and "max_block_shape" in src(n.value) for n in own):
                cands.append(f)
    fn = init if any(f is init for f in cands) or len(cands) != 1 else cands[0]

    def loops(n):
        out = []
        while n is not fn and n is not None:
            n = parent(n)
            if isinstance(n, (ast.For, ast.While)):
                out.append(n)
        return out
    calls = [n for n in ast.walk(fn) if isinstance(n, ast.Call) and src(n.func) == "self._get_swap_axes"]
    pads = [n for n in ast.walk(fn) if isinstance(n, ast.Assign) and isinstance(n.targets[0], ast.Subscript)
            and isinstance(n.targets[0].value, ast.Name) and "max_block_shape" in src(n.value)]
    ok, bad = None, None
    if calls and pads:
        tgt = pads[0].targets[0].value.id
        inits = [n for n in ast.walk(fn) if isinstance(n, ast.Assign) and len(n.targets) == 1 and src(n.targets[0]) == tgt]
        pair_loops = loops(calls[0])
        if len(inits) == 1 and isinstance(inits[0].value, ast.Call) and src(inits[0].value.func) == "list" and len(inits[0].value.args) == 1 \
                and isinstance(inits[0].value.args[0], ast.Attribute) and inits[0].value.args[0].attr == "shape":
            def same(a, b):
                return len(a) == len(b) and all(x is y for x, y in zip(a, b))
            # the list is created in the very loop iteration (over the connected pairs, however they are enumerated) that pads it - or,
            # in a helper that handles ONE pair per call, in the same call
            per_call = fn is not init and not isinstance(parent(fn), ast.FunctionDef) and not pair_loops
            if (pair_loops or per_call) and same(loops(inits[0]), pair_loops) and all(same(loops(p_), pair_loops) for p_ in pads):
                ok = True
            elif len(loops(inits[0])) < len(pair_loops) and all(any(x is y for y in pair_loops) for x in loops(inits[0])):
                # ASSUMPTION: the pads overwrite entries of the ONE list object created outside the loop (the list is not copied
                # again per pair before it is padded: `inits` is its only binding, checked above)
                bad = (f"`{src(inits[0])}` (line {inits[0].lineno}) is created outside the loop over connected layouts but its entries are "
                       "overwritten for every pair: a layout connected to two others through different axes keeps the padded extent "
                       "of the previous pair, and bufferSize can come out smaller than a block the transposes move")
    chk.pat(rule, fn, "blockshape = list(l1.shape) per connected pair, then the two swapped extents padded", ok,
            "for every connected pair the exchange block is built from a fresh copy of this pair's local shape, its concatenated and split "
            "axes padded to the largest block (the extents themselves are compared with the packer's by G1-geometry-bufsize)", bad, file=rel, func=q)
    bufsize_rules(chk, mod)


def init_buffer(chk, mod):
    """advertised size covers every handler's size and every gather's receive size"""
    import sympy
    rel = mod.rel
    handler_buffer(chk, mod)
    q = "LayoutSwapper.__init__"
    fn = view_of(chk, mod, q)
    env = inline_locals(fn)
    # ---- covers the largest handler buffer
    stores = [n for n in ast.walk(fn) if isinstance(n, ast.Assign) and any(src(t) == "self._buffer_size" for t in n.targets)]
    ok1, bad1 = None, None

    def in_loop(n):
        p = parent(n)
        while p is not None and p is not fn:
            if isinstance(p, (ast.For, ast.While)):
                return True
            p = parent(p)
        return False
    first = [n for n in stores if not in_loop(n)]
    if first:
        t = xsrc(first[0].value, env).replace(" ", "").replace("((", "(").replace("))", ")")
        import re
        if re.fullmatch(r"max\(\[?(\w+)\.bufferSizefor\1inself\._managers\]?\)", t):
            ok1 = True
        elif re.fullmatch(r"min\(\[?(\w+)\.bufferSizefor\1inself\._managers\]?\)", t):
            # ASSUMPTION: the first assignment is literally min(<m.bufferSize for m in self._managers>)
            bad1 = "the swapper's buffer is the SMALLEST handler buffer: the transposes inside the other handlers need more"
        elif re.fullmatch(r"self\._managers\[[^\]]+\]\.bufferSize", t) and \
                not any(in_loop(n) and "bufferSize" in src(n.value) for n in stores):
            # ASSUMPTION: no later update raises the size to the other handlers' sizes
            bad1 = (f"the swapper's buffer starts from one handler's size (`{src(first[0].value)}`): the transposes inside the other handlers may need more")
    chk.pat("G4-bufsize-handlers", first[0] if first else fn, "self._buffer_size = max(buffSize)", ok1, "swapper buffer covers the largest handler buffer",
            bad1, file=rel, func=q)
    # ---- covers (padded scattered block) x (size of the scattered side's communicator) for every gather pair
    _gather_bufsize(chk, mod, fn, [n for n in stores if in_loop(n)])


def _gather_candidate(vx, sf, idx_of, handler_of, bad, und, counts):
    """one value the swapper's buffer size is raised to: (block of L padded along idx) x (size of L's handler's communicators[idx])"""
    factors = []
    todo = [vx]
    while todo:
        x = todo.pop()
        if isinstance(x, ast.BinOp) and isinstance(x.op, ast.Mult):
            todo += [x.left, x.right]
        else:
            factors.append(x)
    if True:
        block = comm = None
        rest = []
        for f in factors:
            if isinstance(f, ast.Name) and f.id in sf.prods:
                block = sf.prods[f.id][0]
            elif isinstance(f, ast.Call) and src(f.func) in ("np.prod", "numpy.prod") and len(f.args) == 1 and isinstance(f.args[0], ast.Name) \
                    and f.args[0].id in sf.lists:
                block = sf.lists[f.args[0].id]
            elif isinstance(f, ast.Call) and isinstance(f.func, ast.Attribute) and f.func.attr == "Get_size" and not f.args:
                comm = f.func.value
            else:
                rest.append(src(f))
        if block is None or comm is None or rest:
            und.append("candidate `" + " * ".join(src(f) for f in factors) + "`")
            return
        # block = list(L.shape) with [idx] = L.max_block_shape[idx], idx an axis of L; comm = <handler of L>.communicators[idx]
        lay = block.base.replace(".shape", "")
        keys = list(block.over)
        if len(keys) != 1 or idx_of.get(keys[0]) is None:
            und.append(f"block `{block.base}` with overridden positions {keys}")
            return
        k = keys[0]
        if idx_of[k] != lay:
            # ASSUMPTION: each index variable is the result of ONE getAxes call (idx_of; an index standing for two layouts is undecided above)
            bad.append(f"the block of `{lay}` is padded at position `{k}`, an axis of `{idx_of[k]}`")
            return
        if block.over[k].replace(" ", "") != f"{lay}.max_block_shape[{k}]":
            if block.over[k].replace(" ", "") in (f"{lay}.shape[{k}]",):
                bad.append(f"the gathered block of `{lay}` uses this rank's own extent `{block.over[k]}`: the Allgather moves blocks padded to "
                           "max_block_shape, so ranks with a short block advertise too little")
            else:
                und.append(f"block extent `{block.over[k]}`")
            return
        okc = isinstance(comm, ast.Subscript) and isinstance(comm.value, ast.Attribute) and comm.value.attr == "communicators" \
            and isinstance(comm.slice, ast.Name)
        if not okc:
            und.append(f"communicator `{src(comm)}`")
            return
        hl = handler_of.get(src(comm.value.value))
        if hl is None:
            und.append(f"handler `{src(comm.value.value)}`")
        elif hl != lay or comm.slice.id != k:
            bad.append(f"the block of `{lay}` (padded along `{k}`) is multiplied by the size of `{src(comm)}`, the communicator of "
                       f"`{hl}` along `{comm.slice.id}`: the gather receives one block per rank of the scattered layout's communicator")
        else:
            counts[0] += 1


def _accumulates(fn, v):
    """does the value read a local that is defined from itself (`best = max(best, x)`) or under a test on itself (`if x > best: best = x`)?"""
    for nm in {x.id for x in ast.walk(v) if isinstance(x, ast.Name)}:
        for d in [n for n in ast.walk(fn) if isinstance(n, ast.Assign) and len(n.targets) == 1 and isinstance(n.targets[0], ast.Name) and n.targets[0].id == nm]:
            if any(isinstance(x, ast.Name) and x.id == nm for x in ast.walk(d.value)) or \
                    any(any(isinstance(x, ast.Name) and x.id == nm for x in ast.walk(t)) for t, _, _ in guards_of(d)):
                return True
        if any(isinstance(n, ast.AugAssign) and isinstance(n.target, ast.Name) and n.target.id == nm for n in ast.walk(fn)):
            return True
    return False


def _arm_variants(fn, vx, at, keep):
    """a candidate that reads locals bound once in EACH arm of an `if` that precedes the update (`if c: a, b = x1, y1 else: a, b = x2, y2`):
    one candidate per arm, every such local replaced by that arm's definition (the arms are alternatives: their definitions are never
    mixed).  [vx] when there is no such `if`"""
    from .C01 import resolve_at, reaching_def, _Subst
    free = {n.id for n in ast.walk(vx) if isinstance(n, ast.Name) and isinstance(n.ctx, ast.Load) and n.id not in keep
            and reaching_def(fn, n.id, at) is None}
    if not free:
        return [vx]
    cur = at
    blk = None
    par = parent(cur)
    for f in ("body", "orelse", "finalbody"):
        b = getattr(par, f, None)
        if isinstance(b, list) and any(x is cur for x in b):
            blk = b
    if blk is None:
        return [vx]
    idx = [i for i, x in enumerate(blk) if x is cur][0]
    for prev in reversed(blk[:idx]):
        if not isinstance(prev, ast.If) or not prev.orelse:
            continue

        def top_defs(arm):
            out = {}
            for st in arm:
                if isinstance(st, ast.Assign) and len(st.targets) == 1 and isinstance(st.targets[0], ast.Name):
                    out[st.targets[0].id] = None if st.targets[0].id in out else st
            return out
        da, db = top_defs(prev.body), top_defs(prev.orelse)
        both = {x for x in free if da.get(x) is not None and db.get(x) is not None}
        if not both:
            continue
        out = []
        for d_ in (da, db):
            mapping = {x: resolve_at(fn, d_[x].value, d_[x], keep=keep) for x in both}
            out.append(ast.fix_missing_locations(_Subst(mapping).visit(ast.parse(ast.unparse(vx), mode="eval").body)))
        return out
    return [vx]


def _gather_bufsize(chk, mod, fn, sinks):
    from .C01 import resolve_at, reaching_def
    rel, q = mod.rel, "LayoutSwapper.__init__"
    rule = "G4-bufsize-gather"
    what = "buffer covers (padded scattered block) x (size of the scattered side's communicator) for every gather pair"
    sf = ShapeFlow(fn)
    env = inline_locals(fn)
    bad, und = [], []
    # getAxes results: which index belongs to which layout, and which layout is the scattered one under which guard
    idx_of = {}       # index var -> layout var
    for n in ast.walk(fn):
        if isinstance(n, ast.Assign) and isinstance(n.targets[0], ast.Tuple) and isinstance(n.value, ast.Call) \
                and isinstance(n.value.func, ast.Attribute) and n.value.func.attr == "getAxes" and len(n.value.args) == 2 \
                and len(n.targets[0].elts) == 2 and all(isinstance(x, ast.Name) for x in list(n.targets[0].elts) + list(n.value.args)):
            for iv, lv in zip(n.targets[0].elts, n.value.args):
                if idx_of.get(iv.id, lv.id) != lv.id:
                    und.append(f"index `{iv.id}` stands for an axis of two different layouts")
                idx_of[iv.id] = lv.id
    if not sinks:
        und.append("no update of self._buffer_size inside the loop over layout pairs")
    handler_of = {}
    for n in ast.walk(fn):
        if isinstance(n, ast.Assign) and isinstance(n.targets[0], ast.Name) and isinstance(n.value, ast.Call) \
                and isinstance(n.value.func, ast.Attribute) and n.value.func.attr == "getLayout" and isinstance(n.value.func.value, ast.Name):
            handler_of[n.value.func.value.id] = n.targets[0].id
    counts = [0]
    for s_ in sinks:
        v, mono = s_.value, False
        if isinstance(v, ast.Call) and src(v.func) == "max" and len(v.args) == 2 and "self._buffer_size" in (src(v.args[0]), src(v.args[1])):
            v = v.args[1] if src(v.args[0]) == "self._buffer_size" else v.args[0]
            mono = True
        else:
            for test, pol, kind in guards_of(s_):
                if kind == "if" and isinstance(test, ast.Compare) and len(test.ops) == 1 and pol and \
                        ((src(test.left) == src(v) and src(test.comparators[0]) == "self._buffer_size" and isinstance(test.ops[0], (ast.Gt, ast.GtE))) or
                         (src(test.comparators[0]) == src(v) and src(test.left) == "self._buffer_size" and isinstance(test.ops[0], (ast.Lt, ast.LtE)))):
                    mono = True
        if not mono:
            if isinstance(s_.value, ast.Call) and src(s_.value.func) == "min":
                # ASSUMPTION: the update is literally min(...)
                bad.append(f"`{src(s_)[:60]}` keeps the smaller value")
            elif "self._buffer_size" not in src(s_.value) and not any("self._buffer_size" in src(t) for t, _, _ in guards_of(s_)) and \
                    not _accumulates(fn, s_.value):
                # ASSUMPTION: the stored value is this pair's own size, not a running maximum kept in a local
                bad.append(f"`{src(s_)[:60]}` overwrites the advertised size: the handlers' buffers and earlier pairs are forgotten")
            else:
                und.append(f"update `{src(s_)[:60]}`")
            continue
        keepn = set(sf.prods) | set(sf.lists) | set(idx_of) | set(idx_of.values()) | set(handler_of)
        cands = [resolve_at(fn, v, s_, keep=keepn)]
        if isinstance(v, ast.Name) and reaching_def(fn, v.id, s_) is None:
            # bound once in each arm of a preceding `if`: every definition is a candidate, read where it is made
            ds = [n for n in ast.walk(fn) if isinstance(n, ast.Assign) and len(n.targets) == 1 and isinstance(n.targets[0], ast.Name)
                  and n.targets[0].id == v.id]
            if ds:
                cands = [resolve_at(fn, d.value, d, keep=keepn) for d in ds]
        cands = [y for vx in cands for y in _arm_variants(fn, vx, s_, keepn)]
        for vx in cands:
            _gather_candidate(vx, sf, idx_of, handler_of, bad, und, counts)
    full = counts[0]
    # which block is the scattered one: the smaller of the two (the gathered layout holds the whole dimension)
    ok = full >= 1 and not bad and not und
    diag = "; ".join(dict.fromkeys(bad)) or None
    o = chk.pat(rule, sinks[0] if sinks else fn, "gather receive size in __init__", ok, what, diag, file=rel, func=q)
    if not ok and not bad:
        o.msg = "the gather buffer size could not be read completely: " + "; ".join(dict.fromkeys(und))[:500]
    return ok


def comm_identity_diagnosis(fn):
    """communicators of two handlers compared through a derived quantity (size, rank) instead of as objects"""
    for n in ast.walk(fn):
        if isinstance(n, ast.Assign) and isinstance(n.targets[0], ast.Name) and isinstance(n.value, (ast.ListComp, ast.Call)):
            v = n.value
            # ASSUMPTION: the list of derived quantities is what the communicators are MATCHED by: it is searched (`in`, `.index`, ==)
            used_to_match = any((isinstance(x, ast.Compare) and any(isinstance(y, ast.Name) and y.id == n.targets[0].id for y in ast.walk(x))) or
                                (isinstance(x, ast.Call) and isinstance(x.func, ast.Attribute) and x.func.attr in ("index", "count") and
                                 isinstance(x.func.value, ast.Name) and x.func.value.id == n.targets[0].id) for x in ast.walk(fn))
            if isinstance(v, ast.ListComp) and "communicators" in src(v.generators[0].iter) and isinstance(v.elt, ast.Call) \
                    and isinstance(v.elt.func, ast.Attribute) and v.elt.func.attr in ("Get_size", "Get_rank", "Get_dim") and used_to_match:
                return (f"`{src(n)}`: the communicators of the two handlers are matched by `{v.elt.func.attr}()`: two different process "
                        "axes with the same extent (square process grids) are taken for the same communicator, so the wrong axis is "
                        "gathered/scattered (or the layouts are declared unconnected)")
    for n in ast.walk(fn):
        # (a size compared with a literal number - `comm.Get_size() == 1` - tests ONE communicator, it does not match two)
        if isinstance(n, ast.Compare) and any(isinstance(x, ast.Call) and isinstance(x.func, ast.Attribute) and x.func.attr == "Get_size"
                                              for x in [n.left] + n.comparators) and isinstance(n.ops[0], (ast.In, ast.Eq)) \
                and not any(isinstance(x, ast.Constant) for x in [n.left] + n.comparators):
            return (f"`{src(n)}` matches communicators by size: process axes of equal extent are confused")
    return None


def comm_identity(fn):
    """(True, None) when the communicators of the two handlers are matched by membership of the communicator OBJECT in the other
    handler's communicators, (False, diagnosis) when they are matched through a derived quantity, (None, None) when no matching is found"""
    d = comm_identity_diagnosis(fn)
    if d:
        return False, d
    env = inline_locals(fn)
    # variables that run over a handler's communicators
    comm_vars = set()
    for n in ast.walk(fn):
        if isinstance(n, (ast.For, ast.comprehension)):
            it = n.iter
            if isinstance(it, ast.Call) and src(it.func) == "enumerate" and len(it.args) == 1 and isinstance(n.target, ast.Tuple) and len(n.target.elts) == 2:
                it, tg = it.args[0], n.target.elts[1]
            else:
                tg = n.target
            if isinstance(tg, ast.Name) and isinstance(it, ast.Attribute) and it.attr == "communicators":
                comm_vars.add(tg.id)
    good = 0
    for n in ast.walk(fn):
        if isinstance(n, ast.Compare) and len(n.ops) == 1 and isinstance(n.ops[0], (ast.In, ast.NotIn)):
            right = n.comparators[0]
            rx = expand(right, env) if isinstance(right, ast.Name) else right
            pool = (isinstance(rx, ast.Attribute) and rx.attr == "communicators") or \
                   (isinstance(rx, ast.Call) and src(rx.func) in ("list", "tuple") and len(rx.args) == 1 and isinstance(rx.args[0], ast.Attribute)
                    and rx.args[0].attr == "communicators")
            if pool and isinstance(n.left, ast.Name) and n.left.id in comm_vars:
                good += 1
            elif pool:
                return None, None
    return (True, None) if good else (None, None)


def run(chk):
    chk.explanation = (
        "Field-location flow over LayoutSwapper.transpose (same-group, scatter, gather, multi-step; buf None/given; "
        "route lengths 1..7, 2-periodic), manager typestate at every exit, index-ownership typing of every getAxes "
        "result (6 call sites), Allgather geometry (uniform padded counts, unpack with the sender's true block "
        "shape, placement by the source partition) and scatter slice read symbolically from the arms, buffer sizing, "
        "permutation typing of the block transposes, dependence reading of the direct-connection decision (two different "
        "handlers with equal numbers of process directions are connected only if the result compares the dimension orders of "
        "both layouts communicator by communicator). Decides the structural necessary conditions of C03; the "
        "communicator-matching heuristic of __init__ and element-level placement are not decided.")
    chk.assumptions += [
        "LayoutHandler.transpose satisfies its contract (decided by C01)",
        "source, dest, buf distinct non-overlapping arrays of bufferSize elements",
        "numpy view/copy and Allgather contracts of DESIGN.md section 3",
        "not the plot-only rank (self._buffer_size != 0)",
        "a true block is never larger than the padded block (C02 P2-max-block)",
    ]
    mod = chk.mod(U.LAYOUT)
    chk.in_file(U.LAYOUT)
    prog = Program(chk.repo, [U.LAYOUT])
    safe_flow_check(chk, prog, U.LAYOUT, CLS, extra_final=manager_final)
    ncalls = 0
    for q in STEP + ("LayoutSwapper.__init__",):
        ncalls += axes_ownership(chk, mod, q)
    if ncalls < 4:
        # (one per scatter arm and one per gather arm of the two single-step routines; the constructor's sites may be consolidated)
        chk.ob("A1-getaxes-role-order", mod.cls(CLS), "getAxes call sites", None,
               f"only {ncalls} getAxes call sites found (at least 4 expected: scatter and gather arm of each single-step routine): the arms were restructured",
               file=U.LAYOUT, func=CLS)
    gather_geometry(chk, mod, "LayoutSwapper._transpose", "dest")
    gather_geometry(chk, mod, "LayoutSwapper._transpose_source_intact", "buf")
    scatter_geometry(chk, mod, "LayoutSwapper._transpose")
    scatter_geometry(chk, mod, "LayoutSwapper._transpose_source_intact")
    init_buffer(chk, mod)
    coords_follow_comms(chk, mod)
    from .C01 import payload_dtype
    payload_dtype(chk, mod, CLS)
    views = ModView(mod, {q: view_of(chk, mod, q) for q in STEP})
    engine(chk, "P1-transpose-permutation", views.func(STEP[0]), "permutation typing of the swapper's array stores",
           swapper_permutations, chk, views, file=U.LAYOUT, func=STEP[0])
    # the cached route map is only read by the transposes
    from .. import lints
    from .C01 import route_readers
    for q in route_readers(mod, CLS):
        f_ = mod.func(q)
        muts = lints.shared_state_mutations(f_, lambda s_: s_.startswith("self._route_map") or s_.startswith("self._layouts") or s_.startswith("self._handlers"))
        chk.ob("G2-no-shared-mutation", f_, f"{q} vs the cached route map", not muts,
               "the route map and layout tables are only read" if not muts else "; ".join(d for _, d in muts) +
               " - the stored route is shortened/changed by a transpose: the next transpose between the same layouts takes a wrong route",
               file=U.LAYOUT, func=q)
        for n_, d_, why_ in getattr(muts, "undecided", ()):
            chk.ob("G2-no-shared-mutation", n_, f"{q} vs the cached route map: {d_}", None,
                   f"a possible change of the stored route that could not be established: {why_}", file=U.LAYOUT, func=q)
    # results the swapper keeps in a table under a key built from the arguments: the key covers what they are computed from
    from .C01 import memo_key_coverage
    engine(chk, "G5-memo-key", mod.cls(CLS), "results kept in a table under a key built from the arguments", memo_key_coverage, chk, mod, CLS,
           file=U.LAYOUT, func=CLS)
    # getAxes itself: returns (position in gathered ordering of the scattered dimension, scattered axis)
    getaxes_definition(chk, mod)
    # two different handlers with the same number of process directions: connected directly only if the shared communicators
    # distribute the same dimensions in both layouts (dependence reading of the deciding method)
    engine(chk, "A1-equal-handlers-same-dimension", mod.cls(CLS), "the method deciding direct connection of two layouts",
           equal_handlers_same_dimension, chk, mod, file=U.LAYOUT, func=CLS)
    # the same matching in _compatibleLayout: communicators are matched as objects
    # (the deciding method is found by its role - see _connection_decider -, not by today's name; getAxes is the public interface)
    decider, _sites = _connection_decider(mod)
    if decider is None:
        chk.ob("A1-communicator-identity", mod.cls(CLS), "the method deciding direct connection: handlers' communicators matched as objects", None,
               "cannot decide: no `_compatibleLayout`, and no single method of the swapper that the constructor calls on two layout names in a "
               "test and that reads the handlers' communicators", file=U.LAYOUT, func=CLS)
    for q, f_ in ([(getattr(decider, "_qual", f"{CLS}.{decider.name}"), decider)] if decider is not None else []) + \
            [("LayoutSwapper.getAxes", mod.func("LayoutSwapper.getAxes"))]:
        okc, d = comm_identity(f_)
        chk.pat("A1-communicator-identity", f_, f"{q}: handlers' communicators matched as objects", okc,
                "a process axis of one handler is identified with an axis of the other only if both hold the very same communicator",
                d, file=U.LAYOUT, func=q)
    chk.floor("D2-result-in-dest", 14)
    chk.floor("M1-current-manager", 14)
    chk.floor("A1-index-ownership", 8)
    chk.floor("A1-getaxes-role-order", 4)
    chk.floor("P1-", 4)


def swapper_permutations(chk, views):
    """permutation-word typing of every array store of the two single-step routines (engine P).  Each routine has at least one typed
    store on the local/scatter side and one in the gather arm, however its arms are arranged (the local and the scatter arm may share
    one store)"""
    from ..core import AnalysisError
    total = 0
    for q in STEP:
        pf = permcheck.PermFlow(chk, views.rel, q, views.func(q), {})
        chk.functions.add(f"{views.rel}:{q}")
        if pf.count < 2:
            raise AnalysisError(f"P1: only {pf.count} typed array store(s) found in {q} (expected one for the local/scatter copy and one "
                                "for the gather at least)")
        total += pf.count
    return total


# ------------------------------------------------------------------ communicators and coordinates handed to a handler go together
def _seq_desc(fn, e, at, depth=4):
    """how a list handed to a constructor was put together from a per-axis base list: ("whole", base) / ("prefix", base, slice text) /
    ("sel", base, key, index text, node) = the elements base[a] for the a of one sequence of axes (key names that sequence: the loop
    whose body appends them, or the sequence a comprehension runs over); None when not followed"""
    from .C01 import reaching_def, loops_around
    if depth <= 0:
        return None
    if isinstance(e, ast.Call) and src(e.func) in ("list", "tuple") and len(e.args) == 1 and not e.keywords:
        return _seq_desc(fn, e.args[0], at, depth - 1)
    if isinstance(e, ast.Call) and isinstance(e.func, ast.Attribute) and e.func.attr == "copy" and not e.args:
        return _seq_desc(fn, e.func.value, at, depth - 1)
    if isinstance(e, ast.Call) and isinstance(e.func, ast.Attribute) and e.func.attr == "Get_coords":
        return ("whole", src(e))          # the coordinate list of the topology, written in place
    if isinstance(e, ast.Subscript) and isinstance(e.slice, ast.Slice) and isinstance(e.value, ast.Name):
        inner = _seq_desc(fn, e.value, at, depth - 1)
        if inner is not None and inner[0] == "whole":
            return ("prefix", inner[1], src(e.slice))
        return None
    if isinstance(e, (ast.ListComp, ast.GeneratorExp)) and len(e.generators) == 1 and not e.generators[0].ifs:
        g = e.generators[0]
        if isinstance(e.elt, ast.Subscript) and isinstance(e.elt.value, ast.Name) and isinstance(g.target, ast.Name) \
                and isinstance(e.elt.slice, ast.Name) and e.elt.slice.id == g.target.id:
            it = g.iter
            if isinstance(it, ast.Call) and src(it.func) in ("list", "tuple", "sorted", "iter") and len(it.args) == 1:
                it = it.args[0] if src(it.func) != "sorted" else it
            if isinstance(it, ast.Call) and isinstance(it.func, ast.Attribute) and it.func.attr == "keys" and not it.args:
                it = it.func.value
            d = reaching_def(fn, it.id, at) if isinstance(it, ast.Name) else None
            key = ("seq", src(it), id(d) if d is not None else None)
            return ("sel", e.elt.value.id, key, src(it), e)
        return None
    if isinstance(e, ast.Name):
        d = reaching_def(fn, e.id, at)
        if d is None:
            return ("whole", e.id)
        v = d.value
        empty = (isinstance(v, (ast.List, ast.Tuple)) and not v.elts) or (isinstance(v, ast.Call) and src(v.func) == "list" and not v.args)
        if not empty:
            if isinstance(v, ast.Call) and not (src(v.func) in ("list", "tuple") or (isinstance(v.func, ast.Attribute) and v.func.attr == "copy")):
                return ("whole", e.id)          # produced by a call (Get_coords, ...): a base list
            if isinstance(v, (ast.ListComp, ast.GeneratorExp)) and isinstance(v.elt, ast.Call) and len(v.generators) == 1 and not v.generators[0].ifs:
                # one freshly produced item per iteration (topology.Sub(<mask>) for every mask): a base list, exactly like the loop that
                # appends one such item per iteration (which direction each mask keeps is not this rule's subject)
                return ("whole", e.id)
            return _seq_desc(fn, v, d, depth - 1)
        adds = [c for c in ast.walk(fn) if isinstance(c, ast.Call) and isinstance(c.func, ast.Attribute) and src(c.func.value) == e.id
                and c.func.attr in ("append", "extend", "insert") and d.lineno < c.lineno <= getattr(at, "lineno", 10 ** 9)]
        if len(adds) != 1 or adds[0].func.attr != "append" or len(adds[0].args) != 1:
            return None
        el = adds[0].args[0]
        lp = loops_around(fn, adds[0])
        st = adds[0]
        while not isinstance(st, ast.stmt):
            st = parent(st)
        if not lp or not any(st is b_ for b_ in lp[0].body):
            return None
        if isinstance(el, ast.Subscript) and isinstance(el.value, ast.Name) and not isinstance(el.slice, ast.Slice):
            return ("sel", el.value.id, ("loop", id(lp[0]), src(el.slice)), src(el.slice), st)
        if isinstance(el, ast.Call):
            return ("whole", e.id)          # one freshly produced item per iteration (topology.Sub(...)): a base list
        return ("built", e.id, src(el))
    return None


def _leading_selection(fn, d):
    """a selection `base[k] for the k of a loop over range(n)` (k the loop's own counter): -> text of n, else None"""
    if d[0] != "sel":
        return None
    key = d[2]
    if key[0] == "loop":
        lp = [x for x in ast.walk(fn) if isinstance(x, ast.For) and id(x) == key[1]]
        if lp and isinstance(lp[0].iter, ast.Call) and src(lp[0].iter.func) == "range" and len(lp[0].iter.args) == 1 \
                and isinstance(lp[0].target, ast.Name) and lp[0].target.id == d[3].strip():
            return src(lp[0].iter.args[0]).replace(" ", "")
        return None
    if key[0] == "seq":
        try:
            it = ast.parse(key[1], mode="eval").body
        except SyntaxError:
            return None
        if isinstance(it, ast.Call) and src(it.func) == "range" and len(it.args) == 1:
            return src(it.args[0]).replace(" ", "")
    return None


def _distinct_names(fn, a, b, at):
    """two index expressions that are different plain local names, neither defined as the other (so they can denote different axes)"""
    from .C01 import reaching_def
    import re
    if not (re.fullmatch(r"\w+", a) and re.fullmatch(r"\w+", b)) or a == b:
        return False
    for x, y in ((a, b), (b, a)):
        d = reaching_def(fn, x, at)
        if d is not None and any(isinstance(n, ast.Name) and n.id == y for n in ast.walk(d.value)):
            return False
    return True


def _base_role(fn, name):
    """'comm' for a list of the sub-communicators of a cartesian topology (its elements come from `.Sub(...)`), 'coord' for the
    coordinates of this process on that topology (`.Get_coords(...)`), else None"""
    if ".Get_coords(" in name:
        return "coord"
    for n in ast.walk(fn):
        if isinstance(n, ast.Assign) and len(n.targets) == 1 and isinstance(n.targets[0], ast.Name) and n.targets[0].id == name:
            if any(isinstance(c, ast.Call) and isinstance(c.func, ast.Attribute) and c.func.attr == "Get_coords" for c in ast.walk(n.value)):
                return "coord"
            if any(isinstance(c, ast.Call) and isinstance(c.func, ast.Attribute) and c.func.attr == "Sub" for c in ast.walk(n.value)):
                return "comm"
        if isinstance(n, ast.Call) and isinstance(n.func, ast.Attribute) and n.func.attr == "append" and src(n.func.value) == name \
                and any(isinstance(c, ast.Call) and isinstance(c.func, ast.Attribute) and c.func.attr == "Sub" for a in n.args for c in ast.walk(a)):
            return "comm"
    return None


def coords_follow_comms(chk, mod):
    """A2-coords-follow-communicators: a LayoutHandler is given a list of communicators and the list of this process's coordinates;
    Layout takes the block of axis k from coords[k] and the exchanges along axis k run on comms[k], so coords[k] must be the
    coordinate on the very cartesian direction comms[k] belongs to.  The two lists are read back to how they were selected from the
    per-direction lists of the topology and the two selections are compared with each other."""
    from .C01 import call_args
    rule = "A2-coords-follow-communicators"
    rel = mod.rel
    if not mod.has("LayoutHandler.__init__"):
        chk.ob(rule, mod.cls(CLS), "LayoutHandler(comms, coords, ...)", None, "LayoutHandler.__init__ not found", file=rel, func=CLS)
        return
    ctor = mod.func("LayoutHandler.__init__")
    n_sites = 0
    for q in ("LayoutSwapper.__init__", "getLayoutHandler"):
        if not mod.has(q):
            continue
        fn = mod.func(q)
        for c in [c for c in ast.walk(fn) if isinstance(c, ast.Call) and src(c.func) == "LayoutHandler"]:
            am = call_args(c, ctor)
            if am is None or "comms" not in am or "coords" not in am:
                chk.ob(rule, c, src(c)[:90], None, "the arguments of the constructor call could not be matched with (comms, coords, ...)",
                       file=rel, func=q)
                continue
            n_sites += 1
            st = c
            while not isinstance(st, ast.stmt):
                st = parent(st)
            dc, dr = _seq_desc(fn, am["comms"], st), _seq_desc(fn, am["coords"], st)
            ok, bad, why = None, None, ""
            if dc is None or dr is None or dc[0] == "built" or dr[0] == "built":
                why = f"how `{src(am['comms'] if dc is None or dc[0] == 'built' else am['coords'])[:50]}` is put together was not followed"
            elif _base_role(fn, dc[1]) != "comm" or _base_role(fn, dr[1]) != "coord":
                why = (f"`{dc[1]}` / `{dr[1]}` were not recognised as the sub-communicators (topology.Sub) and the coordinates (topology.Get_coords) "
                       "of one cartesian topology")
            elif dc[0] == "whole" and dr[0] == "whole":
                ok = True
            elif dc[0] == "sel" and dr[0] == "sel":
                if dc[2] == dr[2]:
                    ok = True
                    if dc[2][0] == "loop":
                        # same loop, same index expression: the index must not be rebound between the two appends
                        a, b = sorted((dc[4], dr[4]), key=lambda n: n.lineno)
                        lp = [x for x in ast.walk(fn) if isinstance(x, ast.For) and id(x) == dc[2][1]]
                        between = [x for x in (lp[0].body if lp else []) if a.lineno < x.lineno < b.lineno]
                        names = {n.id for n in ast.walk(ast.parse(dc[3], mode="eval")) if isinstance(n, ast.Name)}
                        if any(isinstance(n, ast.Name) and n.id in names and isinstance(n.ctx, ast.Store) for x in between for n in ast.walk(x)):
                            ok, why = None, f"`{dc[3]}` is rebound between the two appends"
                elif dc[2][0] == dr[2][0] == "loop" and dc[2][1] == dr[2][1] and _distinct_names(fn, dc[3], dr[3], dc[4]):
                    # ASSUMPTION (checked by _distinct_names): the two index names are different locals, neither defined from the other
                    bad = (f"in one iteration the communicator is taken at `{dc[1]}[{dc[3]}]` but the coordinate at `{dr[1]}[{dr[3]}]`: the handler "
                           "distributes axis k over the communicator comms[k] but takes this process's block from the coordinate on another "
                           "direction - blocks are not owned in the rank order of the communicator the exchanges run on")
                else:
                    why = f"the communicators are selected by `{dc[3]}`, the coordinates by `{dr[3]}`: whether these are the same axes was not established"
            elif dc[0] == "sel" and dr[0] in ("prefix", "whole") and _leading_selection(fn, dc) is not None:
                # the `selected` communicators are comms[0], comms[1], ... comms[n-1] (the index IS the counter of a loop over range(n)):
                # the leading entries, like the coordinates
                n_ = _leading_selection(fn, dc)
                ok = True if (dr[0] == "prefix" and dr[2].replace(" ", "") in (f":{n_}", f"0:{n_}")) else None
                why = "" if ok else f"the communicators are the leading `{n_}` entries, the coordinates `{dr[1]}[{dr[2] if dr[0] == 'prefix' else ':'}]`: not compared"
            elif dr[0] == "sel" and dc[0] in ("prefix", "whole") and _leading_selection(fn, dr) is not None:
                n_ = _leading_selection(fn, dr)
                ok = True if (dc[0] == "prefix" and dc[2].replace(" ", "") in (f":{n_}", f"0:{n_}")) else None
                why = "" if ok else f"the coordinates are the leading `{n_}` entries, the communicators `{dc[1]}[{dc[2] if dc[0] == 'prefix' else ':'}]`: not compared"
            elif dc[0] == "sel" and dr[0] in ("prefix", "whole"):
                # ASSUMPTION: the chosen directions need not be the leading ones (they are named by a list of axes, not counted from 0)
                bad = (f"the communicators handed to the handler are `{dc[1]}[a]` for the chosen cartesian directions a (`{dc[3]}`), but the coordinates are "
                       f"`{src(am['coords']) if not isinstance(am['coords'], ast.Name) else dr[1] + ('[' + dr[2] + ']' if dr[0] == 'prefix' else '')}`, "
                       "the LEADING entries of the coordinate list: whenever a chosen direction is not the leading one (e.g. process counts "
                       "[[p0, p1], p0, p1]: the p1 handler uses direction 1) its layouts take their block from the coordinate on the wrong direction - "
                       "blocks are no longer owned in the rank order of the communicator used for the exchanges (some owned by nobody, others twice, "
                       "or an IndexError in Layout)")
            elif dr[0] == "sel" and dc[0] in ("prefix", "whole"):
                bad = (f"the coordinates handed to the handler are `{dr[1]}[a]` for the chosen cartesian directions a (`{dr[3]}`), but the communicators "
                       "are the leading entries of the communicator list: the exchanges of axis k do not run on the direction the blocks are "
                       "assigned by")
            elif dc[0] == "prefix" and dr[0] == "prefix":
                ok = True if dc[2] == dr[2] else None
                why = "" if ok else f"different slices `{dc[2]}` / `{dr[2]}` of the two lists"
            else:
                why = f"selection forms {dc[0]} / {dr[0]}"
            o = chk.pat(rule, c, src(c)[:90], ok,
                        "coords[k] is the coordinate on the cartesian direction of comms[k] (both lists are selected by the same axes)", bad,
                        file=rel, func=q)
            if not ok and not bad:
                o.msg = "cannot decide: " + why
    if n_sites < 2:
        chk.ob(rule, mod.cls(CLS), "LayoutHandler(...) constructions", None,
               f"only {n_sites} construction(s) of a LayoutHandler from a topology found (LayoutSwapper.__init__ has two, getLayoutHandler one)",
               file=rel, func=CLS)


def getaxes_definition(chk, mod):
    """getAxes(G, S): (position in G's ordering of the dimension on S's extra process axis, that process axis).  Read in three steps,
    each in the forms it can be written in: the candidate list (S's communicators with those G also has struck out), the first
    candidate left, the returned pair."""
    ga = _lib_normal(mod.func("LayoutSwapper.getAxes"))
    env = inline_locals(ga)
    bad = comm_identity_diagnosis(ga)
    und = []
    rets = [n for n in ast.walk(ga) if isinstance(n, ast.Return) and n.value is not None]
    okga = None
    if bad is None:
        if not (len(rets) == 1 and isinstance(rets[0].value, ast.Tuple) and len(rets[0].value.elts) == 2):
            und.append("the returned pair")
        else:
            conv = getaxes_convention(mod)
            g_, s_ = rets[0].value.elts
            if conv is not None and conv[2] == 1:
                s_, g_ = g_, s_          # the pair is returned as (scattered-side axis, gathered-side axis): the callers are read accordingly
            sn = src(s_)
            gx = xsrc(g_, {k: v for k, v in env.items() if not (isinstance(s_, ast.Name) and k == s_.id)}).replace(" ", "")
            # (3) the gathered-side position
            if gx == f"layout_scattered.dims_order.index(layout_gathered.dims_order[{sn}])":
                # ASSUMPTION: the returned expression is literally layout_scattered.dims_order.index(layout_gathered.dims_order[<second result>])
                bad = (f"the first result is `{xsrc(g_, env)}`: a position in the SCATTERED ordering; callers use it to address the gathered layout's "
                       "view, which needs the position of the scattered dimension in the GATHERED ordering")
            elif gx != f"layout_gathered.dims_order.index(layout_scattered.dims_order[{sn}])":
                und.append(f"first result `{gx[:70]}`")
            # (2) the scattered-side axis: the first candidate that was not struck out
            sdef = env.get(s_.id) if isinstance(s_, ast.Name) else s_
            cand = None
            if sdef is not None:
                t = src(sdef).replace(" ", "")
                import re
                for pat_ in (r"np\.nonzero\(np\.array\((\w+)\)!=None\)\[0\]\[0\]",
                             r"next\(\((\w+)for\1,(\w+)inenumerate\((\w+)\)if\2isnotNone\)\)",
                             r"next\((\w+)for\1,(\w+)inenumerate\((\w+)\)if\2isnotNone\)",
                             r"\[(\w+)isnotNonefor\1in(\w+)\]\.index\(True\)",
                             r"\[(\w+)for\1,(\w+)inenumerate\((\w+)\)if\2isnotNone\]\[0\]"):
                    m_ = re.fullmatch(pat_, t)
                    if m_:
                        cand = m_.groups()[-1]
                        break
            shared = None
            if cand is None and sdef is not None:
                # the positions of the scattered handler's communicators that the gathered handler also has are collected in a set; the
                # result is the first position that is not in it
                for pat_ in (r"\[(\w+)for\1inrange\(len\(handlerS\.communicators\)\)if\1notin(\w+)\]\[0\]",
                             r"next\(\(?(\w+)for\1inrange\(len\(handlerS\.communicators\)\)if\1notin(\w+)\)?\)",
                             r"min\(set\(range\(len\(handlerS\.communicators\)\)\)-(\w+)\)",
                             r"\[(\w+)for\1,(?:\w+)inenumerate\(handlerS\.communicators\)if\1notin(\w+)\]\[0\]"):
                    m_ = re.fullmatch(pat_, t)
                    if m_:
                        shared = m_.groups()[-1]
                        break
            direct = False
            if cand is None and shared is None and sdef is not None:
                # the specification written out: the first position of the scattered handler's communicators that the gathered handler lacks
                for pat_ in (r"\[(\w+)for\1,(\w+)inenumerate\(handlerS\.communicators\)if\2notinhandlerG\.communicators\]\[0\]",
                             r"next\(\(?(\w+)for\1,(\w+)inenumerate\(handlerS\.communicators\)if\2notinhandlerG\.communicators\)?\)",
                             r"\[(\w+)notinhandlerG\.communicatorsfor\1inhandlerS\.communicators\]\.index\(True\)"):
                    if re.fullmatch(pat_, t):
                        direct = True
            if direct:
                hS = xsrc(ast.parse("handlerS", mode="eval").body, env).replace(" ", "")
                hG = xsrc(ast.parse("handlerG", mode="eval").body, env).replace(" ", "")
                if hS != "self._managers[self._handlers[layout_scattered.name]]" or hG != "self._managers[self._handlers[layout_gathered.name]]":
                    if hS == "self._managers[self._handlers[layout_gathered.name]]" and hG == "self._managers[self._handlers[layout_scattered.name]]":
                        bad = bad or "the roles of the two handlers are exchanged: the candidates are the GATHERED handler's communicators"
                    else:
                        und.append("the two handlers")
            elif shared is not None:
                ok1 = any(contains(ga, frag, vars=("c", "i")) for frag in (f"""
{shared} = set()
for c in handlerG.communicators:
    if c in handlerS.communicators:
        {shared}.add(handlerS.communicators.index(c))
""", f"""
{shared} = set()
for c in handlerG.communicators:
    if c in handlerS.communicators:
        i = handlerS.communicators.index(c)
        {shared}.add(i)
""", f"{shared} = {{handlerS.communicators.index(c) for c in handlerG.communicators if c in handlerS.communicators}}",
                    f"{shared} = set(handlerS.communicators.index(c) for c in handlerG.communicators if c in handlerS.communicators)",
                    f"{shared} = {{i for i, c in enumerate(handlerS.communicators) if c in handlerG.communicators}}",
                    f"{shared} = set(i for i, c in enumerate(handlerS.communicators) if c in handlerG.communicators)"))
                hS = xsrc(ast.parse("handlerS", mode="eval").body, env).replace(" ", "")
                hG = xsrc(ast.parse("handlerG", mode="eval").body, env).replace(" ", "")
                if not ok1:
                    und.append(f"construction of the set `{shared}` of shared communicator positions")
                if hS != "self._managers[self._handlers[layout_scattered.name]]" or hG != "self._managers[self._handlers[layout_gathered.name]]":
                    if hS == "self._managers[self._handlers[layout_gathered.name]]" and hG == "self._managers[self._handlers[layout_scattered.name]]":
                        bad = bad or "the roles of the two handlers are exchanged: the candidates are the GATHERED handler's communicators"
                    else:
                        und.append("the two handlers")
            elif cand is None:
                und.append(f"second result `{src(sdef)[:70] if sdef is not None else sn}` (expected: the first position of the candidate list that is not None)")
            else:
                # (1) the candidate list
                ok1 = contains(ga, f"""
{cand} = list(handlerS.communicators)
for c in handlerG.communicators:
    if c in {cand}:
        i = {cand}.index(c)
        {cand}[i] = None
""", vars=("c", "i")) or contains(ga, f"""
{cand} = list(handlerS.communicators)
for c in handlerG.communicators:
    if c in {cand}:
        {cand}[{cand}.index(c)] = None
""", vars=("c",)) or contains(ga, f"{cand} = [None if c in handlerG.communicators else c for c in handlerS.communicators]", vars=("c",)) or \
                    contains(ga, f"{cand} = [c if c not in handlerG.communicators else None for c in handlerS.communicators]", vars=("c",))
                hS = xsrc(ast.parse("handlerS", mode="eval").body, env).replace(" ", "")
                hG = xsrc(ast.parse("handlerG", mode="eval").body, env).replace(" ", "")
                if not ok1:
                    cdef = env.get(cand)
                    if cdef is not None and src(cdef).replace(" ", "") == "list(handlerS.communicators)" and \
                            not any(isinstance(n, ast.Assign) and isinstance(n.targets[0], ast.Subscript) and src(n.targets[0].value) == cand for n in ast.walk(ga)):
                        # ASSUMPTION: the candidate list is bound once to list(handlerS.communicators), no element of it is ever assigned, and the
                        # result is its first entry that is not None
                        bad = "no communicator of the gathered handler is removed from the candidates: the first process axis is returned whatever the handlers share"
                    else:
                        und.append("construction of the candidate list")
                if hS != "self._managers[self._handlers[layout_scattered.name]]" or hG != "self._managers[self._handlers[layout_gathered.name]]":
                    if hS == "self._managers[self._handlers[layout_gathered.name]]" and hG == "self._managers[self._handlers[layout_scattered.name]]":
                        bad = bad or "the roles of the two handlers are exchanged: the candidates are the GATHERED handler's communicators"
                    else:
                        und.append("the two handlers")
        okga = bad is None and not und
    o = chk.pat("A1-getaxes-definition", ga, "getAxes", okga,
                "returns (axis of the gathered layout carrying the scattered dimension, process axis of the scattered handler "
                "whose communicator the gathered handler lacks)", bad, file=U.LAYOUT, func="LayoutSwapper.getAxes")
    if not okga and not bad:
        o.msg = "getAxes could not be read completely: " + "; ".join(und)


# ------------------------------------------------------------------ A1-equal-handlers-same-dimension
# Two layouts of two DIFFERENT handlers with the SAME number of process directions are `directly connected` (and then moved by a
# purely local copy: the swapper treats the pair as a transpose) only if every shared communicator distributes the same dimension
# in both layouts.  The rule reads the method that decides direct connection (found by role) as a DEPENDENCE problem: the function
# is followed forward, statement by statement, under the assumption (handlers differ, counts are equal); every value is abstracted
# to the set of SOURCES it was computed from (communicators of handler 1/2, dimension order of layout 1/2, counts, ... - no value
# is ever computed), tests the assumption decides prune a branch, the others fork the path and become control dependences of what
# follows.  A way through the function that can return a true value must have the dimension orders of BOTH layouts, paired through
# the communicators of both handlers, among the sources of (returned value + the tests it was reached under).
class _Unfollowed(Exception):
    """a construct the dependence reader does not model was met on a followed path"""


class _DV:
    """abstract value: `tags` = the sources it depends on (C1/C2 communicators of handler 1/2, D1/D2 dimension order of layout 1/2,
    D? dimension order of a layout that was not identified, N number of process directions, P process counts/coordinates, H handler
    identity, M / Mc = a comparison whose operands carry D1 and D2 / and also C1 and C2, `?...` = a source that was not followed);
    `kind` = what the value IS when that is known (('name'|'hidx'|'handler'|'layout'|'dims'|'comms'|'comm'|'nprocs', k), ('count',),
    ('self',), ...); `sym` = symbolic integer under the assumption; `const` = (value,) of a literal; `elts` = the parts of a
    tuple/list display; `elem` = the element of an iterable; `tv` = truth value decided by the assumption"""
    __slots__ = ("tags", "kind", "sym", "const", "elts", "elem", "tv", "extra")

    def __init__(self, tags=(), kind=None, sym=None, const=None, elts=None, elem=None, tv=None, extra=None):
        self.tags = frozenset(tags)
        self.kind, self.sym, self.const, self.elts, self.elem, self.tv, self.extra = kind, sym, const, elts, elem, tv, extra

    def plus(self, tags):
        tags = frozenset(tags)
        if tags <= self.tags:
            return self
        return _DV(self.tags | tags, self.kind, self.sym, self.const, self.elts, self.elem, self.tv, self.extra)


def _dv_join(a, b, depth=3):
    if a is None:
        return b
    if b is None or a is b:
        return a
    el = None
    if depth > 0 and (a.elem is not None or b.elem is not None):
        el = _dv_join(a.elem, b.elem, depth - 1)
    elts = None
    if depth > 0 and a.elts is not None and b.elts is not None and len(a.elts) == len(b.elts):
        elts = [_dv_join(x, y, depth - 1) for x, y in zip(a.elts, b.elts)]
    same_sym = a.sym is not None and b.sym is not None and a.sym == b.sym
    same_kind = a.kind == b.kind and (a.extra is b.extra)
    return _DV(a.tags | b.tags, a.kind if same_kind else None, a.sym if same_sym else None,
               a.const if (a.const is not None and a.const == b.const) else None, elts, el, a.tv if a.tv == b.tv else None,
               a.extra if same_kind else None)


class _DState:
    __slots__ = ("env", "ctrl", "shaky")

    def __init__(self, env, ctrl=(), shaky=None):
        self.env, self.ctrl, self.shaky = env, tuple(ctrl), shaky

    def copy(self):
        return _DState(dict(self.env), self.ctrl, self.shaky)

    def ctrl_tags(self):
        out = set()
        for c in self.ctrl:
            out |= c.tags
        return out


_DIMS_ATTRS = ("dims_order", "inv_dims_order")
_PURE_BUILTINS = {"all", "any", "len", "enumerate", "zip", "sorted", "set", "frozenset", "list", "tuple", "dict", "range", "abs", "sum",
                  "min", "max", "map", "filter", "bool", "int", "float", "str", "reversed", "iter", "next", "id", "isinstance", "type",
                  "repr", "hash", "divmod", "round", "print", "slice"}
_PURE_MODULES = {"np", "numpy", "operator", "itertools", "functools", "math", "collections"}
_DATA_METHODS = {"index", "count", "Get_size", "Get_rank", "Get_dim", "Get_topo", "Get_coords", "Compare", "items", "keys", "values",
                 "get", "copy", "issubset", "issuperset", "union", "intersection", "difference", "symmetric_difference", "isdisjoint",
                 "tolist", "all", "any", "sum", "nonzero", "astype", "flatten", "ravel", "pop"}
_MUTATORS = {"append", "add", "extend", "update", "insert", "remove", "discard", "pop", "setdefault", "sort", "reverse", "clear"}
_SET_COMPARE = {"issubset", "issuperset", "isdisjoint"}


class _DepReader:
    """forward reading of one function in the dependence domain (see _DV)"""

    def __init__(self, mod, cls, depth=0):
        import sympy
        self.mod, self.cls, self.depth = mod, cls, depth
        self.N = sympy.Symbol("N", integer=True, nonnegative=True)
        self.paths = 0

    # ---- classes of the module the swapper derives from (a method may live in a base class or mixin)
    def _mro(self):
        out, todo = [], [self.cls]
        while todo:
            c = todo.pop(0)
            if c in out or not self.mod.has(c):
                continue
            out.append(c)
            todo += [src(b).split(".")[-1] for b in self.mod.cls(c).bases]
        return out

    def method(self, name):
        for c in self._mro():
            if self.mod.has(f"{c}.{name}"):
                n = self.mod.get(f"{c}.{name}")
                if isinstance(n, ast.FunctionDef):
                    return n
        return None

    # ---- expressions
    def unknown(self, what, *parts):
        tags = {"?" + what}
        for p in parts:
            if p is not None:
                tags |= p.tags
        return _DV(tags)

    def elem_of(self, v):
        if v.elem is not None:
            return v.elem
        if v.elts:
            e = None
            for x in v.elts:
                e = _dv_join(e, x)
            return e
        if v.kind and v.kind[0] == "comms":
            return _DV({f"C{v.kind[1]}"}, kind=("comm", v.kind[1]))
        return _DV(v.tags)

    def ev(self, e, st):
        m = getattr(self, "ev_" + type(e).__name__, None)
        if m is None:
            raise _Unfollowed(f"expression `{src(e)[:50]}` ({type(e).__name__}) is not modelled")
        return m(e, st)

    def ev_Constant(self, e, st):
        import sympy
        v = e.value
        return _DV((), const=(v,), sym=sympy.Integer(v) if isinstance(v, int) and not isinstance(v, bool) else None,
                   tv=bool(v) if isinstance(v, (bool, int, str, type(None))) else None)

    def ev_Name(self, e, st):
        if e.id in st.env:
            return st.env[e.id]
        if e.id == "self":
            return _DV((), kind=("self",))
        import builtins
        if hasattr(builtins, e.id):
            return _DV((), kind=("builtin", e.id))
        if e.id in _PURE_MODULES:
            return _DV((), kind=("module", e.id))
        if self.mod.has(e.id) and isinstance(self.mod.get(e.id), ast.FunctionDef):
            return _DV((), kind=("func", e.id))
        if self.mod.has(e.id) and isinstance(self.mod.get(e.id), ast.ClassDef):
            return _DV((), kind=("class", e.id))
        return self.unknown(f"name `{e.id}`")

    def ev_Attribute(self, e, st):
        b = self.ev(e.value, st)
        a = e.attr
        k = b.kind
        if a in _DIMS_ATTRS:
            if k and k[0] in ("layout", "name"):
                return _DV({f"D{k[1]}"}, kind=("dims", k[1]))
            # ASSUMPTION (VIOLATED needs every dimension order read to belong to an identified layout): not the case here
            return _DV(b.tags | {"D?"})
        if k is None:
            return _DV(b.tags, kind=("method", a), extra=b)
        if k[0] == "self":
            if a == "_handlers":
                return _DV((), kind=("handlers_map",))
            if a == "_managers":
                return _DV((), kind=("managers",))
            if a == "_layouts":
                return _DV(())
            f = self.method(a)
            if f is not None:
                if any(src(d) in ("property", "functools.cached_property", "cached_property") for d in f.decorator_list):
                    return self.call_function(f, [b], {}, a)
                return _DV((), kind=("selfmethod", a))
            return self.unknown(f"attribute `self.{a}` (what it holds was not followed)")
        if k[0] == "handler":
            if a == "communicators":
                return _DV({f"C{k[1]}"}, kind=("comms", k[1]))
            if a == "nProcs":
                return _DV({"P"}, kind=("nprocs", k[1]))
            if a == "nDistributedDirections":
                return _DV({"N"}, kind=("count",), sym=self.N)
            if a == "mpiCoords":
                return _DV({"P"})
            if a == "getLayout":
                return _DV((), kind=("getlayout",))
            return self.unknown(f"`{src(e)[:40]}` (attribute of a handler that is not modelled)")
        if k[0] == "layout":
            if a == "name":
                return _DV((), kind=("name", k[1]))
            return self.unknown(f"`{src(e)[:40]}` (attribute of a layout other than its dimension order)")
        if k[0] == "module":
            return _DV((), kind=("purefunc", f"{k[1]}.{a}"))
        if k[0] in ("class",):
            f = self.mod.get(f"{k[1]}.{a}") if self.mod.has(f"{k[1]}.{a}") else None
            if isinstance(f, ast.FunctionDef) and any(src(d) == "staticmethod" for d in f.decorator_list):
                return _DV((), kind=("staticfunc", f"{k[1]}.{a}"))
            return self.unknown(f"`{src(e)[:40]}`")
        if k[0] in ("handlers_map", "managers"):
            return _DV({"H"}, kind=("method", a), extra=b)
        return _DV(b.tags, kind=("method", a), extra=b)

    def ev_Subscript(self, e, st):
        b = self.ev(e.value, st)
        if isinstance(e.slice, ast.Slice):
            parts = [self.ev(x, st) for x in (e.slice.lower, e.slice.upper, e.slice.step) if x is not None]
            tags = set(b.tags)
            for p in parts:
                tags |= p.tags
            return _DV(tags, kind=b.kind if b.kind and b.kind[0] in ("comms", "dims", "nprocs") else None, elem=b.elem)
        i = self.ev(e.slice, st)
        k = b.kind
        if k and k[0] == "handlers_map":
            if i.kind and i.kind[0] == "name":
                return _DV({"H"}, kind=("hidx", i.kind[1]))
            return self.unknown(f"`{src(e)[:40]}` (handler of a name that is not one of the two layouts)", i)
        if k and k[0] == "managers":
            if i.kind and i.kind[0] == "hidx":
                return _DV({"H"}, kind=("handler", i.kind[1]))
            return self.unknown(f"`{src(e)[:40]}` (a handler that is not the one of either layout)", i)
        if k and k[0] == "comms":
            return _DV(b.tags | i.tags, kind=("comm", k[1]))
        if b.elts is not None and i.const is not None and isinstance(i.const[0], int) and -len(b.elts) <= i.const[0] < len(b.elts):
            return b.elts[i.const[0]]
        if b.elem is not None:
            return b.elem.plus(b.tags | i.tags)
        return _DV(b.tags | i.tags)

    def _seq(self, e, st):
        vals = [self.ev(x, st) for x in e.elts]
        tags = set()
        for v in vals:
            tags |= v.tags
        return _DV(tags, elts=vals)

    ev_Tuple = ev_List = ev_Set = _seq

    def ev_Starred(self, e, st):
        return self.ev(e.value, st)

    def ev_Dict(self, e, st):
        tags = set()
        el = None
        for k_, v_ in zip(e.keys, e.values):
            if k_ is not None:
                tags |= self.ev(k_, st).tags
            v = self.ev(v_, st)
            tags |= v.tags
            el = _dv_join(el, v)
        return _DV(tags, elem=el)

    def ev_JoinedStr(self, e, st):
        tags = set()
        for x in e.values:
            tags |= self.ev(x, st).tags
        return _DV(tags)

    def ev_FormattedValue(self, e, st):
        return _DV(self.ev(e.value, st).tags)

    def ev_NamedExpr(self, e, st):
        v = self.ev(e.value, st)
        self.bind(e.target, v, st)
        return v

    def ev_Lambda(self, e, st):
        sub = st.copy()
        for a in e.args.args + e.args.kwonlyargs + ([e.args.vararg] if e.args.vararg else []) + ([e.args.kwarg] if e.args.kwarg else []):
            sub.env[a.arg] = _DV(())
        return _DV(self.ev(e.body, sub).tags, kind=("lambda",), extra=(e, dict(st.env)))

    def ev_UnaryOp(self, e, st):
        v = self.ev(e.operand, st)
        if isinstance(e.op, ast.Not):
            return _DV(v.tags, tv=None if v.tv is None else not v.tv)
        if isinstance(e.op, ast.USub) and v.sym is not None:
            return _DV(v.tags, sym=-v.sym)
        return _DV(v.tags)

    def ev_BinOp(self, e, st):
        a, b = self.ev(e.left, st), self.ev(e.right, st)
        sym = None
        if a.sym is not None and b.sym is not None:
            if isinstance(e.op, ast.Add):
                sym = a.sym + b.sym
            elif isinstance(e.op, ast.Sub):
                sym = a.sym - b.sym
            elif isinstance(e.op, ast.Mult):
                sym = a.sym * b.sym
        return _DV(a.tags | b.tags, sym=sym)

    def ev_BoolOp(self, e, st):
        vals = [self.ev(x, st) for x in e.values]
        tags = set()
        for v in vals:
            tags |= v.tags
        tvs = [v.tv for v in vals]
        if isinstance(e.op, ast.And):
            tv = False if any(t is False for t in tvs) else (True if all(t is True for t in tvs) else None)
        else:
            tv = True if any(t is True for t in tvs) else (False if all(t is False for t in tvs) else None)
        return _DV(tags, tv=tv)

    def ev_IfExp(self, e, st):
        t = self.ev(e.test, st)
        if t.tv is True:
            return self.ev(e.body, st)
        if t.tv is False:
            return self.ev(e.orelse, st)
        return _dv_join(self.ev(e.body, st), self.ev(e.orelse, st)).plus(t.tags)

    _IDENT = ("name", "hidx", "handler", "layout")

    def _cmp(self, op, a, b):
        """truth value of one comparison under the assumption (the two handlers are different objects with different indices, so the
        two names and the two layouts differ too; the two counts are the same number N), None when it does not decide it"""
        import sympy
        if a.kind and b.kind and a.kind[0] == b.kind[0] and a.kind[0] in self._IDENT and isinstance(op, (ast.Eq, ast.NotEq, ast.Is, ast.IsNot)):
            same = a.kind[1] == b.kind[1]
            return same if isinstance(op, (ast.Eq, ast.Is)) else not same
        if a.sym is not None and b.sym is not None:
            rel = {ast.Eq: sympy.Eq, ast.NotEq: sympy.Ne, ast.Lt: sympy.Lt, ast.LtE: sympy.Le, ast.Gt: sympy.Gt, ast.GtE: sympy.Ge}.get(type(op))
            if rel is not None:
                try:
                    r = sympy.simplify(rel(a.sym, b.sym))
                except Exception:
                    return None
                if r is sympy.true:
                    return True
                if r is sympy.false:
                    return False
            return None
        if a.const is not None and b.const is not None and isinstance(op, (ast.Eq, ast.NotEq)):
            return (a.const[0] == b.const[0]) if isinstance(op, ast.Eq) else (a.const[0] != b.const[0])
        return None

    @staticmethod
    def _meet(tags):
        tags = set(tags)
        if {"D1", "D2"} <= tags:
            tags.add("M")
            if {"C1", "C2"} <= tags:
                tags.add("Mc")
        return tags

    def ev_Compare(self, e, st):
        vals = [self.ev(x, st) for x in [e.left] + e.comparators]
        tags = set()
        for v in vals:
            tags |= v.tags
        tvs = [self._cmp(op, a, b) for op, a, b in zip(e.ops, vals, vals[1:])]
        tv = False if any(t is False for t in tvs) else (True if all(t is True for t in tvs) else None)
        return _DV(self._meet(tags), tv=tv)

    def _comp(self, e, st, elts):
        sub = st.copy()
        tags = set()
        for g in e.generators:
            if g.is_async:
                raise _Unfollowed("async comprehension")
            it = self.ev(g.iter, sub)
            tags |= it.tags
            self.bind(g.target, self.elem_of(it), sub)
            for c in g.ifs:
                tags |= self.ev(c, sub).tags
        vals = [self.ev(x, sub) for x in elts]
        for v in vals:
            tags |= v.tags
        if len(vals) == 1:
            el = vals[0]
        else:
            el = _DV(set().union(*[v.tags for v in vals]), elts=vals)
        return _DV(tags, elem=el)

    def ev_ListComp(self, e, st):
        return self._comp(e, st, [e.elt])

    ev_SetComp = ev_GeneratorExp = ev_ListComp

    def ev_DictComp(self, e, st):
        return self._comp(e, st, [e.key, e.value])

    def ev_Call(self, e, st):
        f = self.ev(e.func, st)
        if any(k.arg is None for k in e.keywords):
            return self.unknown(f"`{src(e)[:40]}` (** arguments)")
        args = [self.ev(a, st) for a in e.args]
        kws = {k.arg: self.ev(k.value, st) for k in e.keywords}
        return self.apply(f, args, kws, e, st)

    def apply(self, f, args, kws, e, st):
        """the value of calling the abstract callable `f` (e = the call expression it is written in)"""
        import sympy
        allv = args + list(kws.values())
        tags = set()
        for v in allv:
            tags |= v.tags
        k = f.kind
        if k and k[0] == "builtin":
            n = k[1]
            if n not in _PURE_BUILTINS:
                return self.unknown(f"call of `{n}`", *allv)
            if n == "len" and len(args) == 1 and args[0].kind and args[0].kind[0] in ("comms", "nprocs") and not kws:
                return _DV({"N"}, kind=("count",), sym=self.N)
            if n in ("abs", "max", "min") and args and all(a.sym is not None for a in args) and not kws and not any(isinstance(a, ast.Starred) for a in e.args):
                fn_ = {"abs": sympy.Abs, "max": sympy.Max, "min": sympy.Min}[n]
                if n != "abs" or len(args) == 1:
                    return _DV(tags, sym=fn_(*[a.sym for a in args]))
            if n == "enumerate" and args:
                el = self.elem_of(args[0])
                return _DV(tags, elem=_DV(tags | el.tags, elts=[_DV(args[0].tags), el]))
            if n == "zip":
                els = [self.elem_of(a) for a in args]
                return _DV(tags, elem=_DV(tags, elts=els))
            if n in ("list", "tuple", "sorted", "set", "frozenset", "reversed", "iter") and args:
                a0 = args[0]
                keep = a0.kind if n in ("list", "tuple") and a0.kind and a0.kind[0] in ("comms", "dims", "nprocs") else None
                return _DV(tags, kind=keep, elem=self.elem_of(a0).plus(tags - a0.tags), elts=a0.elts if n in ("list", "tuple") else None)
            if n == "next" and args:
                return self.elem_of(args[0]).plus(tags)
            if n == "map" and len(args) >= 2 and args[0].kind and args[0].kind[0] in ("lambda", "localfunc", "func", "selfmethod", "staticfunc"):
                r = self.apply(args[0], [self.elem_of(a) for a in args[1:]], {}, e, st)
                return _DV(tags | r.tags, elem=r.plus(tags))
            if n in ("map", "filter") and len(args) >= 2:
                return _DV(tags, elem=_DV(tags))
            if n == "dict" and len(args) == 1 and args[0].elem is not None and args[0].elem.elts and len(args[0].elem.elts) == 2:
                return _DV(tags, elem=args[0].elem.elts[1].plus(tags))
            return _DV(tags)
        if k and k[0] == "purefunc":
            if k[1].split(".")[-1] in ("array_equal", "array_equiv", "equal", "not_equal", "isin", "in1d", "setdiff1d", "setxor1d", "eq", "ne", "allclose"):
                tags = self._meet(tags)
            return _DV(tags)
        if k and k[0] == "lambda":
            node, closure = f.extra
            la = node.args
            if la.vararg or la.kwarg or la.kwonlyargs or la.posonlyargs or la.defaults or kws or len(args) != len(la.args) \
                    or any(isinstance(a, ast.Starred) for a in e.args):
                return _DV(tags | f.tags)
            sub = _DState(dict(closure))
            for a_, v_ in zip(la.args, args):
                sub.env[a_.arg] = v_
            return self.ev(node.body, sub)
        if k and k[0] == "localfunc":
            fdef, closure = f.extra
            if any(isinstance(a, ast.Starred) for a in e.args):
                return self.unknown(f"call of `{fdef.name}`", *allv)
            return self.call_function(fdef, args, kws, fdef.name, closure=closure)
        if k and k[0] == "getlayout":
            if len(allv) == 1 and allv[0].kind and allv[0].kind[0] == "name":
                return _DV((), kind=("layout", allv[0].kind[1]))
            return self.unknown(f"`{src(e)[:40]}` (a layout that is not one of the two compared)", *allv)
        if k and k[0] == "selfmethod":
            fdef = self.method(k[1])
            static = any(src(d) == "staticmethod" for d in fdef.decorator_list)
            if any(src(d) == "classmethod" for d in fdef.decorator_list) or any(isinstance(a, ast.Starred) for a in e.args):
                return self.unknown(f"call of `self.{k[1]}`", *allv)
            return self.call_function(fdef, ([] if static else [_DV((), kind=("self",))]) + args, kws, f"self.{k[1]}")
        if k and k[0] in ("func", "staticfunc"):
            if any(isinstance(a, ast.Starred) for a in e.args):
                return self.unknown(f"call of `{k[1]}`", *allv)
            return self.call_function(self.mod.func(k[1]), args, kws, k[1])
        if k and k[0] == "method":
            base = f.extra
            btags = set(base.tags) if base is not None else set()
            name = k[1]
            bk = base.kind if base is not None else None
            if bk and bk[0] == "handlers_map" and name == "get" and args and args[0].kind and args[0].kind[0] == "name":
                return _DV({"H"}, kind=("hidx", args[0].kind[1]))
            if name in _DATA_METHODS or name in _MUTATORS:
                out = tags | btags
                if name in _SET_COMPARE:
                    out = self._meet(out)
                if name == "index" and bk and bk[0] == "comms":
                    return _DV(out)
                return _DV(out, elem=base.elem if name in ("copy", "union", "intersection", "difference") and base is not None else None)
            return self.unknown(f"call of method `.{name}` on `{src(e.func.value)[:30]}`", base, *allv)
        if k and k[0] == "class":
            return self.unknown(f"construction of `{k[1]}`", *allv)
        return self.unknown(f"call `{src(e)[:40]}`", f, *allv)

    def call_function(self, fdef, args, kws, name, closure=None):
        """the value a function of the module returns for abstract arguments: its body is read the same way, the values of its
        returns (with the tests they were reached under) are joined"""
        if self.depth >= 3:
            return self.unknown(f"call of `{name}` (nesting too deep)", *args, *kws.values())
        a = fdef.args
        if a.vararg or a.kwarg or a.posonlyargs:
            return self.unknown(f"call of `{name}` (variadic signature)", *args, *kws.values())
        params = [x.arg for x in a.args]
        if len(args) > len(params):
            return self.unknown(f"call of `{name}` (arguments do not match)", *args, *kws.values())
        env = dict(closure or {})
        for p in params:
            env.pop(p, None)
        env.update(zip(params, args))
        sub = _DepReader(self.mod, self.cls, self.depth + 1)
        try:
            for p, d in zip(params[len(params) - len(a.defaults):], a.defaults):
                if p not in env and p not in kws:
                    env[p] = sub.ev(d, _DState({}))
            for kw, d in zip(a.kwonlyargs, a.kw_defaults):
                if kw.arg not in kws and d is not None:
                    env[kw.arg] = sub.ev(d, _DState({}))
            for k_, v_ in kws.items():
                if k_ in env or k_ not in params + [x.arg for x in a.kwonlyargs]:
                    return self.unknown(f"call of `{name}` (arguments do not match)", *args, *kws.values())
                env[k_] = v_
            if any(p not in env for p in params):
                return self.unknown(f"call of `{name}` (arguments do not match)", *args, *kws.values())
            outs = sub.block(fdef.body, _DState(env))
        except _Unfollowed as ex:
            return self.unknown(f"call of `{name}` (not followed: {ex})", *args, *kws.values())
        res = None
        for status, st2, pay in outs:
            if status == "ret":
                res = _dv_join(res, pay[1].plus(st2.ctrl_tags())) if res is not None else pay[1].plus(st2.ctrl_tags())
            elif status == "fall":
                v = _DV(st2.ctrl_tags(), const=(None,), tv=False)
                res = _dv_join(res, v) if res is not None else v
        return res if res is not None else _DV((), const=(None,), tv=False)

    # ---- statements
    def bind(self, target, v, st):
        if isinstance(target, ast.Name):
            st.env[target.id] = v
        elif isinstance(target, (ast.Tuple, ast.List)):
            if v.elts is not None and len(v.elts) == len(target.elts) and not any(isinstance(t, ast.Starred) for t in target.elts):
                for t, x in zip(target.elts, v.elts):
                    self.bind(t, x, st)
            else:
                el = self.elem_of(v)
                for t in target.elts:
                    self.bind(t.value if isinstance(t, ast.Starred) else t, _DV(el.tags | v.tags), st)
        elif isinstance(target, ast.Starred):
            self.bind(target.value, v, st)
        elif isinstance(target, (ast.Subscript, ast.Attribute)):
            # weak update of the container a local name holds: it now also depends on the stored value and on the position
            root = target
            while isinstance(root, (ast.Subscript, ast.Attribute)):
                root = root.value
            extra = set(v.tags)
            if isinstance(target, ast.Subscript) and not isinstance(target.slice, ast.Slice):
                extra |= self.ev(target.slice, st).tags
            if isinstance(root, ast.Name) and root.id in st.env:
                old = st.env[root.id]
                st.env[root.id] = _DV(old.tags | extra, kind=old.kind, elem=_dv_join(old.elem, _DV(v.tags)) if old.elem is not None else None)
            elif isinstance(root, ast.Name) and root.id == "self":
                raise _Unfollowed(f"the function stores into `{src(target)[:40]}`")
        else:
            raise _Unfollowed(f"assignment target `{src(target)[:40]}`")

    def block(self, stmts, st):
        live, out = [st], []
        for s in stmts:
            nxt = []
            for cur in live:
                for status, st2, pay in self.stmt(s, cur):
                    if status == "fall":
                        nxt.append(st2)
                    else:
                        out.append((status, st2, pay))
            live = nxt
            if len(live) + len(out) > 64:
                raise _Unfollowed("more than 64 ways through the function")
            if not live:
                break
        return out + [("fall", x, None) for x in live]

    def stmt(self, s, st):
        st = st.copy()
        ct = st.ctrl_tags()
        if isinstance(s, ast.Expr):
            if isinstance(s.value, ast.Constant):
                return [("fall", st, None)]
            c = s.value
            if isinstance(c, ast.Call) and isinstance(c.func, ast.Attribute) and c.func.attr in _MUTATORS and isinstance(c.func.value, ast.Name) \
                    and c.func.value.id in st.env:
                tags = set(ct)
                vals = [self.ev(a, st) for a in c.args] + [self.ev(k.value, st) for k in c.keywords]
                for v in vals:
                    tags |= v.tags
                old = st.env[c.func.value.id]
                el = old.elem
                if c.func.attr in ("append", "add") and len(vals) == 1:
                    el = _dv_join(el, vals[0].plus(ct)) if el is not None else vals[0].plus(ct)
                elif c.func.attr in ("extend", "update") and len(vals) == 1:
                    el = _dv_join(el, self.elem_of(vals[0]).plus(ct)) if el is not None else self.elem_of(vals[0]).plus(ct)
                elif el is not None:
                    el = el.plus(tags)
                st.env[c.func.value.id] = _DV(old.tags | tags, elem=el)
                return [("fall", st, None)]
            v = self.ev(c, st)
            unk = {t for t in v.tags if t.startswith("?")}
            if unk:
                # a call that was not followed may change what its arguments hold
                for n in ast.walk(c):
                    if isinstance(n, ast.Name) and n.id in st.env:
                        st.env[n.id] = st.env[n.id].plus(unk)
            return [("fall", st, None)]
        if isinstance(s, ast.Assign):
            v = self.ev(s.value, st).plus(ct)
            for t in s.targets:
                self.bind(t, v, st)
            return [("fall", st, None)]
        if isinstance(s, ast.AnnAssign):
            if s.value is not None:
                self.bind(s.target, self.ev(s.value, st).plus(ct), st)
            return [("fall", st, None)]
        if isinstance(s, ast.AugAssign):
            v = self.ev(s.value, st).plus(ct)
            if isinstance(s.target, ast.Name):
                old = st.env.get(s.target.id)
                st.env[s.target.id] = _DV((old.tags if old is not None else frozenset()) | v.tags, elem=_dv_join(old.elem, v.elem) if old is not None else v.elem)
            else:
                self.bind(s.target, v, st)
            return [("fall", st, None)]
        if isinstance(s, ast.If):
            t = self.ev(s.test, st)
            if t.tv is True:
                return self.block(s.body, st)
            if t.tv is False:
                return self.block(s.orelse, st)
            out = []
            for body in (s.body, s.orelse):
                st2 = st.copy()
                st2.ctrl = st.ctrl + (t,)
                if t.tags & {"N", "H"} and st2.shaky is None:
                    # ASSUMPTION of a VIOLATED verdict downstream: the way is feasible for two different handlers with equal counts.
                    # A test that reads the counts / the handlers' identity and is not decided by the assumption leaves that open
                    st2.shaky = f"`{src(s.test)[:60]}` reads the handlers' identity or counts but is not decided by the assumption"
                out += self.block(body, st2)
            return out
        if isinstance(s, ast.For):
            return self.do_for(s, st)
        if isinstance(s, ast.Return):
            return self.do_return(s, s.value, st)
        if isinstance(s, ast.Raise):
            return [("raise", st, None)]
        if isinstance(s, ast.Assert):
            t = self.ev(s.test, st)
            if t.tv is False:
                return [("raise", st, None)]
            if t.tv is None:
                st.ctrl = st.ctrl + (t,)
            return [("fall", st, None)]
        if isinstance(s, (ast.Pass, ast.Delete)):
            return [("fall", st, None)]
        if isinstance(s, ast.Break):
            return [("brk", st, None)]
        if isinstance(s, ast.Continue):
            return [("cont", st, None)]
        if isinstance(s, (ast.Import, ast.ImportFrom)):
            for al in s.names:
                n = (al.asname or al.name).split(".")[0]
                st.env[n] = _DV((), kind=("module", n)) if n in _PURE_MODULES and isinstance(s, ast.Import) else self.unknown(f"imported name `{n}`")
            return [("fall", st, None)]
        if isinstance(s, ast.FunctionDef) and not s.decorator_list:
            # a local function: read at its calls, in the environment it closes over (the names bound so far)
            if any(isinstance(x, (ast.Nonlocal, ast.Global, ast.Yield, ast.YieldFrom)) for x in ast.walk(s)):
                raise _Unfollowed(f"the local function `{s.name}` rebinds outer names or is a generator")
            st.env[s.name] = _DV((), kind=("localfunc",), extra=(s, st.env))
            return [("fall", st, None)]
        raise _Unfollowed(f"a `{type(s).__name__}` statement (line {getattr(s, 'lineno', '?')}) is not modelled")

    def do_return(self, s, value, st):
        """`return A or B` is true as soon as A is: each operand is a way to return a true value of its own"""
        if value is None:
            return [("ret", st, (s, _DV((), const=(None,), tv=False), None))]
        if isinstance(value, ast.BoolOp) and isinstance(value.op, ast.Or):
            out, cur = [], st
            for x in value.values:
                v = self.ev(x, cur)
                out.append(("ret", cur, (s, v, x)))
                if v.tv is True:
                    break
                nxt = cur.copy()
                if v.tv is None:
                    nxt.ctrl = cur.ctrl + (_DV(v.tags),)
                cur = nxt
            return out
        if isinstance(value, ast.IfExp):
            t = self.ev(value.test, st)
            if t.tv is True:
                return self.do_return(s, value.body, st)
            if t.tv is False:
                return self.do_return(s, value.orelse, st)
            out = []
            for x in (value.body, value.orelse):
                st2 = st.copy()
                st2.ctrl = st.ctrl + (t,)
                if t.tags & {"N", "H"} and st2.shaky is None:
                    st2.shaky = f"`{src(value.test)[:60]}` reads the handlers' identity or counts but is not decided by the assumption"
                out += self.do_return(s, x, st2)
            return out
        return [("ret", st, (s, self.ev(value, st), value))]

    def do_for(self, s, st):
        it = self.ev(s.iter, st)
        el = self.elem_of(it)
        entry = st.ctrl
        cur = st.copy()
        rets, exit_tags, shaky = [], set(), st.shaky
        merged = cur
        for _ in range(4):
            body_st = cur.copy()
            body_st.ctrl = entry + (_DV(it.tags),)
            self.bind(s.target, el, body_st)
            outs = self.block(s.body, body_st)
            merged, rets, exit_tags = cur.copy(), [], set()
            for status, st2, pay in outs:
                beyond = set()
                for c in st2.ctrl[len(entry):]:
                    beyond |= c.tags
                shaky = shaky or st2.shaky
                if status == "ret":
                    rets.append((status, st2, pay))
                    exit_tags |= beyond
                elif status == "raise":
                    exit_tags |= beyond
                else:
                    if status == "brk":
                        exit_tags |= beyond
                    for n, v in st2.env.items():
                        merged.env[n] = _dv_join(merged.env.get(n), v)
            stable = all(n in cur.env and merged.env[n].tags == cur.env[n].tags for n in merged.env)
            cur = merged
            if stable:
                break
        after = merged.copy()
        after.ctrl = entry + ((_DV(exit_tags | it.tags),) if exit_tags else ())
        after.shaky = shaky
        return rets + (self.block(s.orelse, after) if s.orelse else [("fall", after, None)])


def _connection_decider(mod):
    """(function, its call sites in the class) - the method of the swapper whose result decides, in the constructor's loop over pairs
    of layout names, whether the pair is recorded as directly connected.  Today `_compatibleLayout`; otherwise the only method of the
    class (or a base class) that the constructor calls on two names inside a test and that reads handlers' communicators and returns a value"""
    rd = _DepReader(mod, CLS)
    calls = []
    for c in rd._mro():
        for m in mod.cls(c).body:
            if isinstance(m, ast.FunctionDef):
                for x in ast.walk(m):
                    if isinstance(x, ast.Call) and isinstance(x.func, ast.Attribute) and isinstance(x.func.value, ast.Name) \
                            and x.func.value.id == "self" and len(x.args) + len(x.keywords) == 2:
                        calls.append((m.name, x))
    f = rd.method("_compatibleLayout")
    if f is None:
        cands = []
        def in_test(x):
            st_ = enclosing(x)
            return isinstance(st_, (ast.If, ast.While, ast.Assert)) and any(n is x for n in ast.walk(st_.test))
        for name in dict.fromkeys(x.func.attr for caller, x in calls if caller == "__init__" and in_test(x)):
            g = rd.method(name)
            if g is not None and any(isinstance(n, ast.Attribute) and n.attr == "communicators" for n in ast.walk(g)) \
                    and any(isinstance(n, ast.Return) and n.value is not None for n in ast.walk(g)) \
                    and len([a for a in g.args.args if a.arg != "self"]) == 2:
                cands.append(g)
        if len(cands) != 1:
            return None, []
        f = cands[0]
    return f, [x for _, x in calls if x.func.attr == f.name]


def _used_as_the_decision(call):
    """the call's value alone (possibly negated) is the test of an `if` that is only inside loops: nothing else (no second condition
    of the caller, no enclosing test) takes part in deciding whether the pair is connected"""
    p = parent(call)
    if isinstance(p, ast.UnaryOp) and isinstance(p.op, ast.Not):
        call, p = p, parent(p)
    if not (isinstance(p, ast.If) and p.test is call):
        return False
    return all(kind == "for" for _, _, kind in guards_of(p))


_TAG_TEXT = {"C1": "the communicators of the first handler", "C2": "the communicators of the second handler",
             "D1": "the dimension order of the first layout", "D2": "the dimension order of the second layout",
             "N": "the numbers of process directions", "P": "the process counts", "H": "the handlers' identity"}


def equal_handlers_same_dimension(chk, mod):
    rule = "A1-equal-handlers-same-dimension"
    rel = mod.rel
    fn, sites = _connection_decider(mod)
    called = bool(sites)
    direct = called and all(_used_as_the_decision(x) for x in sites)
    if fn is None:
        chk.ob(rule, mod.cls(CLS), "the method deciding direct connection of two layouts", None,
               "cannot decide: no `_compatibleLayout`, and no single method of the swapper that the constructor calls on two layout names in a "
               "test and that reads the handlers' communicators", file=rel, func=CLS)
        return
    q = getattr(fn, "_qual", f"{CLS}.{fn.name}")
    chk.functions.add(f"{rel}:{q}")
    params = [a.arg for a in fn.args.args if a.arg != "self"]
    if len(params) != 2 or fn.args.vararg or fn.args.kwarg or any(src(d) == "staticmethod" for d in fn.decorator_list):
        chk.ob(rule, fn, f"{q}({', '.join(params)})", None, "cannot decide: the function does not take the two layouts as its two parameters",
               file=rel, func=q)
        return
    rd = _DepReader(mod, CLS)
    env = {params[0]: _DV((), kind=("name", 1)), params[1]: _DV((), kind=("name", 2)), "self": _DV((), kind=("self",))}
    try:
        outs = rd.block(fn.body, _DState(env))
    except _Unfollowed as ex:
        chk.ob(rule, fn, f"{q}: ways that return a true value for two different handlers with equal numbers of process directions", None,
               f"cannot decide: the function could not be followed under the assumption (different handlers, equal counts): {ex}", file=rel, func=q)
        return
    per_site = {}
    order = []
    for status, st, pay in outs:
        if status != "ret":
            continue
        node, val, expr = pay
        if val.tv is False or (val.const is not None and not val.const[0]):
            continue          # this way returns a false value: the pair is not declared connected
        T = set(val.tags) | st.ctrl_tags()
        unk = sorted(t[1:] for t in T if t.startswith("?"))
        reads = [_TAG_TEXT[t] for t in ("C1", "C2", "D1", "D2", "N", "P") if t in T]
        quoted = "return " + (src(expr) if expr is not None else "None")
        under = "; ".join(dict.fromkeys(", ".join(_TAG_TEXT.get(x, x) for x in sorted(c.tags) if not x.startswith("?") and x not in ("M", "Mc")) or "nothing tracked"
                                        for c in st.ctrl))
        if "Mc" in T:
            ok, why = True, ("the result depends on a comparison of the dimension orders of BOTH layouts, paired through the communicators of both "
                             "handlers: two equally distributed layouts are connected directly only if the shared communicators distribute the "
                             "same dimensions")
        elif unk or st.shaky or "D?" in T:
            ok = None
            why = "cannot decide: " + ("; ".join(unk[:4]) if unk else (st.shaky or "a dimension order is read from a layout that was not identified as one of the two")) + \
                  " - so whether the dimension orders of both layouts enter the result was not established"
        elif "D1" in T and "D2" in T:
            ok = None
            why = ("cannot decide: the dimension orders of both layouts are read, but they were not found compared with each other communicator by "
                   "communicator (no comparison whose operands carry both orders and both handlers' communicators)")
        else:
            # ASSUMPTIONS under which this diagnosis is true of the code (each one checked above, else the verdict is UNDECIDED):
            #  (1) `fn` is the function whose true result makes the swapper record the pair as directly connected (found by role), and
            #      its result ALONE is that decision: every call of it in the class is the whole test (possibly negated) of an `if`
            #      that only loops enclose (`direct`) - a caller that combines it with a second condition may compare the dimension
            #      orders itself (responsibility moved to the caller): then the verdict is UNDECIDED;
            #  (2) this way through it is taken for two DIFFERENT handlers with EQUAL numbers of process directions: every test on the
            #      way that reads the handlers' identity or the counts was decided by that assumption (`st.shaky` is None); the other
            #      tests were followed both ways;
            #  (3) the returned value can be true (not a false literal, not decided false by the assumption);
            #  (4) everything the returned value and the tests on the way were computed from was followed to its sources (no `?` tag: no
            #      unmodelled call, attribute, global or statement) and every dimension order read belongs to an identified layout (no D?);
            #  (5) with (4): the sources contain the dimension order of at most one of the two layouts, so the result cannot tell whether
            #      a shared communicator distributes the same dimension in both.
            ok = False if direct else None
            which = [k_ for k_ in ("D1", "D2") if k_ in T]
            why = (f"for two different handlers with the same number of process directions the function returns `{src(expr)[:160] if expr is not None else None}`"
                   + (f" (reached past tests that read only: {under})" if st.ctrl else "") + f": this result is computed only from {', '.join(reads) or 'constants'} - "
                   + ("it reads the dimension order of NEITHER layout" if not which else f"it reads only {_TAG_TEXT[which[0]]}, never the other layout's")
                   + ". Two layouts whose handlers share their communicators are declared directly connected even when a shared communicator distributes "
                     "DIFFERENT dimensions in the two layouts; the swapper then takes the pair for a mere transpose and moves it with a purely local copy "
                     "(ValueError on unequal blocks, or silently wrong blocks): the global field changes. Required: for every shared communicator of "
                     "size > 1, the dimension it distributes (dims_order at its position) is the same in both layouts")
            if not called:
                why = "cannot decide (no call of this function from the class was found, so its role is not established): " + why
            elif not direct:
                why = ("cannot decide (a caller does not use the result alone as the test deciding the connection - it is combined with other "
                       "conditions that were not followed and may compare the dimension orders there): ") + why
        key = (id(node), quoted)
        if key not in per_site:
            per_site[key] = [node, quoted, ok, why]
            order.append(key)
        else:
            rank = {False: 0, None: 1, True: 2}
            if rank[ok] < rank[per_site[key][2]]:
                per_site[key][2], per_site[key][3] = ok, why
    if not order:
        any_ret = any(status == "ret" for status, _, _ in outs)
        chk.ob(rule, fn, f"{q}: ways that return a true value for two different handlers with equal numbers of process directions",
               True if any_ret else None,
               "no way through the function returns a true value under the assumption: equally distributed layouts of different handlers are never "
               "connected directly (nothing is moved by a local copy)" if any_ret else
               "cannot decide: no return statement is reached under the assumption (different handlers, equal counts)", file=rel, func=q)
        return
    for key in order:
        node, quoted, ok, why = per_site[key]
        chk.ob(rule, node, quoted[:200], ok, why, file=rel, func=q)
