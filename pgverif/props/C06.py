"""C06 - all ranks issue matching collectives; no layout change can deadlock.

Engine B (pgverif/spmd.py): rules B0-B4 over every function that (transitively)
issues a collective, in the units below.
"""
from __future__ import annotations

import ast

from ..core import src, AnalysisError, parent
from ..resolve import Program, inline_locals, expand
from .. import units as U
from ..spmd import run_spmd

UNITS = [U.LAYOUT, U.GRID, U.DIAG, U.SAVING, U.SETUPS, U.DRIVER, U.NORMS, U.ENERGY, U.ADV, U.POISSON, U.INITIALISER]


# ------------------------------------------------------------------ B4
def unordered_sites(fn: ast.FunctionDef):
    """order-sensitive uses of set-typed locals in fn -> list of (node, kind, setname)"""
    setvars = set()
    for n in ast.walk(fn):
        if isinstance(n, ast.Assign):
            v = n.value
            is_set = isinstance(v, (ast.Set, ast.SetComp)) or \
                (isinstance(v, ast.Call) and isinstance(v.func, ast.Name) and v.func.id in ("set", "frozenset"))
            if is_set:
                for t in n.targets:
                    if isinstance(t, ast.Name):
                        setvars.add(t.id)
    out = []

    def is_setexpr(e):
        return (isinstance(e, ast.Name) and e.id in setvars) or isinstance(e, (ast.Set, ast.SetComp)) or \
            (isinstance(e, ast.Call) and isinstance(e.func, ast.Name) and e.func.id in ("set", "frozenset"))

    for n in ast.walk(fn):
        if isinstance(n, ast.Call):
            f = n.func
            if isinstance(f, ast.Name) and f.id in ("min", "max", "next", "list", "tuple", "iter", "enumerate", "zip") \
                    and n.args and is_setexpr(n.args[0]):
                # the smallest / largest element itself does not depend on the iteration order; with a key, ties do
                if not (f.id in ("min", "max") and not any(k.arg == "key" for k in n.keywords) and len(n.args) == 1):
                    out.append((n, f.id, src(n.args[0])))
            if isinstance(f, ast.Attribute) and f.attr == "pop" and is_setexpr(f.value) and not n.args:
                out.append((n, "pop", src(f.value)))
        if isinstance(n, (ast.For, ast.comprehension)) and is_setexpr(n.iter):
            out.append((n, "for", src(n.iter)))
    return out, setvars


ROUTE_TABLE = "self._route_map"
_SIGNS = {ast.Lt: {-1}, ast.LtE: {-1, 0}, ast.Eq: {0}, ast.GtE: {0, 1}, ast.Gt: {1}, ast.NotEq: {-1, 1}}
_NEG = {ast.Lt: ast.GtE, ast.LtE: ast.Gt, ast.Gt: ast.LtE, ast.GtE: ast.Lt, ast.Eq: ast.NotEq, ast.NotEq: ast.Eq,
        ast.In: ast.NotIn, ast.NotIn: ast.In, ast.Is: ast.IsNot, ast.IsNot: ast.Is}


class _TooLarge(Exception):
    pass


def _alias_env(fn):
    """single-assignment locals that only name a value computed from other values (views of the tables, sums, comparisons):
    locals bound to the result of a call (the chosen node itself) stay as they are"""
    return {k: v for k, v in inline_locals(fn).items() if not any(isinstance(x, (ast.Call, ast.Lambda)) for x in ast.walk(v))}


def _dnf(e, neg=False):
    """condition -> list of conjunctions (lists) of atoms (expression node, negated?); comparisons are negated by flipping"""
    if isinstance(e, ast.UnaryOp) and isinstance(e.op, ast.Not):
        return _dnf(e.operand, not neg)
    if isinstance(e, ast.BoolOp):
        parts = [_dnf(v, neg) for v in e.values]
        if isinstance(e.op, ast.And) != neg:        # conjunction
            out = [[]]
            for p in parts:
                out = [c + d for c in out for d in p]
                if len(out) > 64:
                    raise _TooLarge()
            return out
        return [c for p in parts for c in p]
    if isinstance(e, ast.Compare) and len(e.ops) == 1 and neg and type(e.ops[0]) in _NEG:
        return [[(ast.Compare(left=e.left, ops=[_NEG[type(e.ops[0])]()], comparators=e.comparators), False)]]
    return [[(e, neg)]]


def _leaves(block_stmt):
    """does the statement list always leave the enclosing block (continue / break / return / raise at its end)?"""
    return bool(block_stmt) and isinstance(block_stmt[-1], (ast.Continue, ast.Break, ast.Return, ast.Raise))


def _path_condition(node, stop, env):
    """conditions under which `node` is reached inside `stop` (a loop): the tests of the enclosing `if`s with their polarity and
    the negated tests of earlier `if c: continue` exits of the enclosing blocks -> list of expanded expression nodes, or None"""
    conds = []
    ch, p = node, parent(node)
    while p is not None and ch is not stop:
        for f in ("body", "orelse", "finalbody"):
            blk = getattr(p, f, None)
            if isinstance(blk, list) and ch in blk:
                if isinstance(p, ast.If):
                    t = expand(p.test, env)
                    conds.append(t if f == "body" else ast.UnaryOp(op=ast.Not(), operand=t))
                elif isinstance(p, (ast.Try, ast.With)) or (isinstance(p, (ast.For, ast.While)) and f != "body"):
                    return None
                for prev in blk[:blk.index(ch)]:
                    if isinstance(prev, ast.If) and _leaves(prev.body) and not prev.orelse:
                        conds.append(ast.UnaryOp(op=ast.Not(), operand=expand(prev.test, env)))
                    elif isinstance(prev, ast.If) and prev.orelse and _leaves(prev.orelse) and not _leaves(prev.body):
                        conds.append(expand(prev.test, env))
        ch, p = p, parent(p)
    return conds


def _two_level(e):
    """X[k1][k2] -> (src X, src k1, src k2)"""
    if isinstance(e, ast.Subscript) and isinstance(e.value, ast.Subscript):
        return src(e.value.value), src(e.value.slice), src(e.slice)
    return None


def _route_search_verdict(loop, env, sname):
    """three-valued verdict on the relaxation inside `loop`: every store into the route table is reached only when the candidate is
    strictly shorter than the stored route, or equally long and smaller in a total order of the routes -> (ok, why)"""
    stores = []
    for n in ast.walk(loop):
        if isinstance(n, ast.Assign) and len(n.targets) == 1 and isinstance(n.targets[0], ast.Subscript):
            t = expand(n.targets[0], env)
            tl = _two_level(t)
            if tl and tl[0] == ROUTE_TABLE:
                stores.append((n, src(t), src(expand(n.value, env)), tl[1:]))
            elif src(t).startswith(ROUTE_TABLE):
                return None, f"store `{src(n)[:60]}` into the route table is not of the form table[from][to] = route"
    if not stores:
        return None, (f"the route search was not recognised (no store into {ROUTE_TABLE}[from][to] in the loop of the choice): whether "
                      f"equally short routes are chosen independently of the hash order of `{sname}` is not decided")
    groups = {}
    for st in stores:
        pc = _path_condition(st[0], loop, env)
        if pc is None:
            return None, f"the conditions under which `{src(st[0])[:60]}` is reached are not recognised"
        groups.setdefault(tuple(sorted(src(c) for c in pc)), (pc, []))[1].append(st)
    kinds = []          # (kind, group stores, text of the disjunct)
    for key, (pc, sts) in groups.items():
        cond = ast.BoolOp(op=ast.And(), values=pc) if len(pc) > 1 else pc[0] if pc else None
        try:
            dnf = _dnf(cond) if cond is not None else [[]]
        except _TooLarge:
            return None, "the guard of the route update is too large to be analysed"
        for conj in dnf:
            dsign, rsign, seen_d, seen_r = {-1, 0, 1}, {-1, 0, 1}, False, False
            mentions_routes = False
            for a, neg in conj:
                if neg or not (isinstance(a, ast.Compare) and len(a.ops) == 1 and type(a.ops[0]) in _SIGNS):
                    mentions_routes = mentions_routes or ROUTE_TABLE in src(a) or any(st[2] in src(a) for st in sts)
                    continue
                if not any({src(a.left), src(a.comparators[0])} == {st[1], st[2]} for st in sts):
                    mentions_routes = mentions_routes or ROUTE_TABLE in src(a) or any(st[2] in src(a) for st in sts)
                l, r, sg = a.left, a.comparators[0], _SIGNS[type(a.ops[0])]
                flipped = {-x for x in sg}
                for _, tsrc, vsrc, keys in sts:
                    # candidate route against the stored route
                    if src(l) == vsrc and src(r) == tsrc:
                        rsign, seen_r = rsign & sg, True
                    elif src(r) == vsrc and src(l) == tsrc:
                        rsign, seen_r = rsign & flipped, True
                    # candidate distance (sum of two entries of a table) against the entry [from][to] of the same table
                    for stored, cand, s_ in ((r, l, sg), (l, r, flipped)):
                        tl = _two_level(stored)
                        if tl and tl[0] != ROUTE_TABLE and tuple(tl[1:]) == tuple(keys) and isinstance(cand, ast.BinOp) and \
                                isinstance(cand.op, ast.Add) and all((_two_level(x) or ("",))[0] == tl[0] for x in (cand.left, cand.right)):
                            dsign, seen_d = dsign & s_, True
                            break
                    else:
                        continue
                    break
            text = " and ".join(("not " if neg else "") + src(a) for a, neg in conj) or "always"
            if (seen_d and not dsign) or (seen_r and not rsign):
                continue                                   # contradictory: never taken
            if not seen_d:
                kinds.append(("unknown", sts, text))
            elif dsign == {-1}:
                kinds.append(("strict", sts, text))
            elif dsign == {0}:
                kinds.append(("tiebreak" if seen_r and rsign <= {-1, 0} else "equal" if not seen_r and not mentions_routes else "unknown",
                              sts, text))
            elif dsign == {-1, 0}:
                kinds.append(("nonstrict" if not seen_r and not mentions_routes else "unknown", sts, text))
            else:
                kinds.append(("unknown", sts, text))
    for k, sts, text in kinds:
        if k == "nonstrict":
            return False, (f"`{src(sts[0][0])[:70]}` is reached when `{text}`: the test is not strict, so an equally long route overwrites "
                           f"the stored one in visiting order, which is the hash order of `{sname}`: processes with different string "
                           "hash seeds keep different routes and then transpose over different communicators")
        if k == "equal":
            return False, (f"`{src(sts[0][0])[:70]}` is reached when `{text}` without comparing the candidate with the stored route: "
                           f"equally long routes overwrite each other in visiting order, which is the hash order of `{sname}`")
    unk = [x for x in kinds if x[0] == "unknown"]
    if unk:
        return None, (f"`{src(unk[0][1][0][0])[:70]}` is reached when `{unk[0][2][:120]}`: not recognised as `candidate strictly shorter` or "
                      "`equally long and candidate route smaller than the stored one`")
    ties = [x for x in kinds if x[0] == "tiebreak"]
    if not ties:
        if not kinds:
            return None, "no reachable store into the route table"
        return False, ("routes are replaced by strictly shorter ones only and there is no equal-distance tie-break: among equally long "
                       f"routes the first visited wins, and the visiting order is the hash order of `{sname}`, so processes with "
                       "different string hash seeds keep different routes and then transpose over different communicators")
    for _, sts, text in ties:
        ks = {tuple(keys) for _, _, _, keys in sts}
        if not any((b_, a_) in ks for a_, b_ in ks):
            return None, f"the tie-break `{text[:100]}` does not store the chosen route in both directions of the table"
    return True, "routes are replaced when strictly shorter, or when equally long and smaller in the (total) order of the routes; both directions stored"


def b4_route_determinism(chk, mod):
    """The hash-ordered choice in the route search is compensated by a total-order
    tie-break on equal distances (DESIGN 4.1 B4 / 5 C06-4)."""
    fn = mod.func("LayoutManager._makeConnectionMap")
    chk.functions.add(f"{mod.rel}:LayoutManager._makeConnectionMap")
    sites, setvars = unordered_sites(fn)
    ok_all = True
    env = _alias_env(fn)
    for node, kind, sname in sites:
        loop = node
        while loop is not None and not isinstance(loop, (ast.While, ast.For)):
            loop = parent(loop)
        if loop is None:
            ok, detail = None, f"the choice `{kind}({sname})` is not made inside a loop: the route search was not recognised"
        else:
            ok, detail = _route_search_verdict(loop, env, sname)
        chk.ob("B4-unordered-choice", node, f"{kind}({sname})", ok, detail, file=mod.rel,
               func="LayoutManager._makeConnectionMap")
        ok_all = ok_all and (ok is not False)
    if not sites:
        chk.ob("B4-unordered-choice", fn, "no unordered choice", True,
               "route search no longer iterates over an unordered collection", file=mod.rel,
               func="LayoutManager._makeConnectionMap", nontrivial=False)
    # other order-sensitive uses of sets anywhere in layout.py
    for q, f in mod.functions().items():
        if q == "LayoutManager._makeConnectionMap":
            continue
        s2, _ = unordered_sites(f)
        for node, kind, sname in s2:
            # whether the order reaches a collective is decided by the label propagation of engine B (label HASH, rules B1/B2);
            # on its own the use is only a possible source of divergence: not decided here
            chk.ob("B4-unordered-choice", node, f"{kind}({sname})", None,
                   "order-sensitive use of a hash-ordered set in layout management (ranks are separate interpreters with "
                   "different string hash seeds): whether the visiting order can change a result is not decided", file=mod.rel, func=q)
    return ok_all


def b4_self_positive(chk):
    """tiny synthetic positive example: the rule must fire on a search without tie-break"""
    code = '''
class LayoutManager:
    def _makeConnectionMap(self, DirectConnections):
        for source in DirectConnections.keys():
            unvisitedNodes = set(DirectConnections.keys())
            while len(unvisitedNodes) > 0:
                via = min(unvisitedNodes, key=lambda x: distanceMap[source][x])
                unvisitedNodes.remove(via)
                for aim in DirectConnections[via]:
                    if distanceMap[source][via] + distanceMap[via][aim] < distanceMap[source][aim]:
                        self._route_map[source][aim] = self._route_map[source][via] + self._route_map[via][aim]
'''
    import types
    from ..core import Module
    m = Module.__new__(Module)
    m.rel = "<synthetic>"
    m.src = code
    m.tree = ast.parse(code)
    for node in ast.walk(m.tree):
        for ch in ast.iter_child_nodes(node):
            ch._parent = node
    m.tree._parent = None
    m._index = {}
    m._build(m.tree.body, "")

    class Dummy:
        functions = set()
        obs = []

        def ob(self, rule, node, construct, ok, msg="", **kw):
            self.obs.append(ok)
    d = Dummy()
    d.obs = []
    b4_route_determinism(d, m)
    if any(o is True for o in d.obs) or not d.obs:
        raise AnalysisError("B4 self-test: rule did not fire on the synthetic search without tie-break")


# ------------------------------------------------------------------ B5
GATHERV_TEMPLATE = """
sizes = [coords.pop() for coords in mpi_data]
starts = np.zeros(len(sizes), int)
starts[1:] = np.cumsum(sizes[:comm.Get_size() - 1])
sliceSize = np.sum(sizes)
mySlice = np.empty(sliceSize, dtype=float)
comm.Gatherv(toSend, (mySlice, sizes, starts, MPI.DOUBLE), rank)
"""


def b5_gatherv_geometry(chk):
    """the root's receive specification of the variable-count gather matches what the members send"""
    from ..core import find, contains
    q = "Grid.getBlockForFig"
    fn = chk.func(U.GRID, q)
    calls = [n for n in ast.walk(fn) if isinstance(n, ast.Call) and isinstance(n.func, ast.Attribute) and n.func.attr == "Gatherv"]
    if len(calls) != 2:
        raise AnalysisError(f"C06: expected the root and the member Gatherv of {q}, found {len(calls)}")
    b = find(fn, GATHERV_TEMPLATE, vars=("comm", "mpi_data", "toSend", "rank", "coords"))
    bad = None
    if b is None:
        root = [c for c in calls if len(c.args) >= 2 and isinstance(c.args[1], (ast.Tuple, ast.List))]
        if root and isinstance(root[0].args[1].elts[0], ast.Name):
            rn = root[0].args[1].elts[0].id
            defs = [n for n in ast.walk(fn) if isinstance(n, ast.Assign) and src(n.targets[0]) == rn]
            if defs and isinstance(defs[-1].value, ast.Subscript) and src(defs[-1].value.value).startswith("self."):
                attr = src(defs[-1].value.value)
                for g in ast.walk(fn):
                    if isinstance(g, ast.Compare) and len(g.ops) == 1 and f"{attr}.size" in (src(g.left), src(g.comparators[0])):
                        need_left = src(g.comparators[0]) == f"{attr}.size"       # S op attr.size
                        grow = isinstance(g.ops[0], (ast.Gt, ast.GtE, ast.NotEq)) if need_left else \
                            isinstance(g.ops[0], (ast.Lt, ast.LtE, ast.NotEq))
                        if not grow:
                            bad = (f"the receive buffer `{rn}` is a view of the kept `{attr}`, which is re-allocated only when `{src(g)}`: "
                                   "a later, larger request gets a receive buffer shorter than the counts the members send")
    chk.pat("B5-gatherv-geometry", calls[0], "root: recv = empty(sum(counts)), displs = exclusive cumsum(counts), counts gathered from the members",
            b is not None, "the counts are the sizes every member reported, the displacements their exclusive prefix sums and the receive "
            "buffer has exactly their total", bad, file=U.GRID, func=q)
    ok = b is not None and contains(fn, "mpi_data = comm.gather(sendInfo, root=rank)", vars=("comm", "sendInfo", "rank"),
                                    bind={k: v for k, v in b.items() if k in ("comm", "mpi_data", "rank")}) is not None and \
        contains(fn, "toSend = np.ndarray(0)\nsendInfo.append(0)", vars=("toSend", "sendInfo"), bind={"toSend": b["toSend"]}) is not None and \
        contains(fn, "sendInfo.append(toSend.size)", vars=("toSend", "sendInfo"), bind={"toSend": b["toSend"]}) is not None
    chk.pat("B5-gatherv-geometry", fn, "every member reports the size of the buffer it then sends", ok,
            "the reported count is the size of the very array passed to Gatherv (0 for an empty contribution)", file=U.GRID, func=q)


def run(chk):
    chk.explanation = (
        "SPMD collective matching by static analysis: rank-variation labels (RANK/AXIS/DATA/CLOCK/FS/HASH) are "
        "propagated flow-sensitively through every function that transitively issues a collective; rule B1: a "
        "collective may only be control dependent on rank-uniform conditions unless every alternative of the "
        "governed region issues the same collective sequence (op, communicator, root, reduction op); loops around "
        "collectives need uniform trip conditions; B2/B3: roots and reduction ops uniform and equal on both arms "
        "of rank splits; interprocedurally every parameter that influences such a guard is uniform at all call "
        "sites; B4: the hash-ordered choice in the route search is compensated by a total-order tie-break.")
    chk.assumptions += [
        "arguments documented as 'the same on all ranks' (layout names, foldername, saveStep, constants, file contents on a shared file system) are rank-uniform at the entry points",
        "1 <= p <= n in every distributed dimension (no empty block except on the dedicated plot-only rank)",
        "mpi4py/h5py collective semantics as listed in DESIGN.md section 3",
        "exceptions (raise/assert) abort the whole MPI job and are not modelled as divergent control flow",
    ]
    for u in UNITS:
        chk.mod(u)
    prog = Program(chk.repo, UNITS)
    lay = chk.mod(U.LAYOUT)
    b4_self_positive(chk)
    b5_gatherv_geometry(chk)
    b4ok = b4_route_determinism(chk, lay)
    s, tracers = run_spmd(chk, prog, UNITS, b4_ok_funcs=("_makeConnectionMap",) if b4ok else ())
    ncoll = sum(len(fi.collective_sites) for fi in s.funcs.values())
    nfun = sum(1 for fi in s.funcs.values() if fi.is_collective)
    chk.extra["collective_call_sites"] = ncoll
    chk.extra["collective_functions"] = nfun
    chk.extra["required_uniform_params"] = {f"{fi.rel}:{fi.qual}": fi.required_uniform for fi in s.funcs.values()
                                            if fi.required_uniform}
    chk.floor("B0-collective-site", 12)
    chk.floor("B1-balanced-region", 3)
    chk.floor("B4-unordered-choice", 1)
