"""C06 - all ranks issue matching collectives; no layout change can deadlock.

Engine B (pgverif/spmd.py): rules B0-B3 over every function that (transitively)
issues a collective, in the units below; B4 (route search: total tie-break, rank-uniform
conditions), B5 (geometry of the variable-count gather, record layout agreed between members and
root), B6 (root role decided with the rank on the collective's communicator), B7 (send / receive
lengths of Alltoall / Allgather), B8 (no rank-local raise before collectives) and two refinements of engine B's verdicts (presence of
attributes, loops over literal tables) live in this file.
"""
from __future__ import annotations

import ast

from ..core import src, AnalysisError, parent
from ..resolve import Program, inline_locals, expand
from .. import units as U
from ..spmd import run_spmd

UNITS = [U.LAYOUT, U.GRID, U.DIAG, U.SAVING, U.SETUPS, U.DRIVER, U.NORMS, U.ENERGY, U.ADV, U.POISSON, U.INITIALISER]


# ------------------------------------------------------------------ B4
def unordered_sites(fn: ast.FunctionDef):
    """order-sensitive uses of set-typed locals in fn -> list of (node, kind, setname)"""
    setvars = set()
    for n in ast.walk(fn):
        if isinstance(n, ast.Assign):
            v = n.value
            is_set = isinstance(v, (ast.Set, ast.SetComp)) or \
                (isinstance(v, ast.Call) and isinstance(v.func, ast.Name) and v.func.id in ("set", "frozenset"))
            if is_set:
                for t in n.targets:
                    if isinstance(t, ast.Name):
                        setvars.add(t.id)
    out = []

    def is_setexpr(e):
        return (isinstance(e, ast.Name) and e.id in setvars) or isinstance(e, (ast.Set, ast.SetComp)) or \
            (isinstance(e, ast.Call) and isinstance(e.func, ast.Name) and e.func.id in ("set", "frozenset"))

    def total_key(call):
        """min / max with a key that cannot tie: a lambda returning a tuple one of whose components is the element itself"""
        k = next((k.value for k in call.keywords if k.arg == "key"), None)
        if isinstance(k, ast.Lambda) and len(k.args.args) == 1 and isinstance(k.body, ast.Tuple):
            return any(isinstance(x, ast.Name) and x.id == k.args.args[0].arg for x in k.body.elts)
        return False

    for n in ast.walk(fn):
        if isinstance(n, ast.Call):
            f = n.func
            if isinstance(f, ast.Name) and f.id in ("min", "max", "next", "list", "tuple", "iter", "enumerate", "zip") \
                    and n.args and is_setexpr(n.args[0]):
                # the smallest / largest element itself does not depend on the iteration order; with a key, ties do - unless the
                # key contains the element (a total order: no two elements tie)
                if not (f.id in ("min", "max") and len(n.args) == 1 and
                        (not any(k.arg == "key" for k in n.keywords) or total_key(n))):
                    out.append((n, f.id, src(n.args[0])))
            if isinstance(f, ast.Attribute) and f.attr == "pop" and is_setexpr(f.value) and not n.args:
                out.append((n, "pop", src(f.value)))
        if isinstance(n, (ast.For, ast.comprehension)) and is_setexpr(n.iter):
            out.append((n, "for", src(n.iter)))
    return out, setvars


ROUTE_TABLE = "self._route_map"
_SIGNS = {ast.Lt: {-1}, ast.LtE: {-1, 0}, ast.Eq: {0}, ast.GtE: {0, 1}, ast.Gt: {1}, ast.NotEq: {-1, 1}}
_NEG = {ast.Lt: ast.GtE, ast.LtE: ast.Gt, ast.Gt: ast.LtE, ast.GtE: ast.Lt, ast.Eq: ast.NotEq, ast.NotEq: ast.Eq,
        ast.In: ast.NotIn, ast.NotIn: ast.In, ast.Is: ast.IsNot, ast.IsNot: ast.Is}


class _TooLarge(Exception):
    pass


def _alias_env(fn):
    """single-assignment locals that only name a value computed from other values (views of the tables, sums, comparisons):
    locals bound to the result of a call (the chosen node itself) stay as they are"""
    return {k: v for k, v in inline_locals(fn).items() if not any(isinstance(x, (ast.Call, ast.Lambda)) for x in ast.walk(v))}


def _dnf(e, neg=False):
    """condition -> list of conjunctions (lists) of atoms (expression node, negated?); comparisons are negated by flipping"""
    if isinstance(e, ast.UnaryOp) and isinstance(e.op, ast.Not):
        return _dnf(e.operand, not neg)
    if isinstance(e, ast.BoolOp):
        parts = [_dnf(v, neg) for v in e.values]
        if isinstance(e.op, ast.And) != neg:        # conjunction
            out = [[]]
            for p in parts:
                out = [c + d for c in out for d in p]
                if len(out) > 64:
                    raise _TooLarge()
            return out
        return [c for p in parts for c in p]
    if isinstance(e, ast.Compare) and len(e.ops) == 1 and neg and type(e.ops[0]) in _NEG:
        return [[(ast.Compare(left=e.left, ops=[_NEG[type(e.ops[0])]()], comparators=e.comparators), False)]]
    return [[(e, neg)]]


def _leaves(block_stmt):
    """does the statement list always leave the enclosing block (continue / break / return / raise at its end)?"""
    return bool(block_stmt) and isinstance(block_stmt[-1], (ast.Continue, ast.Break, ast.Return, ast.Raise))


def _path_condition(node, stop, env):
    """conditions under which `node` is reached inside `stop` (a loop): the tests of the enclosing `if`s with their polarity and
    the negated tests of earlier `if c: continue` exits of the enclosing blocks -> list of expanded expression nodes, or None"""
    conds = []
    ch, p = node, parent(node)
    while p is not None and ch is not stop:
        for f in ("body", "orelse", "finalbody"):
            blk = getattr(p, f, None)
            if isinstance(blk, list) and ch in blk:
                if isinstance(p, ast.If):
                    t = expand(p.test, env)
                    conds.append(t if f == "body" else ast.UnaryOp(op=ast.Not(), operand=t))
                elif isinstance(p, (ast.Try, ast.With)) or (isinstance(p, (ast.For, ast.While)) and f != "body"):
                    return None
                for prev in blk[:blk.index(ch)]:
                    if isinstance(prev, ast.If) and _leaves(prev.body) and not prev.orelse:
                        conds.append(ast.UnaryOp(op=ast.Not(), operand=expand(prev.test, env)))
                    elif isinstance(prev, ast.If) and prev.orelse and _leaves(prev.orelse) and not _leaves(prev.body):
                        conds.append(expand(prev.test, env))
        ch, p = p, parent(p)
    return conds


def _two_level(e):
    """X[k1][k2] -> (src X, src k1, src k2)"""
    if isinstance(e, ast.Subscript) and isinstance(e.value, ast.Subscript):
        return src(e.value.value), src(e.value.slice), src(e.slice)
    return None


def _lexicographic(l, r, vsrc, tsrc):
    """(k(cand), ..., cand) ? (k(stored), ..., stored): two tuples of one length whose last components are the candidate and the
    stored route and whose earlier components are the same expression of the candidate resp. the stored route.  Tuples compare
    lexicographically, so the order is total on distinct routes whatever the keys are.  -> 1 (candidate on the left), -1, or 0"""
    if not (isinstance(l, ast.Tuple) and isinstance(r, ast.Tuple) and len(l.elts) == len(r.elts) >= 2):
        return 0
    for sign, (c, s_) in ((1, (l, r)), (-1, (r, l))):
        if src(c.elts[-1]) == vsrc and src(s_.elts[-1]) == tsrc and \
                all(src(kc).replace(vsrc, tsrc) == src(ks) and src(kc) != src(ks) or src(kc) == src(ks)
                    for kc, ks in zip(c.elts[:-1], s_.elts[:-1])):
            return sign
    return 0


def _is_distance_pair(cand, stored, keys):
    """candidate distance (sum of two entries of a table) against the entry [from][to] of the same table"""
    tl = _two_level(stored)
    return bool(tl and tl[0] != ROUTE_TABLE and tuple(tl[1:]) == tuple(keys) and isinstance(cand, ast.BinOp) and
                isinstance(cand.op, ast.Add) and all((_two_level(x) or ("",))[0] == tl[0] for x in (cand.left, cand.right)))


def _lex_combined(l, r, vsrc, tsrc, keys):
    """(candidate distance, ..., candidate route) ? (stored distance, ..., stored route): the two tests `strictly shorter` and
    `equally long and smaller route` merged into one lexicographic comparison -> 1 (candidate on the left), -1, or 0"""
    if not (isinstance(l, ast.Tuple) and isinstance(r, ast.Tuple) and len(l.elts) == len(r.elts) >= 2):
        return 0
    for sign, (c, s_) in ((1, (l, r)), (-1, (r, l))):
        if _is_distance_pair(c.elts[0], s_.elts[0], keys) and src(c.elts[-1]) == vsrc and src(s_.elts[-1]) == tsrc and \
                all(src(kc).replace(vsrc, tsrc) == src(ks) for kc, ks in zip(c.elts[1:-1], s_.elts[1:-1])):
            return sign
    return 0


def _route_search_verdict(loop, env, sname, conds_out=None):
    """three-valued verdict on the relaxation inside `loop`: every store into the route table is reached only when the candidate is
    strictly shorter than the stored route, or equally long and smaller in a total order of the routes -> (ok, why)"""
    stores = []
    for n in ast.walk(loop):
        if isinstance(n, ast.Assign) and len(n.targets) == 1 and isinstance(n.targets[0], ast.Subscript):
            t = expand(n.targets[0], env)
            tl = _two_level(t)
            if tl and tl[0] == ROUTE_TABLE:
                stores.append((n, src(t), src(expand(n.value, env)), tl[1:]))
            elif src(t).startswith(ROUTE_TABLE):
                return None, f"store `{src(n)[:60]}` into the route table is not of the form table[from][to] = route"
    if not stores:
        return None, (f"the route search was not recognised (no store into {ROUTE_TABLE}[from][to] in the loop of the choice): whether "
                      f"equally short routes are chosen independently of the hash order of `{sname}` is not decided")
    groups = {}
    for st in stores:
        pc = _path_condition(st[0], loop, env)
        if pc is None:
            return None, f"the conditions under which `{src(st[0])[:60]}` is reached are not recognised"
        groups.setdefault(tuple(sorted(src(c) for c in pc)), (pc, []))[1].append(st)
        if conds_out is not None:
            conds_out.append((st[0], pc))
    kinds = []          # (kind, group stores, text of the disjunct)
    for key, (pc, sts) in groups.items():
        cond = ast.BoolOp(op=ast.And(), values=pc) if len(pc) > 1 else pc[0] if pc else None
        try:
            dnf = _dnf(cond) if cond is not None else [[]]
        except _TooLarge:
            return None, "the guard of the route update is too large to be analysed"
        for conj in dnf:
            dsign, rsign, seen_d, seen_r = {-1, 0, 1}, {-1, 0, 1}, False, False
            mentions_routes = False
            combined = None
            for a, neg in conj:
                if neg or not (isinstance(a, ast.Compare) and len(a.ops) == 1 and type(a.ops[0]) in _SIGNS):
                    mentions_routes = mentions_routes or ROUTE_TABLE in src(a) or any(st[2] in src(a) for st in sts)
                    continue
                if not any({src(a.left), src(a.comparators[0])} == {st[1], st[2]} for st in sts):
                    mentions_routes = mentions_routes or ROUTE_TABLE in src(a) or any(st[2] in src(a) for st in sts)
                l, r, sg = a.left, a.comparators[0], _SIGNS[type(a.ops[0])]
                flipped = {-x for x in sg}
                for _, tsrc, vsrc, keys in sts:
                    cb = _lex_combined(l, r, vsrc, tsrc, keys)
                    if cb:
                        combined = (sg if cb == 1 else flipped) if combined is None else combined & (sg if cb == 1 else flipped)
                        break
                    # candidate route against the stored route (alone, or as the last component of two tuples compared
                    # lexicographically whose earlier components are one key function applied to either route)
                    lex = _lexicographic(l, r, vsrc, tsrc)
                    if (src(l) == vsrc and src(r) == tsrc) or lex == 1:
                        rsign, seen_r = rsign & sg, True
                    elif (src(r) == vsrc and src(l) == tsrc) or lex == -1:
                        rsign, seen_r = rsign & flipped, True
                    # candidate distance (sum of two entries of a table) against the entry [from][to] of the same table
                    for stored, cand, s_ in ((r, l, sg), (l, r, flipped)):
                        if _is_distance_pair(cand, stored, keys):
                            dsign, seen_d = dsign & s_, True
                            break
                    else:
                        continue
                    break
            text = " and ".join(("not " if neg else "") + src(a) for a, neg in conj) or "always"
            if (seen_d and not dsign) or (seen_r and not rsign) or (combined is not None and not combined):
                continue                                   # contradictory: never taken
            if combined is not None and not seen_d and not seen_r:
                # (distance, route) of the candidate below that of the stored route: strictly shorter, or equally long and smaller
                # (with <= also the identical route, which changes nothing)
                kinds.append(("combined" if combined <= {-1, 0} else "unknown", sts, text))
            elif not seen_d:
                kinds.append(("unknown", sts, text))
            elif dsign == {-1}:
                kinds.append(("strict", sts, text))
            elif dsign == {0}:
                kinds.append(("tiebreak" if seen_r and rsign <= {-1, 0} else "equal" if not seen_r and not mentions_routes else "unknown",
                              sts, text))
            elif dsign == {-1, 0}:
                kinds.append(("nonstrict" if not seen_r and not mentions_routes else "unknown", sts, text))
            else:
                kinds.append(("unknown", sts, text))
    # AUDIT (the three negative verdicts below): "equally long routes are kept in visiting order" presupposes that
    #  (1) what is stored is the candidate route itself - not a choice between the candidate and the stored route (min / max / sorted /
    #      a conditional expression), which is a tie-break in the value;
    #  (2) nothing after the loop of the choice writes the route table again (a later pass may canonicalise the routes);
    #  (3) the set the choice is made from holds layout names (strings, hashed with a per-process salt): see _choice_elements.
    # When one of them is not established the verdict is UNDECIDED.
    def negative(why):
        for st_ in stores:
            v_ = st_[0].value
            if any(isinstance(x, ast.Call) and isinstance(x.func, ast.Name) and x.func.id in ("min", "max", "sorted") for x in ast.walk(v_)) or \
                    any(isinstance(x, ast.IfExp) for x in ast.walk(v_)) or st_[1] in src(expand(v_, env)):
                return None, (f"`{src(st_[0])[:70]}` stores a choice between routes (the value itself compares the candidate with the stored "
                              "route): whether that choice is a total tie-break was not decided")
        fn_ = loop
        while fn_ is not None and not isinstance(fn_, ast.FunctionDef):
            fn_ = parent(fn_)
        if fn_ is not None:
            inside = {id(x) for x in ast.walk(loop)}
            end = getattr(loop, "end_lineno", loop.lineno)
            later = [x for x in ast.walk(fn_) if isinstance(x, ast.Attribute) and src(x) == ROUTE_TABLE and id(x) not in inside and
                     x.lineno > end and not isinstance(parent(x), ast.Return)]
            # the loop over the sources encloses the search: statements of the enclosing loops after the search loop count as well
            if later:
                return None, (f"the route table is used again after the search loop (line {later[0].lineno}): a later pass may replace "
                              "the routes kept here, which was not followed")
        return False, why
    for k, sts, text in kinds:
        if k == "nonstrict":
            return negative(f"`{src(sts[0][0])[:70]}` is reached when `{text}`: the test is not strict, so an equally long route overwrites "
                           f"the stored one in visiting order, which is the hash order of `{sname}`: processes with different string "
                           "hash seeds keep different routes and then transpose over different communicators")
        if k == "equal":
            return negative(f"`{src(sts[0][0])[:70]}` is reached when `{text}` without comparing the candidate with the stored route: "
                            f"equally long routes overwrite each other in visiting order, which is the hash order of `{sname}`")
    unk = [x for x in kinds if x[0] == "unknown"]
    if unk:
        return None, (f"`{src(unk[0][1][0][0])[:70]}` is reached when `{unk[0][2][:120]}`: not recognised as `candidate strictly shorter` or "
                      "`equally long and candidate route smaller than the stored one`")
    ties = [x for x in kinds if x[0] in ("tiebreak", "combined")]
    if not ties:
        if not kinds:
            return None, "no reachable store into the route table"
        return negative("routes are replaced by strictly shorter ones only and there is no equal-distance tie-break: among equally long "
                        f"routes the first visited wins, and the visiting order is the hash order of `{sname}`, so processes with "
                        "different string hash seeds keep different routes and then transpose over different communicators")
    for _, sts, text in ties:
        ks = {tuple(keys) for _, _, _, keys in sts}
        if not any((b_, a_) in ks for a_, b_ in ks):
            return None, f"the tie-break `{text[:100]}` does not store the chosen route in both directions of the table"
    return True, "routes are replaced when strictly shorter, or when equally long and smaller in the (total) order of the routes; both directions stored"


def _free_inputs(fn, exprs):
    """what the expressions read: (plain names, self attributes).  Calls of functions defined inside `fn` (closures) and lambdas
    are followed into their bodies: what they read from the enclosing scope is read by the expression."""
    local_defs = {n.name: n for n in ast.walk(fn) if isinstance(n, ast.FunctionDef) and n is not fn}
    names, attrs, seen = set(), set(), set()

    def bound_in(node):
        b = set()
        for n in ast.walk(node):
            if isinstance(n, ast.arg):
                b.add(n.arg)
            elif isinstance(n, ast.Name) and isinstance(n.ctx, ast.Store):
                b.add(n.id)
        return b

    def visit(node, bound):
        lam = set()
        for n in ast.walk(node):
            if isinstance(n, (ast.Lambda, ast.ListComp, ast.SetComp, ast.GeneratorExp, ast.DictComp)):
                lam |= bound_in(n)
        for n in ast.walk(node):
            if isinstance(n, ast.Attribute) and isinstance(n.value, ast.Name) and n.value.id == "self":
                attrs.add("self." + n.attr)
            elif isinstance(n, ast.Name) and isinstance(n.ctx, ast.Load) and n.id not in bound and n.id not in lam and n.id != "self":
                if n.id in local_defs:
                    if n.id not in seen:
                        seen.add(n.id)
                        f = local_defs[n.id]
                        for st in f.body:
                            visit(st, bound | bound_in(f))
                else:
                    names.add(n.id)
    for e in exprs:
        visit(e, set())
    return names, attrs, sorted(seen)


def _stored_values_nonuniform(fn, actual, lf, nonuniform):
    """does a VALUE stored into the table handed over (element stores, append / add / update arguments, keys) carry a non-uniform
    label - as opposed to the table being filled with uniform values under conditions that carry one?"""
    made, todo = set(), [actual]
    while todo:
        e = todo.pop()
        if isinstance(e, ast.Name):
            if e.id in made:
                continue
            made.add(e.id)
            todo.extend(d.value for d in _defs_of(fn, e.id))
        elif isinstance(e, ast.Call) and isinstance(e.func, ast.Name) and e.func.id in ("dict", "list", "tuple", "zip", "enumerate", "sorted"):
            todo.extend(e.args)
        elif isinstance(e, ast.Call) and isinstance(e.func, ast.Attribute) and e.func.attr in ("copy", "items", "keys", "values") and not e.args:
            todo.append(e.func.value)
    if not made:
        return True                                     # not a table built in this function: the labels of the expression stand
    values = []
    for n in ast.walk(fn):
        if isinstance(n, (ast.Assign, ast.AugAssign)):
            tg = n.targets if isinstance(n, ast.Assign) else [n.target]
            for t in tg:
                if isinstance(t, ast.Subscript) and _root_name(t) in made:
                    values.append(n.value)
                    values.append(t.slice)
                elif isinstance(t, ast.Name) and t.id in made and not isinstance(n.value, (ast.Name,)):
                    values.extend(x for x in ast.walk(n.value) if isinstance(x, (ast.DictComp, ast.ListComp, ast.Dict, ast.List, ast.Tuple)))
        elif isinstance(n, ast.Call) and isinstance(n.func, ast.Attribute) and \
                n.func.attr in ("append", "extend", "insert", "add", "update", "setdefault") and _root_name(n.func.value) in made:
            values.extend(n.args)
            values.extend(k.value for k in n.keywords)
    found = False
    for v in values:
        for x in ast.walk(v):
            labs = lf.at.get(x)
            if labs and nonuniform(labs):
                found = True
    return found if values else True


def b4_choice_uniform(chk, mod, fn, conds, s):
    """every condition that governs a store into the route table reads rank-uniform values only: the route search runs on every
    rank on its own, so the routes agree only if every comparison it makes comes out the same everywhere.  Labels come from the
    flow analysis of engine B; parameters of the search are resolved at its call sites."""
    import builtins
    from ..spmd import nonuniform, params_of
    q = "LayoutManager._makeConnectionMap"
    fi = s.funcs.get((mod.rel, q))
    if fi is None or not conds:
        return None
    lf = s.analyse(fi)
    exprs = [c for _, pc in conds for c in pc]
    names, attrs, via_funcs = _free_inputs(fn, exprs)
    params = [p_ for p_ in fi.params if p_ != "self"]
    assigned = {}
    for n in ast.walk(fn):
        if isinstance(n, ast.Assign):
            for t in n.targets:
                for x in ast.walk(t):
                    if isinstance(x, ast.Name) and isinstance(x.ctx, ast.Store):
                        assigned.setdefault(x.id, []).append(n.value)
    labels, origin = set(), {}

    def add(ls, what):
        for l_ in ls:
            labels.add(l_)
            origin.setdefault(l_, what)
    for nm in sorted(names):
        seen_nodes = [n for n in ast.walk(fn) if isinstance(n, ast.Name) and n.id == nm and isinstance(n.ctx, ast.Load) and n in lf.at]
        if seen_nodes:
            for n in seen_nodes:
                add(lf.at[n], nm)
            if nm in params and nm not in assigned:
                add({f"P:{nm}"}, nm)
        elif nm in params:
            add({f"P:{nm}"}, nm)
        elif nm in assigned:
            for v in assigned[nm]:
                add(lf.at.get(v, set()), nm)
        elif hasattr(builtins, nm) or nm in ("np", "numpy", "MPI", "math"):
            continue
    for at in sorted(attrs):
        if at == ROUTE_TABLE:
            continue
        nodes = [n for n in ast.walk(fn) if isinstance(n, ast.Attribute) and src(n) == at and n in lf.at]
        if nodes:
            for n in nodes:
                add(lf.at[n], at)
        else:
            add(s.attr_label(fi.cls, at.split(".", 1)[1]), at)
    quoted = " and ".join(sorted({src(c) for c in exprs}))[:160]
    # values that differ between interpreters by construction
    local_defs = {n.name: n for n in ast.walk(fn) if isinstance(n, ast.FunctionDef) and n is not fn}
    bodies = list(exprs) + [st for nm in via_funcs for st in local_defs[nm].body]
    # AUDIT: object identities, process ids and clocks are local to an interpreter by construction.  hash() is salted for strings
    # only (hash of an integer is the integer) and a pseudo-random draw is the same everywhere when every rank seeds the generator
    # alike: these two are reported only when the argument is a string / no seed() call is in the unit, else UNDECIDED
    seeded = any(isinstance(n, ast.Call) and src(n.func).split(".")[-1] in ("seed", "default_rng", "RandomState") for n in ast.walk(mod.tree))
    for b_ in bodies:
        for n in ast.walk(b_):
            if isinstance(n, ast.Call) and src(n.func) == "hash" and not (n.args and (
                    (isinstance(n.args[0], ast.Constant) and isinstance(n.args[0].value, str)) or isinstance(n.args[0], ast.JoinedStr) or
                    (isinstance(n.args[0], ast.Call) and src(n.args[0].func) in ("str", "repr", "tuple")) or
                    ROUTE_TABLE in src(expand(n.args[0], _alias_env(fn))))):
                return chk.ob("B4-choice-uniform", conds[0][0], "conditions of the route updates", None,
                              f"the route update is governed by `{quoted}`, which uses `{src(n)[:50]}`: the hash of a string differs between "
                              "interpreters, the hash of an integer does not; what is hashed here was not determined", file=mod.rel, func=q)
            if isinstance(n, ast.Call) and src(n.func) in ("random.random", "np.random.rand", "np.random.random", "random.choice", "random.shuffle") and seeded:
                return chk.ob("B4-choice-uniform", conds[0][0], "conditions of the route updates", None,
                              f"the route update is governed by `{quoted}`, which uses `{src(n)[:50]}`; the unit seeds a generator: whether "
                              "every rank draws the same numbers was not decided", file=mod.rel, func=q)
            if isinstance(n, ast.Call) and src(n.func) in ("hash", "id", "random.random", "np.random.rand", "np.random.random", "os.getpid",
                                                           "time.time", "random.choice", "random.shuffle"):
                return chk.ob("B4-choice-uniform", conds[0][0], "conditions of the route updates", False,
                              f"the route update is governed by `{quoted}`, which uses `{src(n)[:50]}`: the value differs between the "
                              "interpreters of different ranks (string hashes are salted per process, object identities and clocks are "
                              "local), so ranks keep different routes and then transpose over different communicators", file=mod.rel, func=q)
    through = f" (through the local function(s) {', '.join(via_funcs)})" if via_funcs else ""
    nu = nonuniform(labels)
    if nu and nu <= {"AXIS"}:
        # AUDIT: the labels are a MAY analysis.  RANK / CLOCK / HASH / DATA come from explicit sources (Get_rank, clocks, set order, the
        # field values); AXIS is attached to every attribute called size / shape / starts / ... whatever object it is read from: on
        # its own it does not establish that the value differs between ranks
        l0 = sorted(nu)[0]
        return chk.ob("B4-choice-uniform", conds[0][0], "conditions of the route updates", None,
                      f"the route update is governed by `{quoted}`, which reads `{origin[l0]}`{through}, labelled as a size / shape quantity "
                      "(label AXIS): whether it is the extent of the rank's own block or a rank-uniform extent is not decided", file=mod.rel, func=q)
    if nu:
        l0 = sorted(nu)[0]
        return chk.ob("B4-choice-uniform", conds[0][0], "conditions of the route updates", False,
                      f"the route update is governed by `{quoted}`, which reads `{origin[l0]}`{through}, a value that differs between "
                      f"ranks (labels {sorted(nu)}): ranks keep different routes and then transpose over different communicators",
                      file=mod.rel, func=q)
    # parameters: every call site must pass rank-uniform values
    sites = []
    for key, cfi in s.funcs.items():
        for c in ast.walk(cfi.node):
            if isinstance(c, ast.Call) and isinstance(c.func, ast.Attribute) and c.func.attr == "_makeConnectionMap" and \
                    s._owner(c) is cfi.node:
                sites.append((cfi, c))
    verdict, why = True, ""
    cache = {}
    for p_ in sorted(params_of(labels) - {"self"}):
        if p_ not in params:
            continue
        for cfi, c in sites:
            k = params.index(p_)
            actual = c.args[k] if k < len(c.args) else next((kw.value for kw in c.keywords if kw.arg == p_), None)
            if actual is None:
                continue            # the default value: a constant of the source text
            if any(isinstance(a, ast.Starred) for a in c.args) or any(kw.arg is None for kw in c.keywords):
                verdict, why = None, f"the call `{src(c)[:60]}` passes its arguments by unpacking: `{p_}` is not resolved"
                continue
            clf = cache.get(cfi.qual) or cache.setdefault(cfi.qual, s.analyse(cfi))
            al = clf.at.get(actual)
            if al is None:
                verdict, why = None, f"no labels for the actual `{src(actual)[:40]}` of `{p_}` in {cfi.qual}"
                continue
            if nonuniform(al) and not _stored_values_nonuniform(cfi.node, actual, clf, nonuniform):
                # the labels reach the table only through the CONDITIONS under which its entries are stored (control dependence), not
                # through a value stored in it: the label domain merges the fields of records and the results of helper methods, so
                # this does not show that the entries differ between ranks
                verdict, why = None, (f"{cfi.qual} passes `{src(actual)[:40]}` for `{p_}`; the values stored in it carry rank-uniform labels, "
                                      f"but they are stored under conditions labelled {sorted(nonuniform(al))}: whether these conditions "
                                      "can differ between ranks is not decided by the label analysis")
                continue
            if nonuniform(al):
                return chk.ob("B4-choice-uniform", conds[0][0], "conditions of the route updates", False,
                              f"the route update is governed by `{quoted}`, which reads the parameter `{origin['P:' + p_]}`{through}; "
                              f"{cfi.qual} passes `{src(actual)[:50]}` for it, whose entries differ between ranks (labels "
                              f"{sorted(nonuniform(al))}: computed from rank-local quantities such as the local block shape): ranks rank "
                              "the candidate routes differently, keep different routes and then transpose over different communicators",
                              file=mod.rel, func=q, facts={"labels": sorted(al), "param": p_})
    if not sites and params_of(labels) - {"self"}:
        verdict, why = None, "no call site of the route search was found: its parameters are not resolved"
    return chk.ob("B4-choice-uniform", conds[0][0], "conditions of the route updates", verdict,
                  why or f"`{quoted}` reads only the connection graph and the tables built from it; every call site passes "
                  "rank-uniform values (layout names and their connections, the same on all ranks)", file=mod.rel, func=q,
                  facts={"labels": sorted(labels), "call_sites": len(sites)})


def _choice_elements(fn, setname, depth=0):
    """what the set `setname` of the route search holds: 'names' when it is built from the keys / entries of a PARAMETER of the search
    (the connection graph handed in: its nodes are layout names, strings, by the documented API), 'int' when it is built from
    range(...) / integers, None when that was not followed"""
    if depth > 3:
        return None
    params = {a.arg for a in fn.args.args}
    try:
        e = ast.parse(setname, mode="eval").body
    except SyntaxError:
        return None

    def of(e, depth):
        if depth > 4:
            return None
        if isinstance(e, ast.Name):
            if e.id in params:
                return "names"
            ds = _defs_of(fn, e.id)
            ks = {of(d.value, depth + 1) for d in ds}
            return ks.pop() if len(ks) == 1 else None
        if isinstance(e, ast.Call) and isinstance(e.func, ast.Name) and e.func.id in ("set", "frozenset", "list", "tuple", "sorted") and len(e.args) == 1:
            return of(e.args[0], depth + 1)
        if isinstance(e, ast.Call) and isinstance(e.func, ast.Name) and e.func.id == "range":
            return "int"
        if isinstance(e, ast.Call) and isinstance(e.func, ast.Attribute) and e.func.attr in ("keys", "copy", "difference", "union") and \
                len(e.args) <= 1:
            return of(e.func.value, depth + 1)
        if isinstance(e, ast.Subscript):
            return of(e.value, depth + 1)              # the neighbours of a node in the graph handed in
        if isinstance(e, ast.BinOp) and isinstance(e.op, (ast.Sub, ast.BitOr, ast.BitAnd)):
            return of(e.left, depth + 1)
        if isinstance(e, (ast.Set, ast.List, ast.Tuple)) and e.elts:
            if all(isinstance(x, ast.Constant) and isinstance(x.value, str) for x in e.elts):
                return "names"
            if all(isinstance(x, ast.Constant) and type(x.value) is int for x in e.elts):
                return "int"
        if isinstance(e, (ast.SetComp, ast.ListComp, ast.GeneratorExp)) and len(e.generators) == 1 and isinstance(e.elt, ast.Name) and \
                isinstance(e.generators[0].target, ast.Name) and e.elt.id == e.generators[0].target.id:
            return of(e.generators[0].iter, depth + 1)
        return None
    return of(e, 0)


def b4_route_determinism(chk, mod, spmd=None):
    """The hash-ordered choice in the route search is compensated by a total-order
    tie-break on equal distances (DESIGN 4.1 B4 / 5 C06-4)."""
    fn = mod.func("LayoutManager._makeConnectionMap")
    chk.functions.add(f"{mod.rel}:LayoutManager._makeConnectionMap")
    sites, setvars = unordered_sites(fn)
    ok_all = True
    env = _alias_env(fn)
    conds = []
    for node, kind, sname in sites:
        loop = node
        while loop is not None and not isinstance(loop, (ast.While, ast.For)):
            loop = parent(loop)
        if loop is None:
            ok, detail = None, f"the choice `{kind}({sname})` is not made inside a loop: the route search was not recognised"
        else:
            ok, detail = _route_search_verdict(loop, env, sname, conds if not conds else None)
        if ok is False:
            el = _choice_elements(fn, sname)
            if el == "int":
                ok, detail = True, (f"the set `{sname}` holds small integers, which every interpreter iterates in the same order: the choice is "
                                    "the same on every rank whatever the tie-break")
            elif el != "names":
                ok, detail = None, (f"what the set `{sname}` holds was not followed to the connection graph handed to the search (layout "
                                    "names, strings): whether its iteration order differs between interpreters is not decided; " + detail[:200])
        chk.ob("B4-unordered-choice", node, f"{kind}({sname})", ok, detail, file=mod.rel,
               func="LayoutManager._makeConnectionMap")
        ok_all = ok_all and (ok is not False)
    if spmd is not None:
        if not conds:
            # no unordered choice (or search not recognised): take the stores into the route table of the whole function
            for lp in [n for n in fn.body if isinstance(n, (ast.For, ast.While))]:
                tmp = []
                _route_search_verdict(lp, env, "", tmp)
                conds.extend(x for x in tmp if x[1])
        b4_choice_uniform(chk, mod, fn, conds, spmd)
    if not sites:
        chk.ob("B4-unordered-choice", fn, "no unordered choice", True,
               "route search no longer iterates over an unordered collection", file=mod.rel,
               func="LayoutManager._makeConnectionMap", nontrivial=False)
    # other order-sensitive uses of sets anywhere in layout.py
    for q, f in mod.functions().items():
        if q == "LayoutManager._makeConnectionMap":
            continue
        s2, _ = unordered_sites(f)
        for node, kind, sname in s2:
            # whether the order reaches a collective is decided by the label propagation of engine B (label HASH, rules B1/B2);
            # on its own the use is only a possible source of divergence: not decided here
            chk.ob("B4-unordered-choice", node, f"{kind}({sname})", None,
                   "order-sensitive use of a hash-ordered set in layout management (ranks are separate interpreters with "
                   "different string hash seeds): whether the visiting order can change a result is not decided", file=mod.rel, func=q)
    return ok_all


def b4_self_positive(chk):
    """tiny synthetic positive example: the rule must fire on a search without tie-break"""
    code = '''
class LayoutManager:
    def _makeConnectionMap(self, DirectConnections):
        for source in DirectConnections.keys():
            unvisitedNodes = set(DirectConnections.keys())
            while len(unvisitedNodes) > 0:
                via = min(unvisitedNodes, key=lambda x: distanceMap[source][x])
                unvisitedNodes.remove(via)
                for aim in DirectConnections[via]:
                    if distanceMap[source][via] + distanceMap[via][aim] < distanceMap[source][aim]:
                        self._route_map[source][aim] = self._route_map[source][via] + self._route_map[via][aim]
'''
    import types
    from ..core import Module
    m = Module.__new__(Module)
    m.rel = "<synthetic>"
    m.src = code
    m.tree = ast.parse(code)
    for node in ast.walk(m.tree):
        for ch in ast.iter_child_nodes(node):
            ch._parent = node
    m.tree._parent = None
    m._index = {}
    m._build(m.tree.body, "")

    class Dummy:
        functions = set()
        obs = []

        def ob(self, rule, node, construct, ok, msg="", **kw):
            self.obs.append(ok)
    d = Dummy()
    d.obs = []
    b4_route_determinism(d, m)
    if any(o is True for o in d.obs) or not d.obs:
        raise AnalysisError("B4 self-test: rule did not fire on the synthetic search without tie-break")


# ------------------------------------------------------------------ B1 refinement: presence of attributes
_ALLOC = {"empty", "zeros", "ones", "ndarray", "array", "empty_like", "zeros_like", "ones_like", "full", "arange", "linspace"}


class _Presence:
    """`x is None` of an actual argument, decided apart from the content of what it names.  Engine B tracks presence apart from
    content for local names only; for an attribute `self.a` it falls back on the content labels of the attribute (an array that
    holds rank-local data is then 'non-uniformly present').  Here the presence of an attribute is the join, over every assignment
    `self.a = v` of the class, of the conditions under which the assignment is reached and of the presence of v."""

    def __init__(self, s):
        self.s = s
        self._lf = {}

    def lf(self, fi):
        k = (fi.rel, fi.qual)
        if k not in self._lf:
            self._lf[k] = self.s.analyse(fi)
        return self._lf[k]

    def pc(self, fi, node):
        """labels of the conditions under which the statement is reached (enclosing tests, exits of enclosing loops)"""
        from ..core import guards_of
        lf = self.lf(fi)
        out = set()
        for test, _, kind in guards_of(node):
            l_ = lf.at.get(test)
            if l_ is None:
                return None
            out |= l_
        p_ = parent(node)
        while p_ is not None and p_ is not fi.node:
            if isinstance(p_, (ast.For, ast.While)):
                for x in ast.walk(p_):
                    if isinstance(x, (ast.Break, ast.Continue)):
                        out |= lf.at.get(x, set())
            p_ = parent(p_)
        return out

    def of_expr(self, fi, e, visiting):
        """labels of `e is None`, or None when not decided"""
        if isinstance(e, ast.Constant):
            return set()
        if isinstance(e, (ast.Subscript, ast.List, ast.Tuple, ast.Dict, ast.BinOp, ast.Compare, ast.ListComp, ast.JoinedStr)):
            return set()
        if isinstance(e, ast.Attribute) and isinstance(e.value, ast.Name) and e.value.id == "self" and fi.cls:
            return self.of_attr(fi.cls, e.attr, visiting)
        if isinstance(e, ast.IfExp):
            a, b = self.of_expr(fi, e.body, visiting), self.of_expr(fi, e.orelse, visiting)
            t = self.lf(fi).at.get(e.test)
            return None if a is None or b is None or t is None else a | b | t
        if isinstance(e, ast.Call):
            f = e.func
            if isinstance(f, ast.Attribute) and isinstance(f.value, ast.Name) and f.value.id in ("np", "numpy") and f.attr in _ALLOC:
                return set()
            l_ = self.lf(fi).at.get(e)
            return None if l_ is None else {x for x in l_ if not x.startswith("P:")}
        if isinstance(e, ast.Name):
            key = ("name", fi.qual, e.id)
            if key in visiting:
                return set()
            defs, other = [], False
            for n in ast.walk(fi.node):
                if isinstance(n, ast.Assign):
                    for t in n.targets:
                        if isinstance(t, ast.Name) and t.id == e.id:
                            defs.append((n, n.value))
                        elif isinstance(t, (ast.Tuple, ast.List)) and any(isinstance(x, ast.Name) and x.id == e.id for x in ast.walk(t)):
                            if isinstance(n.value, (ast.Tuple, ast.List)) and len(n.value.elts) == len(t.elts) and \
                                    all(isinstance(x, ast.Name) for x in t.elts):
                                defs.extend((n, v) for x, v in zip(t.elts, n.value.elts) if x.id == e.id)
                            else:
                                other = True
                elif isinstance(n, (ast.For, ast.comprehension, ast.AugAssign, ast.AnnAssign, ast.NamedExpr)) and \
                        any(isinstance(x, ast.Name) and x.id == e.id for x in ast.walk(n.target)):
                    other = True
                elif isinstance(n, ast.withitem) and n.optional_vars is not None and \
                        any(isinstance(x, ast.Name) and x.id == e.id for x in ast.walk(n.optional_vars)):
                    other = True
            if other:
                return None
            out = set()
            if e.id in fi.params:
                out.add(f"P:{e.id}?")
            elif not defs:
                return None
            for st, v in defs:
                pcl = self.pc(fi, st)
                pv = self.of_expr(fi, v, visiting | {key})
                if pcl is None or pv is None:
                    return None
                out |= pcl | pv
            return out
        return None

    def of_attr(self, cls, attr, visiting=frozenset()):
        key = ("attr", cls, attr)
        if key in visiting:
            return set()
        classes = set(self.s.prog.mro(cls) + self.s.prog.subclasses(cls))
        out, found = set(), False
        for fi in self.s.funcs.values():
            if fi.cls not in classes:
                continue
            for n in ast.walk(fi.node):
                pairs = []
                if isinstance(n, ast.Assign):
                    for t in n.targets:
                        if isinstance(t, ast.Attribute) and isinstance(t.value, ast.Name) and t.value.id == "self" and t.attr == attr:
                            pairs.append(n.value)
                        elif isinstance(t, (ast.Tuple, ast.List)) and any(src(x) == "self." + attr for x in t.elts):
                            if isinstance(n.value, (ast.Tuple, ast.List)) and len(n.value.elts) == len(t.elts):
                                pairs.extend(v for x, v in zip(t.elts, n.value.elts) if src(x) == "self." + attr)
                            else:
                                return None
                elif isinstance(n, (ast.AnnAssign, ast.For, ast.withitem, ast.NamedExpr)):
                    tg = getattr(n, "target", None) or getattr(n, "optional_vars", None)
                    if tg is not None and any(src(x) == "self." + attr for x in ast.walk(tg) if isinstance(x, ast.Attribute)):
                        return None
                for v in pairs:
                    found = True
                    pcl = self.pc(fi, n)
                    pv = self.of_expr(fi, v, visiting | {key})
                    if pcl is None or pv is None:
                        return None
                    out |= {x for x in pcl | pv if not x.startswith("P:")}
                    if any(x.startswith("P:") for x in pv):
                        return None         # presence handed in from outside the class: not followed
        return out if found else None


def _single_local_def(fn, name):
    d = [n for n in ast.walk(fn) if isinstance(n, ast.Assign) and len(n.targets) == 1 and isinstance(n.targets[0], ast.Name)
         and n.targets[0].id == name]
    st = [n for n in ast.walk(fn) if isinstance(n, ast.Name) and n.id == name and isinstance(n.ctx, ast.Store)]
    return d[0].value if len(d) == 1 and len(st) == 1 else None


def _table_rows(fn, it, depth=0):
    """rows of a loop over a table written out in the source (directly or through a local assigned once): list/tuple display, dict
    display and its items()/keys()/values(), enumerate / zip / reversed of such tables, range(constant).  The number of rows is
    fixed by the source text.  -> list of row nodes, or None"""
    if depth > 4:
        return None
    if isinstance(it, ast.Name):
        v = _single_local_def(fn, it.id)
        return _table_rows(fn, v, depth + 1) if v is not None else None
    if isinstance(it, (ast.Tuple, ast.List)):
        return None if any(isinstance(x, ast.Starred) for x in it.elts) else list(it.elts)
    if isinstance(it, ast.Dict):
        return None if any(k is None for k in it.keys) else list(it.keys)
    if isinstance(it, ast.Call) and isinstance(it.func, ast.Attribute) and it.func.attr in ("items", "keys", "values") and not it.args:
        d = it.func.value
        if isinstance(d, ast.Name):
            d = _single_local_def(fn, d.id)
        if isinstance(d, ast.Dict) and not any(k is None for k in d.keys):
            if it.func.attr == "items":
                return [ast.Tuple(elts=[k, v], ctx=ast.Load()) for k, v in zip(d.keys, d.values)]
            return list(d.keys if it.func.attr == "keys" else d.values)
        return None
    if isinstance(it, ast.Call) and isinstance(it.func, ast.Name):
        if it.func.id == "enumerate" and it.args:
            rows = _table_rows(fn, it.args[0], depth + 1)
            st = it.args[1] if len(it.args) > 1 else next((k.value for k in it.keywords if k.arg == "start"), ast.Constant(value=0))
            if rows is None or not (isinstance(st, ast.Constant) and isinstance(st.value, int)):
                return None
            return [ast.Tuple(elts=[ast.Constant(value=st.value + i), r], ctx=ast.Load()) for i, r in enumerate(rows)]
        if it.func.id == "zip" and it.args and not it.keywords:
            cols = [_table_rows(fn, a, depth + 1) for a in it.args]
            if any(c is None for c in cols) or len({len(c) for c in cols}) != 1:
                return None
            return [ast.Tuple(elts=list(r), ctx=ast.Load()) for r in zip(*cols)]
        if it.func.id in ("reversed", "list", "tuple") and len(it.args) == 1:
            rows = _table_rows(fn, it.args[0], depth + 1)
            return None if rows is None else (list(reversed(rows)) if it.func.id == "reversed" else rows)
        if it.func.id == "range" and len(it.args) == 1 and isinstance(it.args[0], ast.Constant) and isinstance(it.args[0].value, int):
            return [ast.Constant(value=i) for i in range(min(it.args[0].value, 64))]
    return None


def _bind_rows(target, rows):
    """loop target names -> the nodes they take, row by row; None when the rows do not have the shape of the target"""
    out = {}

    def go(t, n):
        if isinstance(t, ast.Name):
            out.setdefault(t.id, []).append(n)
            return True
        if isinstance(t, (ast.Tuple, ast.List)) and isinstance(n, (ast.Tuple, ast.List)) and len(t.elts) == len(n.elts):
            return all(go(a, b) for a, b in zip(t.elts, n.elts))
        return False
    return out if all(go(target, r) for r in rows) else None


def _uniform_literal(n):
    """an expression whose value is fixed by the source text: constants, names of the mpi4py / numpy namespaces"""
    return isinstance(n, ast.Constant) or (isinstance(n, ast.Attribute) and isinstance(n.value, ast.Name) and n.value.id in ("MPI", "np", "numpy")) \
        or (isinstance(n, ast.UnaryOp) and _uniform_literal(n.operand))


def refine_tables(chk, held, s):
    """obligations engine B reports as violated because a loop runs over a table written out in the source whose ENTRIES carry
    rank-dependent labels (result buffers, say): the trip count of such a loop is the number of rows in the source, and a loop
    variable takes the entries of its column only"""
    for rule, node, construct, ok, msg, kw in held:
        fi = s.funcs.get((kw.get("file"), kw.get("func")))
        # AUDIT: engine B's verdict (a MAY-label of the loop bound / op / root is rank-dependent) stands unless the finer reading below
        # shows the quantity to be fixed by the source text
        verdict, why = False, msg
        if fi is not None and rule == "B1-loop-trip-uniform" and isinstance(node, ast.For) and not str(construct).startswith("break in"):
            rows = _table_rows(fi.node, node.iter)
            if rows is not None:
                verdict, why = True, (f"the loop runs over a table of {len(rows)} rows written out in the source: every rank makes the same "
                                      "number of passes, whatever the entries hold (labels of the entries: " + msg[-60:] + ")")
        elif fi is not None and rule in ("B2-op-uniform", "B2-root-uniform") and isinstance(node, ast.Call):
            from ..spmd import kwarg, ROOT_POS
            e = kwarg(node, "op") if rule == "B2-op-uniform" else kwarg(node, "root")
            if e is None and rule == "B2-root-uniform" and node.func.attr in ROOT_POS and len(node.args) > ROOT_POS[node.func.attr]:
                e = node.args[ROOT_POS[node.func.attr]]
            if isinstance(e, ast.Name):
                p_ = parent(node)
                while p_ is not None and p_ is not fi.node:
                    if isinstance(p_, ast.For) and any(isinstance(x, ast.Name) and x.id == e.id for x in ast.walk(p_.target)):
                        rows = _table_rows(fi.node, p_.iter)
                        b = _bind_rows(p_.target, rows) if rows is not None else None
                        if b is not None and e.id in b and all(_uniform_literal(x) for x in b[e.id]):
                            verdict, why = True, (f"`{e.id}` takes the entries {sorted({src(x) for x in b[e.id]})} of a table written out in "
                                                  "the source: the same on every rank at every pass")
                        break
                    p_ = parent(p_)
        chk.ob(rule, node, construct, verdict, why, **kw)


class _Deferring:
    """stands for the Check while engine B runs: obligations B1-arg-uniform on the PRESENCE of an actual (`p?`) that engine B would
    report as violated are kept back and decided again with the finer presence analysis above; everything else passes through"""

    def __init__(self, chk):
        object.__setattr__(self, "_chk", chk)
        object.__setattr__(self, "_held", [])
        object.__setattr__(self, "_held_tables", [])
        object.__setattr__(self, "_held_guards", [])

    def __getattr__(self, k):
        return getattr(self._chk, k)

    def __setattr__(self, k, v):
        setattr(self._chk, k, v)

    def ob(self, rule, node, construct, ok, msg="", **kw):
        if rule == "B1-arg-uniform" and ok is False and str((kw.get("facts") or {}).get("param", "")).endswith("?") \
                and isinstance(node, ast.Call):
            self._held.append((rule, node, construct, ok, msg, kw))
            return None
        if rule == "B1-balanced-region" and ok is False and isinstance(node, ast.If):
            self._held_guards.append((rule, node, construct, ok, msg, kw))
            return None
        if rule in ("B1-loop-trip-uniform", "B2-op-uniform", "B2-root-uniform") and ok is False:
            self._held_tables.append((rule, node, construct, ok, msg, kw))
            return None
        return self._chk.ob(rule, node, construct, ok, msg, **kw)


_FRESH = {"np.asarray", "np.array", "np.atleast_1d", "np.asanyarray", "np.zeros", "np.empty", "np.ones", "np.arange", "np.full", "list",
          "tuple", "np.ascontiguousarray", "numpy.asarray", "numpy.array"}


def refine_guards(chk, held, s):
    """AUDIT of engine B's `rank-dependent guard` verdicts.  Engine B labels every attribute called size / shape / starts / ends / ...
    as varying with the block of the rank (label AXIS), whatever object it is read from.  That is true of layouts, grids and their
    data; it is not true of an array freshly made from rank-uniform values (np.asarray(<parameter>), a list display, np.zeros(n)):
    its size is the same everywhere.  When the guard is labelled rank-dependent ONLY through such attributes, the diagnosis
    `the alternatives issue different collective sequences on different ranks` is not established: UNDECIDED."""
    from ..spmd import nonuniform, RANKDEP_ATTR
    for rule, node, construct, ok, msg, kw in held:
        fi = s.funcs.get((kw.get("file"), kw.get("func")))
        verdict, why = ok, msg
        if fi is not None:
            lf = s.analyse(fi)

            def fresh(b, depth=0):
                if depth > 3:
                    return False
                if isinstance(b, ast.Name):
                    v = _single_local_def(fi.node, b.id)
                    return v is not None and fresh(v, depth + 1)
                if isinstance(b, (ast.List, ast.Tuple)):
                    return not nonuniform(lf.at.get(b, {"?"}) if b in lf.at else set().union(*[lf.at.get(x, set()) for x in b.elts]) if b.elts else set())
                if isinstance(b, ast.Call) and src(b.func) in _FRESH:
                    args = list(b.args) + [k.value for k in b.keywords]
                    return all(x in lf.at and not nonuniform(lf.at[x]) for x in args if not isinstance(x, ast.Constant))
                return False

            def lab(e):
                if isinstance(e, ast.Attribute) and e.attr in RANKDEP_ATTR and RANKDEP_ATTR[e.attr] == "AXIS" and fresh(e.value):
                    return set()
                if isinstance(e, (ast.BoolOp, ast.Compare, ast.BinOp, ast.UnaryOp)) or \
                        (isinstance(e, ast.Call) and isinstance(e.func, ast.Name) and e.func.id in ("len", "int", "bool", "abs", "min", "max")):
                    out = set()
                    for ch in ast.iter_child_nodes(e):
                        if isinstance(ch, ast.expr):
                            out |= lab(ch)
                    return out
                return set(lf.at.get(e, set())) if e in lf.at else {"?"}
            try:
                finer = lab(node.test)
            except Exception:
                finer = {"?"}
            if "?" not in finer and not nonuniform(finer) and nonuniform(lf.at.get(node.test, set())):
                verdict = None
                why = ("engine B labels the guard rank-dependent only through the size / shape of an array freshly made from rank-uniform "
                       "values (such an attribute varies with the rank on layouts and grids, not here): whether the alternatives are "
                       "taken by different ranks is not established; " + msg[:200])
            elif nonuniform(lf.at.get(node.test, set())) <= {"AXIS"}:
                # the only rank-dependent label is AXIS (block geometry), which engine B attaches to attributes BY NAME and carries along
                # through records, tables and loop variables (it merges the fields of a row).  The diagnosis is kept when the guard,
                # with its single-assignment locals written out, reads such an attribute itself or calls something that may; a guard
                # made of names / other attributes / constants only got the label through the merge: not established
                try:
                    t_ = expand(node.test, inline_locals(fi.node))
                except Exception:
                    t_ = node.test
                reads_geometry = any(isinstance(x, ast.Attribute) and RANKDEP_ATTR.get(x.attr) == "AXIS" for x in ast.walk(t_))
                import builtins as _b
                calls_out = any(isinstance(x, ast.Call) and not (isinstance(x.func, ast.Name) and hasattr(_b, x.func.id)) for x in ast.walk(t_))
                if not reads_geometry and not calls_out:
                    verdict = None
                    why = ("engine B labels the guard with AXIS (block geometry) although it reads no size / shape / start / end attribute "
                           "and calls nothing: the label reached it through a record, table or loop variable whose fields the label "
                           "domain merges; whether the guard differs between ranks is not established; " + msg[:200])
        chk.ob(rule, node, construct, verdict, why, **kw)


def _actual_of(call, callee, p):
    """the expression bound to parameter `p` of `callee` at `call` (same convention as engine B's binding)"""
    params = [x for x in callee.params]
    if callee.cls and params and params[0] == "self" and not (isinstance(call.func, ast.Attribute) and
                                                              isinstance(call.func.value, ast.Name) and call.func.value.id == callee.cls):
        params = params[1:]
    for k in call.keywords:
        if k.arg == p:
            return k.value
    if p in params and params.index(p) < len(call.args) and not any(isinstance(a, ast.Starred) for a in call.args):
        return call.args[params.index(p)]
    return None


def refine_presence(chk, held, s):
    from ..spmd import nonuniform
    pr = _Presence(s)
    for rule, call, construct, ok, msg, kw in held:
        fi = s.funcs.get((kw.get("file"), kw.get("func")))
        p = kw["facts"]["param"][:-1]
        verdict, why = False, msg
        if fi is not None:
            actual = None
            for c2, tg in fi.callee_sites:
                if c2 is call:
                    for t in tg:
                        actual = actual or _actual_of(call, s.funcs[t], p)
            if actual is not None:
                try:
                    labs = pr.of_expr(fi, actual, frozenset())
                except RecursionError:
                    labs = None
                if labs is None:
                    verdict = None
                    why = (f"whether `{src(actual)[:50]}` is None on the same ranks everywhere is not decided: engine B does not track the "
                           f"presence of this value apart from its content (content labels: {kw['facts'].get('labels')}) and the assignments "
                           "that decide its presence are not all recognised; " + msg[:200])
                elif not nonuniform(labs):
                    verdict = True
                    why = (f"presence of the actual `{src(actual)[:50]}` for `{p}` (is it None?) depends only on rank-uniform conditions "
                           f"(labels {sorted(labs)}): every assignment that reaches it is an allocation, a constant or another such value, "
                           "under rank-uniform guards; the content labels of the array do not decide `is None`")
                else:
                    why = msg + f"; presence labels {sorted(labs)}"
        chk.ob(rule, call, construct, verdict, why, **kw)


# ------------------------------------------------------------------ B6
def _rank_comm(prog, mod, fn, x, env):
    """x denotes a rank: -> ('expr', communicator source, where) / ('attr', attr, communicator source in the defining method,
    defining method node) / ('unknown', text) / None when x is not recognised as a rank at all"""
    x = expand(x, env)
    if isinstance(x, ast.Call) and isinstance(x.func, ast.Attribute) and x.func.attr == "Get_rank" and not x.args:
        return ("expr", src(x.func.value))
    from ..spmd import is_comm_expr
    if isinstance(x, ast.Attribute) and x.attr == "rank" and not (isinstance(x.value, ast.Name) and x.value.id == "self") and \
            is_comm_expr(x.value):
        return ("expr", src(x.value))            # mpi4py: Comm.rank is Comm.Get_rank()
    if isinstance(x, ast.Attribute) and isinstance(x.value, ast.Name) and x.value.id == "self":
        q = getattr(fn, "_qual", "")
        cls = q.split(".")[0] if "." in q else None
        defs = []
        if cls:
            for c in prog.mro(cls) or [cls]:
                if c not in prog.classes:
                    continue
                for m in prog.classes[c][1].body:
                    if isinstance(m, ast.FunctionDef):
                        for n in ast.walk(m):
                            if isinstance(n, ast.Assign) and any(src(t) == src(x) for t in n.targets):
                                defs.append((m, n.value))
        ranks = [(m, expand(v, _alias_env(m))) for m, v in defs]
        if ranks and all(isinstance(v, ast.Call) and isinstance(v.func, ast.Attribute) and v.func.attr == "Get_rank" for _, v in ranks):
            if len({src(v.func.value) for _, v in ranks}) == 1:
                return ("attr", src(x), src(ranks[0][1].func.value), ranks[0][0])
            return ("unknown", src(x))
        if defs and not any("rank" in src(v).lower() for _, v in defs):
            return None
        return ("unknown", src(x)) if "rank" in x.attr.lower() else None
    if isinstance(x, ast.Name) and "rank" in x.id.lower():
        return ("unknown", x.id)
    if isinstance(x, ast.Attribute) and "rank" in x.attr.lower():
        return ("unknown", src(x))
    if isinstance(x, ast.Call) and isinstance(x.func, ast.Attribute) and "rank" in x.func.attr.lower():
        return ("unknown", src(x))
    return None


def _callers_pass_same(chk, fn, a, b):
    """a and b are communicator expressions of fn, at least one of them a parameter: does every call site of fn (in the units of the
    check) pass for the parameter(s) the very expression the other one denotes?  Only the simple, decidable case: both are
    parameters and every site passes one expression for both.  -> True / False"""
    ps = [x.arg for x in fn.args.args]
    if not (a in ps and b in ps):
        return False
    name = fn.name
    sites = []
    for rel in UNITS:
        for c in ast.walk(chk.mod(rel).tree):
            if isinstance(c, ast.Call) and ((isinstance(c.func, ast.Name) and c.func.id == name) or
                                            (isinstance(c.func, ast.Attribute) and c.func.attr == name)):
                sites.append(c)
    if not sites:
        return False
    off = 1 if ps and ps[0] == "self" else 0
    for c in sites:
        if any(isinstance(x, ast.Starred) for x in c.args) or any(k.arg is None for k in c.keywords):
            return False
        kw = {k.arg: k.value for k in c.keywords}
        va = c.args[ps.index(a) - off] if 0 <= ps.index(a) - off < len(c.args) else kw.get(a)
        vb = c.args[ps.index(b) - off] if 0 <= ps.index(b) - off < len(c.args) else kw.get(b)
        if va is None or vb is None or src(va) != src(vb):
            return False
    return True


def _callers_pass_kept(chk, fn, comm_param, dcomm, meth):
    """does every call site of the method fn pass, for its parameter `comm_param`, the attribute in which the constructor keeps
    the communicator `dcomm` (self.K = dcomm in `meth`)?"""
    kept = {t.attr for n in ast.walk(meth) if isinstance(n, ast.Assign) and src(n.value) == dcomm
            for t in n.targets if isinstance(t, ast.Attribute) and src(t.value) == "self"}
    if not kept:
        return False
    ps = [x.arg for x in fn.args.args]
    off = 1 if ps and ps[0] == "self" else 0
    sites = [c for rel in UNITS for c in ast.walk(chk.mod(rel).tree)
             if isinstance(c, ast.Call) and isinstance(c.func, ast.Attribute) and c.func.attr == fn.name]
    if not sites:
        return False
    for c in sites:
        if any(isinstance(x, ast.Starred) for x in c.args) or any(k.arg is None for k in c.keywords):
            return False
        k = ps.index(comm_param) - off
        a = c.args[k] if 0 <= k < len(c.args) else next((kw.value for kw in c.keywords if kw.arg == comm_param), None)
        if not (isinstance(a, ast.Attribute) and a.attr in kept and src(a.value) == src(c.func.value)):
            return False
    return True


def b6_root_role(chk, prog):
    """where a function asks `am I the root of this collective?`, the rank it compares with the root must be the rank on the
    communicator of the collective: a rank is a numbering of ONE communicator"""
    from ..spmd import ROOTED, ROOT_POS, is_comm_expr, kwarg
    n_obs = 0
    for rel in UNITS:
        mod = chk.mod(rel)
        for q, fn in mod.functions().items():
            own = [n for n in ast.walk(fn) if isinstance(n, (ast.Call, ast.Compare))]
            rooted = []
            for c in own:
                if isinstance(c, ast.Call) and isinstance(c.func, ast.Attribute) and c.func.attr in ROOTED and is_comm_expr(c.func.value) \
                        and not src(c.func.value).startswith(("np.", "numpy.")):
                    root = kwarg(c, "root")
                    if root is None and len(c.args) > ROOT_POS[c.func.attr]:
                        root = c.args[ROOT_POS[c.func.attr]]
                    rooted.append((c, src(expand(c.func.value, _alias_env(fn))), src(root) if root is not None else "0"))
            if not rooted:
                continue
            env = _alias_env(fn)
            params = {a.arg for a in fn.args.args + fn.args.kwonlyargs}
            for g in own:
                if not (isinstance(g, ast.Compare) and len(g.ops) == 1 and isinstance(g.ops[0], (ast.Eq, ast.NotEq))):
                    continue
                for c, comm, root in rooted:
                    sides = [(g.left, g.comparators[0]), (g.comparators[0], g.left)]
                    x = next((a for a, b in sides if src(b) == root or src(expand(b, env)) == root), None)
                    if x is None:
                        continue
                    rc = _rank_comm(prog, mod, fn, x, env)
                    if rc is None:
                        continue
                    coll = f"{comm}.{c.func.attr}(..., root={root})"
                    if rc[0] == "expr":
                        if rc[1] == comm:
                            ok, why = True, f"`{src(g)}` compares the rank on `{comm}` with the root of `{coll}`"
                        elif (comm in params or rc[1] in params) and _callers_pass_same(chk, fn, comm, rc[1]):
                            ok, why = None, (f"`{src(g)}` uses the rank on `{rc[1]}` for the root of `{coll}`; every call site found passes one "
                                             "and the same communicator for both: whether the two can differ is not decided")
                        elif comm in params or rc[1] in params:
                            # AUDIT: one of the two communicators is a parameter and some call site (or none found) passes something
                            # that is not provably the other one
                            ok, why = False, (f"`{src(g)}` decides who acts as the root of `{coll}` with the rank on `{rc[1]}`, but `{root}` is a "
                                              f"rank on `{comm}`: the two numberings agree only if both are the same communicator; otherwise the "
                                              "root of the collective takes the member branch (no receive buffer) and another rank the root branch")
                        else:
                            ok, why = None, f"`{src(g)}`: whether `{rc[1]}` and `{comm}` are the same communicator is not decided"
                    elif rc[0] == "attr":
                        _, attr, dcomm, meth = rc
                        same = None
                        if comm.startswith("self."):
                            cdefs = [n.value for n in ast.walk(meth) if isinstance(n, ast.Assign) and any(src(t) == comm for t in n.targets)]
                            if cdefs and all(src(v) == dcomm for v in cdefs):
                                same = True
                            elif dcomm == comm:
                                same = True
                        if same:
                            ok, why = True, (f"`{attr}` is the rank on `{dcomm}`, the communicator kept as `{comm}` by "
                                             f"{getattr(meth, '_qual', meth.name)}: the same numbering as the root of `{coll}`")
                        elif comm in params and _callers_pass_kept(chk, fn, comm, dcomm, meth):
                            ok, why = None, (f"`{src(g)}` uses `{attr}` (rank on `{dcomm}`) for the root of `{coll}`; every call site found passes "
                                             "the communicator the object keeps: whether the two can differ is not decided")
                        elif comm in params:
                            # AUDIT: the collective runs on a communicator handed in as a parameter, the rank is the one on the
                            # communicator given to the constructor, and some call site (or none found) passes something else than the
                            # kept communicator
                            ok, why = False, (f"`{src(g)}` decides who acts as the root of `{coll}` with `{attr}`, the rank on the communicator "
                                              f"`{dcomm}` given to {getattr(meth, '_qual', meth.name)}, but `{root}` is a rank on the communicator "
                                              f"`{comm}` passed to {q}: the numberings agree only when both are the same communicator; on any other "
                                              "(sub-)communicator the root of the gather takes the member branch (its send buffer as receive buffer, "
                                              "returns None) and a non-root rank takes the root branch")
                        else:
                            ok, why = None, f"`{src(g)}`: whether `{attr}` (rank on `{dcomm}`) is a rank on `{comm}` is not decided"
                    else:
                        ok, why = None, f"`{src(g)}`: `{rc[1]}` looks like a rank but the communicator it belongs to is not resolved"
                    chk.ob("B6-root-role", g, f"{src(g)} for {coll}", ok, why, file=rel, func=q)
                    n_obs += 1
                    break
    return n_obs



# ------------------------------------------------------------------ B7
def _reaching_def(fn, name, at):
    """the assignment `name = ...` that reaches the statement containing `at`: the nearest one before it in its own block or in an
    enclosing block (assignments hidden in earlier branches make it ambiguous) -> Assign node or None"""
    node = at
    while node is not None and not isinstance(node, ast.stmt):
        node = parent(node)
    while node is not None and node is not fn:
        par = parent(node)
        for f_ in ("body", "orelse", "finalbody"):
            blk = getattr(par, f_, None)
            if isinstance(blk, list) and node in blk:
                for prev in reversed(blk[:blk.index(node)]):
                    if isinstance(prev, ast.Assign) and any(isinstance(t, ast.Name) and t.id == name for t in prev.targets):
                        return prev
                    if any(isinstance(x, ast.Name) and x.id == name and isinstance(x.ctx, ast.Store) for x in ast.walk(prev)):
                        return None
        if isinstance(par, (ast.For, ast.While)) and any(isinstance(x, ast.Name) and x.id == name and isinstance(x.ctx, ast.Store)
                                                         for x in ast.walk(par)):
            return None
        node = par
    return None


def _view_length(fn, e, depth=0, at=None):
    """number of elements of a buffer handed to a collective: np.split(X, [L])[0] / X[:L] (optionally reshaped), followed through
    the definitions that reach the call -> (length node, text of the definition) or None"""
    at = at if at is not None else e
    if depth > 4:
        return None
    if isinstance(e, (ast.Tuple, ast.List)) and e.elts:
        return _view_length(fn, e.elts[0], depth + 1, at)            # (buffer, MPI.DOUBLE)
    if isinstance(e, ast.Name):
        d = _reaching_def(fn, e.id, at)
        if d is not None:
            return _view_length(fn, d.value, depth + 1, d)
        return None
    if isinstance(e, ast.Call) and isinstance(e.func, ast.Attribute) and e.func.attr in ("reshape", "ravel", "flatten", "view"):
        return _view_length(fn, e.func.value, depth + 1, at)
    if isinstance(e, ast.Subscript) and src(e.slice) == "0" and isinstance(e.value, ast.Call) and src(e.value.func) in ("np.split", "numpy.split") \
            and len(e.value.args) >= 2 and isinstance(e.value.args[1], (ast.List, ast.Tuple)) and len(e.value.args[1].elts) == 1:
        return e.value.args[1].elts[0], src(e)
    if isinstance(e, ast.Subscript) and isinstance(e.slice, ast.Slice) and e.slice.lower is None and e.slice.step is None and \
            e.slice.upper is not None:
        return e.slice.upper, src(e)
    return None


def _count_expr(fn, n, comm):
    """length expression as a sympy polynomial over opaque atoms; the size of `comm` is one atom whatever it is called"""
    import sympy as sp
    SIZE = sp.Symbol("SIZE")

    def go(x):
        if isinstance(x, ast.Constant) and isinstance(x.value, int):
            return sp.Integer(x.value)
        if isinstance(x, ast.BinOp) and isinstance(x.op, (ast.Add, ast.Sub, ast.Mult)):
            a, b = go(x.left), go(x.right)
            return a + b if isinstance(x.op, ast.Add) else a - b if isinstance(x.op, ast.Sub) else a * b
        if isinstance(x, ast.Call) and isinstance(x.func, ast.Attribute) and x.func.attr == "Get_size" and src(x.func.value) == comm:
            return SIZE
        if isinstance(x, ast.Attribute) and x.attr == "size" and src(x.value) == comm:
            return SIZE
        if isinstance(x, ast.Name):
            ds = _defs_of(fn, x.id)
            if len(ds) == 1 and isinstance(ds[0].value, ast.Call) and isinstance(ds[0].value.func, ast.Attribute) and \
                    ds[0].value.func.attr == "Get_size" and src(ds[0].value.func.value) == comm:
                return SIZE
            if len(ds) == 1 and isinstance(ds[0].value, ast.Call) and src(ds[0].value.func) == "int" and len(ds[0].value.args) == 1:
                return go(ds[0].value.args[0])
        if isinstance(x, ast.Call) and src(x.func) == "int" and len(x.args) == 1:
            return go(x.args[0])
        return sp.Symbol("`" + src(x) + "`")
    return go(n), SIZE


def _local_size(fn, n):
    """is the length the actual number of local points of a layout (`L.size`, np.prod(L.shape)) - a quantity that differs between
    ranks as soon as the blocks are uneven?  -> text or None"""
    x = n
    if isinstance(x, ast.Name):
        ds = _defs_of(fn, x.id)
        if len(ds) == 1:
            x = ds[0].value
    if isinstance(x, ast.Attribute) and x.attr == "size" and "layout" in src(x.value).lower():
        return src(x)
    if isinstance(x, ast.Call) and src(x.func) in ("np.prod", "numpy.prod") and x.args and isinstance(x.args[0], ast.Attribute) and \
            x.args[0].attr == "shape" and "layout" in src(x.args[0].value).lower():
        return src(x)
    return None


def b7_collective_counts(chk):
    """Alltoall / Allgather (the variants without explicit counts): the count is the length of the buffer, so every rank must hand in
    buffers of one length, and the receive buffer holds size x (Allgather) resp. exactly (Alltoall) what is sent.  The two lengths of
    one call are compared with each other as expressions."""
    import sympy as sp
    n = 0
    for rel in UNITS:
        mod = chk.mod(rel)
        for q, fn in mod.functions().items():
            for c in ast.walk(fn):
                if not (isinstance(c, ast.Call) and isinstance(c.func, ast.Attribute) and c.func.attr in ("Alltoall", "Allgather")
                        and len(c.args) >= 2):
                    continue
                comm = src(c.func.value)
                ls, lr = _view_length(fn, c.args[0]), _view_length(fn, c.args[1])
                n += 1
                what = f"{comm}.{c.func.attr}: send count vs receive count"
                if ls is None or lr is None:
                    chk.ob("B7-collective-counts", c, what, None, f"length of the {'send' if ls is None else 'receive'} buffer "
                           f"`{src(c.args[0] if ls is None else c.args[1])[:50]}` not recognised", file=rel, func=q)
                    continue
                (es, SIZE), (er, _) = _count_expr(fn, ls[0], comm), _count_expr(fn, lr[0], comm)
                want = es * SIZE if c.func.attr == "Allgather" else es
                if sp.expand(er - want) == 0:
                    chk.ob("B7-collective-counts", c, what, True,
                           f"every rank sends `{src(ls[0])}` elements and receives `{src(lr[0])}`" +
                           (" = size x the send count" if c.func.attr == "Allgather" else ", the same number"), file=rel, func=q)
                    continue
                loc_s, loc_r = _local_size(fn, ls[0]), _local_size(fn, lr[0])
                # AUDIT: Alltoall / Allgather take their counts from the buffer lengths, which must be the same on every rank.  One
                # buffer is cut to `<layout>.size` / np.prod(<layout>.shape), the number of points of the rank's OWN block (Layout.size
                # is the product of the local shape), which differs between ranks for uneven blocks, and the other buffer is not
                if (loc_s is None) != (loc_r is None):
                    side, loc, other = ("send", loc_s, src(lr[0])) if loc_s else ("receive", loc_r, src(ls[0]))
                    chk.ob("B7-collective-counts", c, what, False,
                           f"the {side} buffer `{(ls if loc_s else lr)[1][:70]}` has `{loc}` elements, the actual number of local points, which "
                           f"differs between ranks as soon as the blocks are uneven, while the other side is sized with `{other}` (padded to the "
                           f"largest block): the ranks hand counts to {c.func.attr} that do not match (truncated or mismatched buffers)",
                           file=rel, func=q)
                else:
                    chk.ob("B7-collective-counts", c, what, None, f"send length `{src(ls[0])}` and receive length `{src(lr[0])}` are not "
                           "related by the communicator size as expressions: not decided", file=rel, func=q)
    return n


# ------------------------------------------------------------------ B8
def b8_local_raise(chk, s, tracers):
    """an explicit `raise` taken under a rank-dependent condition, with collectives still to come in the function (or in the loop
    around it): the rank that raises leaves, the others enter the collective and wait for it.  (assert statements are debugging
    checks and stay under the assumption that a failed check stops the job.)"""
    from ..core import guards_of
    from ..spmd import nonuniform
    n = 0
    for key, tr in tracers.items():
        fi = s.funcs[key]
        lf = tr.lf
        events = sorted(tr.ev_nodes, key=lambda c: (c.lineno, c.col_offset))
        if not events:
            continue
        for r in ast.walk(fi.node):
            if not (isinstance(r, ast.Raise) and s._owner(r) is fi.node):
                continue
            if any(isinstance(p_, ast.ExceptHandler) for p_ in _ancestors(r, fi.node)):
                continue                                   # re-raise inside a handler
            labs, tests = set(), []
            for t, pol, kind in guards_of(r):
                if kind in ("if", "while", "ifexp"):
                    labs |= lf.at.get(t, set())
                    tests.append(("" if pol else "not ") + src(t)[:50])
            loops = [p_ for p_ in _ancestors(r, fi.node) if isinstance(p_, (ast.For, ast.While))]
            later = [c for c in events if c.lineno > r.lineno or any(c in set(ast.walk(lp)) for lp in loops)]
            if not later or not tests:
                continue
            n += 1
            nu = nonuniform(labs)
            if nu and nu <= {"AXIS"}:
                # a check on sizes / shapes of the local block (argument validation): the labels cannot tell whether it can come out
                # differently on different ranks for the arguments the callers pass
                chk.ob("B8-local-raise", r, f"raise under `{' and '.join(tests)[:90]}`", None,
                       f"`{src(r)[:60]}` is reached under a test on block sizes or shapes (labels {sorted(nu)}), with collectives still to "
                       "come: whether the test can differ between ranks is not decided", file=fi.rel, func=fi.qual, facts={"labels": sorted(labs)})
                continue
            # AUDIT: the raise is an explicit statement of the function itself (not inside a handler), collectives of the same function
            # (or of the loop around it) come after it, and the labels of its guards include RANK / DATA / CLOCK / HASH (explicit
            # sources); guards labelled AXIS only are UNDECIDED above
            chk.ob("B8-local-raise", r, f"raise under `{' and '.join(tests)[:90]}`", not nu,
                   "the condition is rank-uniform: every rank raises or none" if not nu else
                   f"`{src(r)[:60]}` is reached under `{' and '.join(tests)[:90]}`, which differs between ranks (labels {sorted(nu)}); "
                   f"the collective `{src(later[0])[:50]}` still follows: the rank that raises leaves {fi.qual}, the other ranks enter the "
                   "collective and wait for it for ever (an uncaught exception in one process does not stop the others)",
                   file=fi.rel, func=fi.qual, facts={"labels": sorted(labs)})
    return n


def _ancestors(node, stop):
    out, p_ = [], parent(node)
    while p_ is not None and p_ is not stop:
        out.append(p_)
        p_ = parent(p_)
    return out


# ------------------------------------------------------------------ B9
def _set_typed(fn, e, depth=0):
    """is the expression a set (iteration order = hash order)?  -> (True, element kind 'str' | 'int' | None) or None.  Set displays and
    comprehensions, set()/frozenset(), the set algebra of sets and dict views (`d.keys() - {...}` is a plain set), locals and class
    attributes assigned once to such a value."""
    if depth > 4:
        return None

    def kind_of(nodes):
        ks = {("str" if isinstance(x, ast.Constant) and isinstance(x.value, str) else
               "int" if isinstance(x, ast.Constant) and isinstance(x.value, int) else None) for x in nodes}
        return ks.pop() if len(ks) == 1 else None

    def view(x):
        """dict view (keys / items) -> element kind, through a local or a class attribute holding a dict display"""
        if isinstance(x, ast.Call) and isinstance(x.func, ast.Attribute) and x.func.attr in ("keys", "items") and not x.args:
            d = _resolve_literal(fn, x.func.value)
            if isinstance(d, ast.Dict):
                return (kind_of([k for k in d.keys if k is not None]) if x.func.attr == "keys" else None, True)
            return (None, True)
        return None
    if isinstance(e, ast.Set):
        return True, kind_of(e.elts)
    if isinstance(e, ast.SetComp):
        return True, None
    if isinstance(e, ast.Call) and isinstance(e.func, ast.Name) and e.func.id in ("set", "frozenset"):
        inner = _resolve_literal(fn, e.args[0]) if e.args else None
        k = kind_of(inner.elts) if isinstance(inner, (ast.List, ast.Tuple, ast.Set)) else \
            kind_of([x for x in inner.keys if x is not None]) if isinstance(inner, ast.Dict) else None
        return True, k
    if isinstance(e, ast.BinOp) and isinstance(e.op, (ast.Sub, ast.BitAnd, ast.BitOr, ast.BitXor)):
        sides = []
        for x in (e.left, e.right):
            st_ = _set_typed(fn, x, depth + 1)
            vw = view(x)
            sides.append(st_[1] if st_ else vw[0] if vw else "none")
            if not st_ and not vw:
                sides[-1] = "none"
        if all(x == "none" for x in sides):
            return None
        ks = {x for x in sides if x != "none"}
        return True, (ks.pop() if len(ks) == 1 else None)
    if isinstance(e, ast.Call) and isinstance(e.func, ast.Attribute) and e.func.attr in ("union", "intersection", "difference",
                                                                                      "symmetric_difference", "copy"):
        return _set_typed(fn, e.func.value, depth + 1)
    lit = _resolve_literal(fn, e) if isinstance(e, (ast.Name, ast.Attribute)) else None
    if lit is not None and lit is not e:
        return _set_typed(fn, lit, depth + 1)
    return None


def _resolve_literal(fn, e):
    """the value of a local assigned once, or of an attribute assigned once in the class (class body or through self), else e"""
    if isinstance(e, ast.Name):
        v = _single_local_def(fn, e.id)
        return v if v is not None else e
    if isinstance(e, ast.Attribute) and isinstance(e.value, ast.Name) and e.value.id in ("self", "cls") and isinstance(parent(fn), ast.ClassDef):
        cls_ = parent(fn)
        defs = [st.value for st in cls_.body if isinstance(st, ast.Assign) and any(isinstance(t, ast.Name) and t.id == e.attr for t in st.targets)]
        defs += [n.value for n in ast.walk(cls_) if isinstance(n, ast.Assign) and any(isinstance(t, ast.Attribute) and t.attr == e.attr and
                                                                                      src(t.value) in ("self", "cls") for t in n.targets)]
        return defs[0] if len(defs) == 1 else e
    return e


def b9_ordered_collective_loops(chk, s, tracers):
    """a loop that issues collectives visits its table in the same order on every rank: not in the iteration order of a set, which
    for strings depends on the hash seed of each interpreter"""
    n = 0
    for key, tr in tracers.items():
        fi = s.funcs[key]
        for lp in ast.walk(fi.node):
            if not (isinstance(lp, ast.For) and s._owner(lp) is fi.node and tr.has_events(lp.body)):
                continue
            it = lp.iter
            if isinstance(it, ast.Call) and isinstance(it.func, ast.Name) and it.func.id == "sorted":
                continue
            if isinstance(it, ast.Call) and isinstance(it.func, ast.Name) and it.func.id in ("enumerate", "list", "tuple", "reversed", "iter") and it.args:
                it = it.args[0]
            st_ = _set_typed(fi.node, it)
            if st_ is None:
                continue
            n += 1
            kind = st_[1]
            # AUDIT: the loop body issues collectives (engine B's event sites), the loop runs over a set (display, set() / frozenset(),
            # set algebra, a local or class attribute bound once to one) not wrapped in sorted(), and its elements are string LITERALS
            # written in the source ('str'); elements that were not determined are UNDECIDED
            ok = True if kind == "int" else False if kind == "str" else None
            chk.ob("B9-collective-order", lp, f"for {src(lp.target)} in {src(lp.iter)[:60]}", ok,
                   "the set holds small integers, whose iteration order is the same in every interpreter" if ok else
                   (f"the loop issues collectives in the iteration order of the set `{src(lp.iter)[:60]}`; its elements are strings, whose hash "
                    "is salted per interpreter: the ranks (separate processes) visit the entries in different orders, so a collective for one "
                    "entry on one rank meets the collective for another entry (another operation, another buffer) on another rank"
                    if ok is False else
                    f"the loop issues collectives in the iteration order of the set `{src(lp.iter)[:60]}`; whether that order is the same in "
                    "every interpreter depends on the type of the elements, which was not determined"), file=fi.rel, func=fi.qual)
    return n


# ------------------------------------------------------------------ B10
def b10_split_roles(chk):
    """where a communicator is split by a test on the rank (`comm.Split(rank == R, ...)`), every other test of the same rank against
    an expression of the same quantity designates the same rank: the process that is split off is the one treated as split off"""
    n = 0
    for rel in UNITS:
        mod = chk.mod(rel)
        for q, fn in mod.functions().items():
            env = _alias_env(fn)
            splits = [c for c in ast.walk(fn) if isinstance(c, ast.Call) and isinstance(c.func, ast.Attribute) and c.func.attr == "Split"
                      and c.args]
            for sp_ in splits:
                color = expand(sp_.args[0], env)
                comm = src(expand(sp_.func.value, env))
                if not (isinstance(color, ast.Compare) and len(color.ops) == 1 and isinstance(color.ops[0], (ast.Eq, ast.NotEq))):
                    continue

                def is_rank(a):
                    if isinstance(a, ast.Name):
                        v = _single_local_def(fn, a.id)
                        a = expand(v, env) if v is not None else a
                    return isinstance(a, ast.Call) and isinstance(a.func, ast.Attribute) and a.func.attr == "Get_rank" and \
                        src(a.func.value) == comm

                def rank_side(cmp_):
                    for a, b in ((cmp_.left, cmp_.comparators[0]), (cmp_.comparators[0], cmp_.left)):
                        if is_rank(a):
                            return b
                    return None
                ref = rank_side(color)
                if ref is None:
                    continue
                ref_names = {x.id for x in ast.walk(ref) if isinstance(x, ast.Name)}
                for g in ast.walk(fn):
                    if not (isinstance(g, ast.Compare) and len(g.ops) == 1 and isinstance(g.ops[0], (ast.Eq, ast.NotEq))):
                        continue
                    if any(g is x for x in ast.walk(sp_)):
                        continue
                    ge = expand(g, env)
                    other = rank_side(ge)
                    if other is None:
                        continue
                    onames = {x.id for x in ast.walk(other) if isinstance(x, ast.Name)}
                    if not (onames & ref_names):
                        continue                       # a test against another quantity: another role
                    n += 1
                    same = src(other) == src(ref)
                    if not same and any(isinstance(x, (ast.IfExp, ast.BoolOp, ast.Compare, ast.Lambda)) for x in ast.walk(other)):
                        same = None                   # a conditional designation: may well be the same rank in every case that matters
                    if same is False:
                        # AUDIT: "the process treated as split off is not the one that was split off" presupposes that the test decides
                        # the role in the split: the statement it governs uses the communicator the split returned (or the test is
                        # handed on as a flag); a test of the rank against a neighbouring value for another purpose is not that
                        st_ = g
                        while st_ is not None and not isinstance(st_, ast.stmt):
                            st_ = parent(st_)
                        sp_stmt = sp_
                        while sp_stmt is not None and not isinstance(sp_stmt, ast.stmt):
                            sp_stmt = parent(sp_stmt)
                        new_comms = {t.id for t in getattr(sp_stmt, "targets", []) if isinstance(t, ast.Name)} if isinstance(sp_stmt, ast.Assign) else set()
                        # the split may sit in a branch (`if plot: c = comm.Split(...) else: c = comm`): every name it is bound to
                        uses_new = isinstance(st_, (ast.If, ast.While)) and new_comms and \
                            any(isinstance(x, ast.Name) and x.id in new_comms for x in ast.walk(st_))
                        if not uses_new:
                            same = None
                    chk.ob("B10-split-role", g, f"{src(g)[:60]} vs {comm}.Split({src(sp_.args[0])[:40]}, ...)", same,
                           f"the rank tested is the rank the communicator is split by (`{src(ref)}`)" if same else
                           f"`{src(g)[:70]}` designates the rank `{src(other)}` of `{comm}`, but the communicator was split by "
                           f"`{src(sp_.args[0])[:50]}`, i.e. at the rank `{src(ref)}`: when the two differ the process treated as split off "
                           "still belongs to the other group's communicator (and the one split off is treated as a member), so the groups "
                           "issue collectives on communicators whose members do not all take part", file=rel, func=q)
    return n



# ------------------------------------------------------------------ B4 (input order) / B11
def _root_name(e):
    """the name an expression is rooted at: X in X[i][1], X.attr, X[k].append"""
    while isinstance(e, (ast.Subscript, ast.Attribute, ast.Call)):
        e = e.func if isinstance(e, ast.Call) else e.value
    return e.id if isinstance(e, ast.Name) else None


def b4_input_order(chk, prog=None):
    """caller + route search as one unit: the search walks its argument in the order it is given (`for source in table.keys()`,
    `for aim in table[via]`) and builds routes from the routes found so far, so what it stores is the same on every rank only if
    the table is ORDERED the same on every rank.  Lists and dicts keep the order of their construction; a table filled while
    iterating over a set of layout names has the order of their hashes, which are salted per interpreter."""
    lay = chk.mod(U.LAYOUT)
    q0 = "LayoutManager._makeConnectionMap"
    try:
        search = lay.func(q0)
    except AnalysisError:
        return 0
    params = [a.arg for a in search.args.args if a.arg != "self"]
    if not params:
        return 0
    tab = params[0]
    # does the search itself impose an order on what it is given?
    walks = []
    for n in ast.walk(search):
        its = [n.iter] if isinstance(n, (ast.For, ast.comprehension)) else []
        for it in its:
            if tab in {x.id for x in ast.walk(it) if isinstance(x, ast.Name)}:
                walks.append(it)
    imposes = bool(walks) and all(isinstance(it, ast.Call) and isinstance(it.func, ast.Name) and it.func.id == "sorted" for it in walks)
    n_sites = 0
    for q, fn in lay.functions().items():
        for c in ast.walk(fn):
            if not (isinstance(c, ast.Call) and isinstance(c.func, ast.Attribute) and c.func.attr == search.name and
                    isinstance(c.func.value, ast.Name) and c.func.value.id == "self"):
                continue
            owner = c
            while owner is not None and not isinstance(owner, ast.FunctionDef):
                owner = parent(owner)
            if owner is not fn:
                continue
            actual = c.args[0] if c.args else next((k.value for k in c.keywords if k.arg == tab), None)
            if actual is None:
                continue
            n_sites += 1
            what = f"{src(c)[:60]}: order of the table"
            if imposes:
                chk.ob("B4-input-order", c, what, True, "the route search walks its argument through sorted(...) only: the order in which "
                       "the caller built the table does not matter", file=lay.rel, func=q)
                continue
            # names the table is made of: the actual and what it is copied / converted from (dict(myMap), list(x), x.copy())
            made, todo = set(), [actual]
            comps = []                      # comprehensions that are (part of) a definition of the table
            opaque = None
            while todo:
                e = todo.pop()
                if isinstance(e, ast.Name):
                    if e.id in made:
                        continue
                    made.add(e.id)
                    for d in _defs_of(fn, e.id):
                        todo.append(d.value)
                elif isinstance(e, ast.Call) and isinstance(e.func, ast.Name) and e.func.id in ("dict", "list", "tuple", "OrderedDict", "zip",
                                                                                              "enumerate", "reversed") :
                    todo.extend(e.args)
                elif isinstance(e, ast.Call) and isinstance(e.func, ast.Attribute) and e.func.attr in ("copy", "items", "keys", "values") and not e.args:
                    todo.append(e.func.value)
                elif isinstance(e, (ast.DictComp, ast.ListComp, ast.GeneratorExp, ast.SetComp)):
                    comps.append(e)
                elif isinstance(e, (ast.Dict, ast.List, ast.Tuple, ast.Constant)):
                    for x in ast.walk(e):
                        if isinstance(x, (ast.DictComp, ast.ListComp, ast.GeneratorExp, ast.SetComp)):
                            comps.append(x)
                elif isinstance(e, ast.Call) and isinstance(e.func, ast.Name) and e.func.id in ("set", "frozenset"):
                    comps.append(e)
                else:
                    opaque = e
            # loops that fill it: a store into / a mutating call on something rooted at one of these names
            feeders = []
            for lp in ast.walk(fn):
                if not isinstance(lp, ast.For):
                    continue
                fills = False
                for st in ast.walk(lp):
                    if isinstance(st, (ast.Assign, ast.AugAssign)):
                        tg = st.targets if isinstance(st, ast.Assign) else [st.target]
                        if any(isinstance(t, ast.Subscript) and _root_name(t) in made for t in tg):
                            fills = True
                    elif isinstance(st, ast.Call) and isinstance(st.func, ast.Attribute) and \
                            st.func.attr in ("append", "extend", "insert", "add", "update", "setdefault") and _root_name(st.func.value) in made:
                        fills = True
                if fills:
                    feeders.append((lp, lp.iter))
            for cp in comps:
                if isinstance(cp, ast.Call):
                    feeders.append((cp, cp))
                else:
                    for g in cp.generators:
                        feeders.append((cp, g.iter))
            hashed = []
            for node, it in feeders:
                x = it
                while isinstance(x, ast.Call) and isinstance(x.func, ast.Name) and x.func.id in ("enumerate", "list", "tuple", "reversed", "iter", "zip") and x.args:
                    x = x.args[0]
                if isinstance(x, ast.Call) and isinstance(x.func, ast.Name) and x.func.id == "sorted":
                    continue
                if isinstance(x, ast.Subscript):
                    x = x.value                 # a slice of a list is a list; of a set there is none
                st_ = _set_typed(fn, x)
                if st_ is not None and st_[1] != "int":
                    lit = _resolve_literal(fn, x) if isinstance(x, (ast.Name, ast.Attribute)) else x
                    hashed.append((node, it, lit, st_[1]))
            # AUDIT: "a set of layout names" = the elements are string literals, or the set is made from the keys / entries of a
            # parameter of the caller (the layouts handed to the manager: names by the documented API); a set whose elements were not
            # determined is UNDECIDED
            def names_like(e, depth=0):
                if depth > 7:
                    return False
                ps_ = {a.arg for a in fn.args.args}
                def filled_with_names(text):
                    """keys / entries stored into the container `text` (element stores, append / add) come from something names-like"""
                    for n_ in ast.walk(fn):
                        ks_ = []
                        if isinstance(n_, ast.Assign):
                            ks_ = [t_.slice for t_ in n_.targets if isinstance(t_, ast.Subscript) and src(t_.value) == text]
                        elif isinstance(n_, ast.Call) and isinstance(n_.func, ast.Attribute) and n_.func.attr in ("append", "add") and \
                                src(n_.func.value) == text and n_.args:
                            ks_ = [n_.args[0]]
                        if any(names_like(k_, depth + 1) for k_ in ks_):
                            return True
                    return False
                if isinstance(e, ast.Name):
                    if e.id in ps_ or any(names_like(d.value, depth + 1) for d in _defs_of(fn, e.id)) or filled_with_names(e.id):
                        return True
                    # a loop variable: what the loop runs over
                    for n_ in ast.walk(fn):
                        if isinstance(n_, (ast.For, ast.comprehension)) and any(isinstance(x_, ast.Name) and x_.id == e.id for x_ in ast.walk(n_.target)) \
                                and names_like(n_.iter, depth + 1):
                            return True
                    return False
                if isinstance(e, ast.Call) and isinstance(e.func, ast.Name) and e.func.id in ("set", "frozenset", "list", "tuple", "enumerate", "sorted", "dict") and e.args:
                    return names_like(e.args[0], depth + 1)
                if isinstance(e, ast.Call) and isinstance(e.func, ast.Attribute) and e.func.attr in ("keys", "copy", "union", "difference", "values", "items"):
                    return names_like(e.func.value, depth + 1)
                if isinstance(e, (ast.SetComp, ast.ListComp, ast.GeneratorExp)):
                    return any(names_like(g_.iter, depth + 1) for g_ in e.generators)
                if isinstance(e, ast.BinOp):
                    return names_like(e.left, depth + 1) or names_like(e.right, depth + 1)
                if isinstance(e, ast.Subscript):
                    return names_like(e.value, depth + 1)
                if isinstance(e, ast.Attribute) and isinstance(e.value, ast.Name) and e.value.id == "self":
                    lit_ = _resolve_literal(fn, e)
                    return (lit_ is not e and names_like(lit_, depth + 1)) or filled_with_names(src(e))
                return False
            if hashed and not any(k_ == "str" or names_like(l_) for _, _, l_, k_ in hashed):
                node, it, lit, _ = hashed[0]
                chk.ob("B4-input-order", node, what, None,
                       f"the table `{src(actual)}` handed to the route search is filled while iterating over the set `{src(it)[:50]}`; what "
                       "the set holds (layout names, whose order differs between interpreters, or integers, whose order does not) was not "
                       "determined", file=lay.rel, func=q)
            elif hashed:
                node, it, lit, _ = next(h_ for h_ in hashed if h_[3] == "str" or names_like(h_[2]))
                chk.ob("B4-input-order", node, what, False,
                       f"the table `{src(actual)}` handed to the route search is filled while iterating over `{src(it)[:50]}`" +
                       (f" (= `{src(lit)[:50]}`)" if lit is not it and src(lit) != src(it) else "") + ", a set of layout names: its keys and "
                       "neighbour lists come in the order of the string hashes, which are salted per interpreter, so every rank hands the "
                       f"search a differently ordered table.  {search.name} walks the table in the order given (`" +
                       (src(walks[0])[:50] if walks else "its loops") + "`) and builds routes from the routes found so far: with several "
                       "equally long routes the ranks keep different ones and then transpose over different sub-communicators (mismatched "
                       "collectives, deadlock)", file=lay.rel, func=q)
            elif opaque is not None and not feeders:
                chk.ob("B4-input-order", c, what, None, f"how the table `{src(actual)[:40]}` is built (`{src(opaque)[:50]}`) was not followed",
                       file=lay.rel, func=q)
            else:
                chk.ob("B4-input-order", c, what, True, f"the table is filled in {len(feeders)} loop(s) / comprehension(s) over lists and "
                       "dict views, which keep the order of their construction: no set is iterated while it is built in this function",
                       file=lay.rel, func=q)
    return n_sites


def b11_topology_size(chk):
    """caller + callee as one unit: a Cartesian topology is created on communicator C with a process grid G (Create_cart is
    collective on C and the product of G must be the size of C on EVERY member).  Where G is computed from a number of processes,
    that number is the size of C itself - not a quantity of another communicator C was split from, which fits at most one of the
    groups of the split."""
    n = 0
    # functions that create the topology on a parameter with a grid that is a parameter: (rel, name) -> (comm param index, grid param index)
    makers = {}
    for rel in UNITS:
        for q, fn in chk.mod(rel).functions().items():
            ps = [a.arg for a in fn.args.args]
            for c in ast.walk(fn):
                if isinstance(c, ast.Call) and isinstance(c.func, ast.Attribute) and c.func.attr == "Create_cart" and c.args and \
                        isinstance(c.func.value, ast.Name) and c.func.value.id in ps and isinstance(c.args[0], ast.Name) and c.args[0].id in ps \
                        and "." not in q:
                    makers[q] = (ps.index(c.func.value.id), ps.index(c.args[0].id), ps)
    for rel in UNITS:
        mod = chk.mod(rel)
        for q, fn in mod.functions().items():
            sites = []
            for c in ast.walk(fn):
                if not isinstance(c, ast.Call):
                    continue
                if isinstance(c.func, ast.Name) and c.func.id in makers:
                    ic, ig, ps = makers[c.func.id]
                    kw = {k.arg: k.value for k in c.keywords}
                    ce = c.args[ic] if ic < len(c.args) else kw.get(ps[ic])
                    ge = c.args[ig] if ig < len(c.args) else kw.get(ps[ig])
                    if ce is not None and ge is not None and not any(isinstance(a, ast.Starred) for a in c.args):
                        sites.append((c, ce, ge, f"{c.func.id} -> Create_cart"))
                elif isinstance(c.func, ast.Attribute) and c.func.attr == "Create_cart" and c.args:
                    sites.append((c, c.func.value, c.args[0], "Create_cart"))
            sites.sort(key=lambda x: (x[0].lineno, x[0].col_offset))
            done_pairs = set()
            for c, ce, ge, how in sites:
                if not isinstance(ge, ast.Name) or not isinstance(ce, ast.Name):
                    continue
                if (ce.id, ge.id) in done_pairs:
                    continue                    # same communicator and same grid as an earlier site of this function: one obligation
                done_pairs.add((ce.id, ge.id))
                more = sum(1 for x in sites if isinstance(x[1], ast.Name) and isinstance(x[2], ast.Name) and (x[1].id, x[2].id) == (ce.id, ge.id)) - 1
                if more:
                    how = how + f"; {more} more call(s) with the same communicator and grid in this function"
                gdefs = _defs_of(fn, ge.id)
                grids = [d.value for d in gdefs if isinstance(d.value, ast.Call) and "process_grid" in src(d.value.func)]
                if not gdefs or len(grids) != len(gdefs):
                    continue                    # the grid is a parameter / a literal: nothing is computed from a size here
                n += 1
                what = f"{src(c)[:60]}: grid for the size of its communicator"
                sizes, unresolved = [], None
                for g in grids:
                    se = g.args[1] if len(g.args) > 1 else next((k.value for k in g.keywords if "size" in (k.arg or "") or "proc" in (k.arg or "")), None)
                    if se is None:
                        unresolved = src(g)
                        continue
                    todo, seen = [se], set()
                    exprs = []
                    while todo:
                        e = todo.pop()
                        if isinstance(e, ast.Name) and e.id not in seen and _defs_of(fn, e.id):
                            seen.add(e.id)
                            todo.extend(d.value for d in _defs_of(fn, e.id))
                        else:
                            exprs.append(e)
                    sizes.extend(exprs)
                comms_of_size = set()
                exact = True
                for e in sizes:
                    gs = [x for x in ast.walk(e) if isinstance(x, ast.Call) and isinstance(x.func, ast.Attribute) and x.func.attr == "Get_size"]
                    if not gs:
                        unresolved = unresolved or src(e)
                    for x in gs:
                        comms_of_size.add(src(x.func.value))
                    if not (len(gs) == 1 and gs[0] is e):
                        exact = False
                cdefs = [d.value for d in _defs_of(fn, ce.id)]
                if unresolved is not None or not comms_of_size:
                    chk.ob("B11-topology-size", c, what, None, f"the number of processes the grid `{ge.id}` is computed for "
                           f"(`{(unresolved or '?')[:50]}`) was not traced to the size of a communicator", file=rel, func=q)
                    continue
                if comms_of_size == {ce.id} and exact:
                    chk.ob("B11-topology-size", c, what, True, f"the grid `{ge.id}` is computed for `{ce.id}.Get_size()` processes and the "
                           f"topology is created on `{ce.id}` itself ({how})", file=rel, func=q)
                    continue
                split_of = [d for d in cdefs if isinstance(d, ast.Call) and isinstance(d.func, ast.Attribute) and d.func.attr == "Split" and
                            src(d.func.value) in comms_of_size]
                from ..core import guards_of
                rank_guard = [t_ for t_, _, k_ in guards_of(c) if k_ in ("if", "while") and
                              any((isinstance(x, ast.Call) and isinstance(x.func, ast.Attribute) and x.func.attr == "Get_rank") or
                                  (isinstance(x, ast.Name) and "rank" in x.id.lower()) or
                                  (isinstance(x, ast.Attribute) and "rank" in x.attr.lower()) for x in ast.walk(t_))]
                more_sites = [x for x in sites if x[0] is not c and isinstance(x[1], ast.Name) and x[1].id == ce.id]
                if ce.id not in comms_of_size and split_of and rank_guard and not more_sites:
                    # AUDIT: the diagnosis says that the OTHER group of the split also asks for this grid; when the creation is made
                    # under a test on the rank (and nowhere else in the function) only one group may reach it
                    chk.ob("B11-topology-size", c, what, None,
                           f"the process grid `{ge.id}` is computed for `{src(sizes[0])[:60]}` processes, a quantity of the communicator "
                           f"`{sorted(comms_of_size)[0]}` that `{ce.id}` was split from; the topology is created under `{src(rank_guard[0])[:50]}`: "
                           "whether the ranks of the other group reach it is not decided", file=rel, func=q)
                elif ce.id not in comms_of_size and split_of:
                    par_ = sorted(comms_of_size)[0]
                    chk.ob("B11-topology-size", c, what, False,
                           f"the process grid `{ge.id}` is computed for `{src(sizes[0])[:70]}` processes, a quantity of the communicator `{par_}`, "
                           f"but the topology is created ({how}) on `{ce.id}`, which is `{src(split_of[0])[:60]}`: the groups of a split have "
                           "different sizes, so one expression of the parent's size fits at most one of them.  On the ranks of the other "
                           "group (a plotting rank alone in its group) Create_cart is asked for a grid whose number of processes is not the "
                           "size of the communicator: that rank fails during set-up while the others go on and wait for it in the next "
                           f"collective on `{par_}`", file=rel, func=q)
                else:
                    chk.ob("B11-topology-size", c, what, None, f"the grid `{ge.id}` is computed for `{src(sizes[0])[:60]}` processes; that this is "
                           f"the size of `{ce.id}`, on which the topology is created, was not established", file=rel, func=q)
    return n



# ------------------------------------------------------------------ B12
_FS_READS = ("os.path.exists", "os.path.isdir", "os.path.isfile", "os.path.lexists", "os.listdir", "os.stat", "os.access", "glob.glob",
             "os.path.getsize", "os.path.getmtime", "os.scandir")
_FS_WRITES = ("os.mkdir", "os.makedirs", "os.remove", "os.unlink", "os.rmdir", "os.rename", "os.replace", "shutil.rmtree", "shutil.move",
              "shutil.copy", "shutil.copyfile", "os.removedirs", "np.save", "np.savetxt", "np.savez")


def _fs_write(c):
    """is the call a modification of the file system? -> description or None"""
    f = src(c.func)
    if f in _FS_WRITES:
        return f
    if f in ("open", "io.open", "h5py.File") or (isinstance(c.func, ast.Attribute) and c.func.attr == "File" and src(c.func.value) == "h5py"):
        mode = c.args[1] if len(c.args) > 1 else next((k.value for k in c.keywords if k.arg == "mode"), None)
        if isinstance(mode, ast.Constant) and isinstance(mode.value, str) and any(ch in mode.value for ch in "wax+"):
            return f"{f}(..., {mode.value!r})"
    return None


def b12_fs_race(chk, s, tracers):
    """the state of the (shared) file system is the same for every rank only while nobody changes it: a collective that is control
    dependent on a file-system test evaluated by several ranks, in a function that itself modifies the file system after that test
    with no collective in between on the writer's path, is a time-of-check / time-of-use race - a rank that arrives after the write
    sees another state, takes the other branch, and the collective sequences no longer match"""
    from ..core import guards_of
    from ..spmd import nonuniform
    n = 0
    for key, tr in tracers.items():
        fi = s.funcs[key]
        fn = fi.node
        events = sorted((c for c in tr.ev_nodes if s._owner(c) is fn), key=lambda c: (c.lineno, c.col_offset))
        if not events:
            continue
        env = {}
        for a in ast.walk(fn):
            if isinstance(a, ast.Assign) and len(a.targets) == 1 and isinstance(a.targets[0], ast.Name):
                env.setdefault(a.targets[0].id, []).append(a)

        def fs_reads(t, depth=0):
            """file-system tests the value of the expression comes from, with the statement that evaluates them"""
            out = []
            for x in ast.walk(t):
                if isinstance(x, ast.Call) and src(x.func) in _FS_READS:
                    out.append(x)
                elif isinstance(x, ast.Name) and isinstance(x.ctx, ast.Load) and depth < 3:
                    for a in env.get(x.id, []):
                        out.extend(fs_reads(a.value, depth + 1))
            return out
        writes = [(c, _fs_write(c)) for c in ast.walk(fn) if isinstance(c, ast.Call) and s._owner(c) is fn and _fs_write(c)]
        seen_tests = set()
        for c in events:
            for t, pol, kind in guards_of(c):
                if kind not in ("if", "while", "ifexp") or id(t) in seen_tests:
                    continue
                reads = fs_reads(t)
                if not reads:
                    continue
                seen_tests.add(id(t))
                rd = min(reads, key=lambda x: (x.lineno, x.col_offset))
                # evaluated by one rank only (inside a branch on the rank)?  then it is that rank's private decision
                st_rd = rd
                while not isinstance(st_rd, ast.stmt):
                    st_rd = parent(st_rd)
                rank_only = any(k_ in ("if", "while") and "RANK" in tr.lf.at.get(t_, set()) for t_, _, k_ in guards_of(st_rd))
                if rank_only:
                    continue
                n += 1
                later = [(w, d) for w, d in writes if (w.lineno, w.col_offset) > (rd.lineno, rd.col_offset)]
                what = f"{src(c)[:40]} under `{src(t)[:50]}`"
                if not later:
                    chk.ob("B12-fs-race", c, what, True, f"the collective depends on the file-system test `{src(rd)[:50]}`; the function does "
                           "not modify the file system after that test: every rank sees the same state (shared file system)",
                           file=fi.rel, func=fi.qual)
                    continue
                verdicts = []
                for w, d in later:
                    # collectives on EVERY path from the test to the write: those whose enclosing tests all enclose the write as well
                    wg = {id(t_): pol_ for t_, pol_, k_ in guards_of(w) if k_ == "if"}
                    between = []
                    for e_ in events:
                        if not ((rd.lineno, rd.col_offset) < (e_.lineno, e_.col_offset) < (w.lineno, w.col_offset)):
                            continue
                        eg = {id(t_): pol_ for t_, pol_, k_ in guards_of(e_) if k_ == "if"}
                        if any(wg.get(k_) != p_ for k_, p_ in eg.items()):
                            continue                # under a test that the write is not under (or its other arm): a path to the write avoids it
                        between.append(e_)
                    verdicts.append((w, d, between))
                racy = [(w, d) for w, d, b_ in verdicts if not b_]

                def path_words(e, depth=0):
                    """names and string pieces the path expression is made of (locals resolved)"""
                    out = set()
                    for x in ast.walk(e):
                        if isinstance(x, ast.Constant) and isinstance(x.value, str):
                            out |= {w_ for w_ in x.value.replace("{", "/").replace("}", "/").split("/") if len(w_) > 2}
                        elif isinstance(x, ast.Name) and isinstance(x.ctx, ast.Load):
                            out.add("$" + x.id)
                            if depth < 3:
                                for a in env.get(x.id, []):
                                    out |= path_words(a.value, depth + 1)
                    return out - {"$os", "$np", "$h5py", "$open", "$print"}
                rw = path_words(ast.Tuple(elts=list(rd.args), ctx=ast.Load()))
                scored = sorted(((len(rw & path_words(ast.Tuple(elts=list(w.args), ctx=ast.Load()))), -w.lineno, w, d) for w, d in racy),
                                key=lambda x: (x[0], x[1]), reverse=True)
                if racy and scored[0][0] == 0:
                    w, d = racy[0]
                    chk.ob("B12-fs-race", c, what, None, f"the collective depends on the file-system test `{src(rd)[:50]}` and the function "
                           f"writes to the file system afterwards (`{src(w)[:40]}`) with no collective in between; whether the write touches "
                           "what the test looks at was not established", file=fi.rel, func=fi.qual)
                elif racy:
                    # AUDIT: a collective is control dependent on a file-system test that several ranks evaluate (not under a test on the
                    # rank), the function writes to the file system after the test on a path with no collective in between (so
                    # nothing orders the write after every rank's test), and the path written shares a name / a piece of text with
                    # the path tested (otherwise UNDECIDED above)
                    # the write whose path shares most with the tested path (a string piece counts as much as a name; later writes first)
                    best = max(scored, key=lambda x: (len({y for y in rw & path_words(ast.Tuple(elts=list(x[2].args), ctx=ast.Load()))
                                                          if not y.startswith("$")}), x[0]))
                    w, d = best[2], best[3]
                    wconds = [("" if pol_ else "not ") + src(t_)[:40] for t_, pol_, k_ in guards_of(w) if k_ == "if"]
                    chk.ob("B12-fs-race", c, what, False,
                           f"`{src(c)[:50]}` is issued or skipped according to `{src(rd)[:60]}`, a test of the file system that every rank "
                           f"evaluates on its own, and the function itself changes that state afterwards: `{src(w)[:60]}` (line {w.lineno}" +
                           (f", when `{' and '.join(reversed(wconds))[:90]}`" if wconds else "") + ") with no collective between the test and "
                           "the write on that path.  A rank that reaches the test after another rank has written sees another answer (time of "
                           "check / time of use): it takes the other branch, and the collective has no partner - the ranks wait for ever.  "
                           "The shared-file-system assumption makes such tests rank-uniform only while nobody writes", file=fi.rel, func=fi.qual)
                else:
                    w, d, b_ = verdicts[0]
                    chk.ob("B12-fs-race", c, what, None, f"the collective depends on the file-system test `{src(rd)[:50]}` and the function "
                           f"writes (`{src(w)[:40]}`) after `{src(b_[0])[:40]}`: whether that collective orders the write after every rank's "
                           "test is not decided", file=fi.rel, func=fi.qual)
    return n


# ------------------------------------------------------------------ B5
GATHERV_TEMPLATE = """
sizes = [coords.pop() for coords in mpi_data]
starts = np.zeros(len(sizes), int)
starts[1:] = np.cumsum(sizes[:comm.Get_size() - 1])
sliceSize = np.sum(sizes)
mySlice = np.empty(sliceSize, dtype=float)
comm.Gatherv(toSend, (mySlice, sizes, starts, MPI.DOUBLE), rank)
"""


def _defs_of(fn, name):
    return [n for n in ast.walk(fn) if isinstance(n, ast.Assign) and any(isinstance(t, ast.Name) and t.id == name for t in n.targets)]


def _one_of(node, forms, vars=(), bind=None):
    from ..core import same_expr
    return any(same_expr(node, f, vars=vars, bind=bind) for f in forms)


def _count_from_unclipped_bounds(fn, ts, appends, defs):
    """recognised wrong form of the members' report: the count is computed from the BOUNDS of the slices (prod(stop - start) over
    a list L of slice objects) and not from the send buffer, the send buffer is `A[tuple(L)]` (flattened / real part / copied:
    size-preserving wrappers only), and a stop stored in L is a GLOBAL end index (`X.ends[i]`, no start subtracted) while the other
    bounds of L are converted to offsets in the local block (`v - X.starts[i]`).  numpy clips a slice stop that lies past the
    extent of the axis, so the array that is sent has prod(min(stop, n) - start) elements: fewer than announced on every rank
    whose block does not start at 0.  -> (diagnosis or None, reason why undecided or None)"""
    def strip(e):
        # size-preserving wrappers around the indexing
        while True:
            if isinstance(e, ast.Call) and isinstance(e.func, ast.Attribute) and e.func.attr in ("flatten", "ravel", "copy") and not e.args:
                e = e.func.value
            elif isinstance(e, ast.Call) and src(e.func) in ("np.real", "np.imag", "np.ascontiguousarray", "np.array", "np.ravel") and \
                    len(e.args) == 1 and not e.keywords:
                e = e.args[0]
            elif isinstance(e, ast.Attribute) and e.attr in ("real", "imag"):
                e = e.value
            else:
                return e
    lists, arrays = set(), set()
    for d in defs:
        v = d.value
        if isinstance(v, ast.Call) and src(v.func) in ("np.ndarray", "np.empty", "np.zeros") and v.args and src(v.args[0]) in ("0", "(0,)"):
            continue
        core_ = strip(v)
        if not (isinstance(core_, ast.Subscript) and isinstance(core_.slice, ast.Call) and src(core_.slice.func) == "tuple" and
                len(core_.slice.args) == 1 and isinstance(core_.slice.args[0], ast.Name)):
            return None, None
        lists.add(core_.slice.args[0].id)
        arrays.add(src(core_.value))
    if len(lists) != 1 or len(arrays) != 1:
        return None, None
    L, A = next(iter(lists)), next(iter(arrays))
    # the announced count: every non-zero report is prod(s.stop - s.start for s in L), possibly wrapped in int(...)
    seen = False
    for a in appends:
        e = a.value.args[0]
        if isinstance(e, ast.Constant) and e.value == 0:
            continue
        if any(isinstance(x, ast.Name) and x.id == ts for x in ast.walk(e)):
            return None, None
        while isinstance(e, ast.Call) and src(e.func) in ("int", "np.int64", "np.intp") and len(e.args) == 1:
            e = e.args[0]
        if not (isinstance(e, ast.Call) and src(e.func) in ("np.prod", "math.prod", "prod", "np.product") and len(e.args) == 1 and
                isinstance(e.args[0], (ast.ListComp, ast.GeneratorExp)) and len(e.args[0].generators) == 1):
            return None, None
        g = e.args[0].generators[0]
        if not (isinstance(g.iter, ast.Name) and g.iter.id == L and isinstance(g.target, ast.Name) and not g.ifs):
            return None, None
        s_ = g.target.id
        if src(e.args[0].elt).replace(" ", "") != f"{s_}.stop-{s_}.start":
            return None, None
        seen = True
    if not seen:
        return None, None
    shape = (f"the count announced is prod(stop - start) over the slices of `{L}`, computed before `{A}[tuple({L})]` is taken, not the "
             f"size of `{ts}`")
    # the bounds stored in L
    glob, local = [], False
    for n in ast.walk(fn):
        if isinstance(n, ast.Call) and isinstance(n.func, ast.Attribute) and n.func.attr == "append" and src(n.func.value) == L and \
                len(n.args) == 1 and isinstance(n.args[0], ast.Call) and src(n.args[0].func) == "slice" and len(n.args[0].args) == 2:
            for bnd in n.args[0].args:
                vals = [d.value for d in _defs_of(fn, bnd.id)] if isinstance(bnd, ast.Name) else [bnd]
                for v in vals:
                    if isinstance(v, ast.Subscript) and isinstance(v.value, ast.Attribute) and v.value.attr == "ends" and bnd is n.args[0].args[1]:
                        glob.append((src(bnd), src(v)))
                    elif isinstance(v, ast.BinOp) and isinstance(v.op, ast.Sub) and isinstance(v.right, ast.Subscript) and \
                            isinstance(v.right.value, ast.Attribute) and v.right.value.attr == "starts":
                        local = True
    # AUDIT: VIOLATED = (1) no report reads the send buffer and every non-empty one is prod(stop - start) over L; (2) every non-empty
    # definition of the send buffer is A[tuple(L)] under size-preserving wrappers; (3) the bounds in L are offsets in the local block
    # (some are converted with `- X.starts[i]`) and (4) a stop in L is bound, on some path, to the global end `X.ends[i]` itself:
    # that stop exceeds the local extent ends - starts whenever starts > 0 and numpy clips it (a fact of numpy slicing)
    if glob and local:
        nm, ge = glob[0]
        return (f"{shape}; the stop `{nm}` of a slice is the GLOBAL end `{ge}` where a requested range reaches the end of the local block "
                f"(the other bounds are offsets, `... - starts[i]`) and the code relies on numpy clipping it to the extent of `{A}`: on "
                "every rank whose block does not start at 0 the announced count is larger than the array passed to Gatherv, so the "
                "root's recvcounts / displacements differ from what the members send (MPI truncation error or a corrupted figure "
                "block).  The announced size must be the size of the array actually sent (`toSend.size`)"), None
    return None, (shape + ": equal only if every stop lies within the extent of the axis (numpy clips a slice, the product of the "
                  "bounds does not): not established")


def b5_gatherv_geometry(chk):
    """the root's receive specification of the variable-count gather matches what the members send: counts = what every member
    reported (gathered on the same communicator to the same root), displacements = their exclusive prefix sums, receive buffer of
    their total; every member reports the size of the very buffer it sends.  Decided piece by piece on the definitions that reach
    the Gatherv call, so that equivalent spellings (sizes[:-1], len(sizes)-1, comm.Get_size()-1; sum / np.sum) are the same."""
    from ..core import find, contains
    q = "Grid.getBlockForFig"
    fn = chk.func(U.GRID, q)
    calls = [n for n in ast.walk(fn) if isinstance(n, ast.Call) and isinstance(n.func, ast.Attribute) and n.func.attr == "Gatherv"]
    if not calls:
        chk.ob("B5-gatherv-geometry", fn, "variable-count gather of the figure block", None, f"no Gatherv call found in {q}: how the "
               "blocks are collected on the drawing rank was not recognised", file=U.GRID, func=q)
        return
    b = find(fn, GATHERV_TEMPLATE, vars=("comm", "mpi_data", "toSend", "rank", "coords")) if len(calls) == 2 else None
    bad, why_not = None, ""

    def spec_of(c):
        """the (buffer, counts, displacements, ...) receive specification of a Gatherv call: written in the call, or bound to a
        local that is the specification on the root and None / the send buffer elsewhere"""
        a = c.args[1] if len(c.args) >= 2 else next((k.value for k in c.keywords if k.arg == "recvbuf"), None)
        if isinstance(a, ast.Name):
            ds = [d.value for d in _defs_of(fn, a.id)]
            tu = [d for d in ds if isinstance(d, (ast.Tuple, ast.List)) and len(d.elts) >= 3]
            if len(tu) == 1 and all(d is tu[0] or (isinstance(d, ast.Constant) and d.value is None) or isinstance(d, ast.Name) for d in ds):
                return tu[0]
            return None
        return a if isinstance(a, (ast.Tuple, ast.List)) and len(a.elts) >= 3 else None
    root = [c for c in calls if spec_of(c) is not None]
    if b is None and root:
        rc = root[0]
        comm = src(rc.func.value)
        rk = src(rc.args[2]) if len(rc.args) > 2 else src(next((k.value for k in rc.keywords if k.arg == "root"), None))
        buf, counts, displs = spec_of(rc).elts[:3]
        full = inline_locals(fn)
        pieces = {}
        # counts: the last entry of what every member sent to the gather on the same communicator and root
        if isinstance(counts, ast.Name) and len(_defs_of(fn, counts.id)) == 1:
            v = _defs_of(fn, counts.id)[0].value
            if isinstance(v, ast.ListComp) and len(v.generators) == 1 and isinstance(v.generators[0].target, ast.Name) and \
                    isinstance(v.generators[0].iter, ast.Name) and not v.generators[0].ifs:
                c_, d_ = v.generators[0].target.id, v.generators[0].iter.id
                dd = _defs_of(fn, d_)
                unpack = "last" if _one_of(v.elt, (f"{c_}.pop()", f"{c_}[-1]", f"{c_}.pop(-1)")) else \
                    "first" if _one_of(v.elt, (f"{c_}.pop(0)", f"{c_}[0]")) else None
                if unpack and len(dd) == 1 and \
                        _one_of(dd[0].value, (f"{comm}.gather(INFO, root={rk})", f"{comm}.gather(INFO, {rk})"), vars=("INFO",)):
                    pieces["counts"] = dd[0].value.args[0]
                    pieces["unpack"] = (unpack, src(v.elt))
        # displacements: exclusive prefix sums of the counts
        if isinstance(displs, ast.Name) and isinstance(counts, ast.Name):
            cn, dn = counts.id, displs.id
            upto = (f"{cn}[:-1]", f"{cn}[:len({cn}) - 1]", f"{cn}[:{comm}.Get_size() - 1]", f"{cn}[0:-1]")
            dd = _defs_of(fn, dn)
            subs = [n for n in ast.walk(fn) if isinstance(n, ast.Assign) and len(n.targets) == 1 and isinstance(n.targets[0], ast.Subscript)
                    and src(n.targets[0].value) == dn]
            if len(dd) == 1 and len(subs) == 1 and _one_of(dd[0].value, (f"np.zeros(len({cn}), int)", f"np.zeros(len({cn}), dtype=int)",
                                                                        f"np.zeros({comm}.Get_size(), int)", f"np.zeros({comm}.Get_size(), dtype=int)",
                                                                        f"np.zeros_like({cn})")) \
                    and src(subs[0].targets[0].slice) == "1:":
                if any(_one_of(subs[0].value, (f"np.cumsum({u})",)) for u in upto):
                    pieces["displs"] = True
                elif _one_of(subs[0].value, (f"np.cumsum({cn}[1:])", f"np.cumsum({cn})[1:]")):
                    # AUDIT (both `bad` forms of the displacements): `dn` IS the displacement entry of the receive specification of the
                    # Gatherv call (third entry of the tuple, resolved by spec_of), `cn` its count entry, each bound once in the method
                    bad = (f"the displacements `{dn}[1:] = {src(subs[0].value)}` are not the exclusive prefix sums of the counts `{cn}`: "
                           "block r does not start where blocks 0..r-1 end, so the gathered blocks overlap or leave gaps")
            elif len(dd) == 1 and not subs:
                forms = [f"np.concatenate(([0], np.cumsum({u})))" for u in upto] + [f"np.cumsum([0] + {u})" for u in upto] + \
                    [f"np.cumsum({cn}) - {cn}", f"np.cumsum({cn}) - np.array({cn})"]
                if _one_of(dd[0].value, forms):
                    pieces["displs"] = True
                elif _one_of(dd[0].value, (f"np.cumsum({cn})",)):
                    bad = (f"the displacements `{dn} = np.cumsum({cn})` are the INCLUSIVE prefix sums of the counts: block r is placed "
                           "where it ends, the first block does not start at 0 and the last one runs past the receive buffer")
        # receive buffer: exactly the total
        if isinstance(buf, ast.Name) and isinstance(counts, ast.Name) and len(_defs_of(fn, buf.id)) == 1:
            v = _defs_of(fn, buf.id)[0].value
            if isinstance(v, ast.Call) and src(v.func) in ("np.empty", "np.zeros") and v.args:
                cn = counts.id
                keep = {cn} | ({displs.id} if isinstance(displs, ast.Name) else set())
                n_ = expand(v.args[0], {k: x for k, x in full.items() if k not in keep})
                if _one_of(n_, (f"np.sum({cn})", f"sum({cn})", f"int(np.sum({cn}))", f"int(sum({cn}))", f"np.array({cn}).sum()",
                                f"np.add.reduce({cn})")):
                    pieces["buf"] = True
                elif isinstance(displs, ast.Name) and pieces.get("displs") and \
                        _one_of(n_, (f"{displs.id}[-1] + {cn}[-1]", f"int({displs.id}[-1] + {cn}[-1])")):
                    pieces["buf"] = True         # exclusive prefix sums: the last block starts at starts[-1] and has sizes[-1] entries
        if bad is None and all(k in pieces for k in ("counts", "displs", "buf")):
            b = {"comm": comm, "rank": rk, "toSend": src(rc.args[0]), "mpi_data": "?", "_info": pieces["counts"],
                 "_unpack": pieces.get("unpack")}
        elif bad is None:
            why_not = "not recognised: " + ", ".join(k for k in ("counts", "displs", "buf") if k not in pieces)
    if b is None and bad is None and root:
        if isinstance(spec_of(root[0]).elts[0], ast.Name):
            rn = spec_of(root[0]).elts[0].id
            defs = [n for n in ast.walk(fn) if isinstance(n, ast.Assign) and src(n.targets[0]) == rn]
            if defs and isinstance(defs[-1].value, ast.Subscript) and src(defs[-1].value.value).startswith("self."):
                attr = src(defs[-1].value.value)
                for g in ast.walk(fn):
                    if isinstance(g, ast.Compare) and len(g.ops) == 1 and f"{attr}.size" in (src(g.left), src(g.comparators[0])):
                        need_left = src(g.comparators[0]) == f"{attr}.size"       # S op attr.size
                        grow = isinstance(g.ops[0], (ast.Gt, ast.GtE, ast.NotEq)) if need_left else \
                            isinstance(g.ops[0], (ast.Lt, ast.LtE, ast.NotEq))
                        if not grow:
                            # AUDIT: the receive buffer of the specification is a view of an attribute kept between calls, and the
                            # only test of its size re-allocates it when it is too LARGE, never when it is too small
                            bad = (f"the receive buffer `{rn}` is a view of the kept `{attr}`, which is re-allocated only when `{src(g)}`: "
                                   "a later, larger request gets a receive buffer shorter than the counts the members send")
    chk.pat("B5-gatherv-geometry", calls[0], "root: recv = empty(sum(counts)), displs = exclusive cumsum(counts), counts gathered from the members",
            b is not None, "the counts are the sizes every member reported, the displacements their exclusive prefix sums and the receive "
            "buffer has exactly their total", bad, file=U.GRID, func=q)
    # members: every definition of the send buffer is followed by the report of its size, at the place of the record where the
    # root looks for it
    ok2, bad2 = None, None
    if b is not None and b.get("_unpack"):
        # the record built in one display after the send buffer is known: [size, *coords] / [*coords, size] / coords + [size]
        ts = b["toSend"]
        info_n = b["_info"]
        sizes_ok = (f"{ts}.size", f"len({ts})", f"{ts}.shape[0]", f"np.size({ts})")
        if isinstance(info_n, ast.Name):
            idefs = _defs_of(fn, info_n.id)
            appends_ = [n for n in ast.walk(fn) if isinstance(n, ast.Call) and isinstance(n.func, ast.Attribute) and
                        n.func.attr in ("append", "insert", "extend") and src(n.func.value) == info_n.id]
            if len(idefs) == 1 and not appends_:
                v = idefs[0].value
                pack = None
                if isinstance(v, ast.List) and len(v.elts) >= 2:
                    if _one_of(v.elts[0], sizes_ok) and all(isinstance(x, ast.Starred) for x in v.elts[1:]):
                        pack = "first"
                    elif _one_of(v.elts[-1], sizes_ok) and all(isinstance(x, ast.Starred) for x in v.elts[:-1]):
                        pack = "last"
                elif isinstance(v, ast.BinOp) and isinstance(v.op, ast.Add):
                    if isinstance(v.right, ast.List) and len(v.right.elts) == 1 and _one_of(v.right.elts[0], sizes_ok):
                        pack = "last"
                    elif isinstance(v.left, ast.List) and len(v.left.elts) == 1 and _one_of(v.left.elts[0], sizes_ok):
                        pack = "first"
                # the display must come after every definition of the send buffer (it reads its size)
                after = all(d.lineno < idefs[0].lineno for d in _defs_of(fn, ts)) and not isinstance(parent(idefs[0]), (ast.For, ast.While))
                if pack and after:
                    if pack == b["_unpack"][0]:
                        ok2 = True
                    else:
                        # AUDIT (relational): where the members put the size in the record (one display, after every definition of
                        # the send buffer, no later append) against the entry the root takes as the count
                        bad2 = (f"the members put the size of their buffer {pack} in the record (`{src(idefs[0])[:60]}`) but the root takes "
                                f"the {b['_unpack'][0]} entry (`{b['_unpack'][1]}`) as the count: the counts handed to Gatherv are MPI "
                                "coordinates, not the sizes the members send")
    if b is not None and ok2 is None and bad2 is None:
        ts = b["toSend"]
        sends = {src(c.args[0]) for c in calls if c.args}
        info = None
        for n in ast.walk(fn):
            if isinstance(n, ast.Call) and isinstance(n.func, ast.Attribute) and n.func.attr == "gather" and src(n.func.value) == b["comm"] and n.args:
                info = src(n.args[0])
        if sends == {ts} and info is not None:
            appends = [n for n in ast.walk(fn) if isinstance(n, ast.Expr) and isinstance(n.value, ast.Call) and
                       isinstance(n.value.func, ast.Attribute) and n.value.func.attr == "append" and src(n.value.func.value) == info
                       and len(n.value.args) == 1]
            defs = _defs_of(fn, ts)
            ok2 = bool(appends) and bool(defs)
            for d in defs:
                # the report that follows this definition: in its block or in an enclosing one
                node, rep = d, None
                while node is not None and node is not fn and rep is None:
                    par = parent(node)
                    for f_ in ("body", "orelse"):
                        blk = getattr(par, f_, None)
                        if isinstance(blk, list) and node in blk:
                            rep = next((a for a in blk[blk.index(node) + 1:] if a in appends), None)
                    node = par
                if rep is None:
                    ok2 = None
                    break
                a0 = rep.value.args[0]
                empty = isinstance(d.value, ast.Call) and src(d.value.func) in ("np.ndarray", "np.empty", "np.zeros") and \
                    d.value.args and src(d.value.args[0]) in ("0", "(0,)")
                if _one_of(a0, (f"{ts}.size", f"len({ts})", f"{ts}.shape[0]", f"np.size({ts})")) or (empty and src(a0) == "0"):
                    continue
                ok2 = None
                break
            if not ok2 and appends and defs:
                ok2 = None
                bad2, und2 = _count_from_unclipped_bounds(fn, ts, appends, defs)
                if und2 and not bad2:
                    chk.note("B5 (members): " + und2)
            if ok2 and b.get("_unpack") and b["_unpack"][0] != "last":
                ok2, bad2 = None, (f"the members append the size of their buffer at the end of the record but the root takes the first entry "
                                   f"(`{b['_unpack'][1]}`) as the count: the counts handed to Gatherv are MPI coordinates")
    chk.pat("B5-gatherv-geometry", fn, "every member reports the size of the buffer it then sends", ok2,
            "the reported count is the size of the very array passed to Gatherv (0 for an empty contribution), at the place of the record "
            "where the root reads it", bad2, file=U.GRID, func=q)


def run(chk):
    chk.explanation = (
        "SPMD collective matching by static analysis: rank-variation labels (RANK/AXIS/DATA/CLOCK/FS/HASH) are "
        "propagated flow-sensitively through every function that transitively issues a collective; rule B1: a "
        "collective may only be control dependent on rank-uniform conditions unless every alternative of the "
        "governed region issues the same collective sequence (op, communicator, root, reduction op); loops around "
        "collectives need uniform trip conditions; B2/B3: roots and reduction ops uniform and equal on both arms "
        "of rank splits; interprocedurally every parameter that influences such a guard is uniform at all call "
        "sites; B4: the hash-ordered choice in the route search is compensated by a total-order tie-break (plain or lexicographic "
        "tuple comparison ending in the route itself), and every condition governing a store into the route table reads rank-uniform "
        "values only (closures followed, parameters resolved at the call sites of the search); B5: counts / displacements / receive "
        "buffer of the variable-count gather agree with what the members report, decided on the definitions reaching the call; B6: "
        "the rank compared with the root of a rooted collective is the rank on the communicator of that collective; B7: the send and "
        "receive buffers of Alltoall / Allgather (counts = buffer lengths) are related by the communicator size as expressions, and "
        "neither is sized with the actual local size of a layout while the other is padded; B8: an explicit raise with collectives "
        "still to come is taken under rank-uniform conditions only; B4-input-order: the table handed to the route search (caller and "
        "search read as one unit) is not filled while iterating over a set of layout names, unless the search sorts what it walks; "
        "B11: where a process grid is computed from a number of processes and a Cartesian topology is created with it, that number "
        "is the size of the communicator of the topology, not a quantity of a communicator it was split from; B12: a collective that "
        "depends on a file-system test evaluated by several ranks, in a function that modifies the file system after the test with no "
        "collective in between, is a time-of-check / time-of-use race (the shared-file-system assumption holds while nobody writes). "
        "Refinements of "
        "engine B's verdicts made here: presence (`is None`) of attributes decided from their assignments, apart from their content; "
        "loops over tables written out in the source have a fixed trip count and their variables take the entries of one column.")
    chk.assumptions += [
        "the nodes of the connection graph handed to the route search are layout names, i.e. strings (documented API of the layout "
        "managers): a set of them is iterated in the order of salted hashes (rules B4)",
        "arguments documented as 'the same on all ranks' (layout names, foldername, saveStep, constants, file contents on a shared file system) are rank-uniform at the entry points",
        "1 <= p <= n in every distributed dimension (no empty block except on the dedicated plot-only rank)",
        "mpi4py/h5py collective semantics as listed in DESIGN.md section 3",
        "failed assert statements (debugging checks) stop the whole MPI job and are not modelled as divergent control flow; an explicit "
        "raise is: rule B8 requires its condition to be rank-uniform when collectives follow",
    ]
    for u in UNITS:
        chk.mod(u)
    prog = Program(chk.repo, UNITS)
    lay = chk.mod(U.LAYOUT)
    b4_self_positive(chk)
    b5_gatherv_geometry(chk)
    from ..spmd import SPMD
    # labels for the route search itself: computed as if the hash order were compensated (that is decided by B4-unordered-choice)
    b4ok = b4_route_determinism(chk, lay, SPMD(prog, chk, UNITS, b4_ok_funcs=("_makeConnectionMap",)))
    b6_root_role(chk, prog)
    b7_collective_counts(chk)
    b10_split_roles(chk)
    b4_input_order(chk)
    b11_topology_size(chk)
    proxy = _Deferring(chk)
    try:
        s, tracers = run_spmd(proxy, prog, UNITS, b4_ok_funcs=("_makeConnectionMap",) if b4ok else ())
    except Exception:
        # engine B stopped early: what it had established stays as it reported it
        for rule, node, construct, ok, msg, kw in proxy._held + proxy._held_tables + proxy._held_guards:
            chk.ob(rule, node, construct, ok, msg, **kw)
        raise
    refine_guards(chk, proxy._held_guards, s)
    refine_presence(chk, proxy._held, s)
    refine_tables(chk, proxy._held_tables, s)
    b8_local_raise(chk, s, tracers)
    b9_ordered_collective_loops(chk, s, tracers)
    b12_fs_race(chk, s, tracers)
    ncoll = sum(len(fi.collective_sites) for fi in s.funcs.values())
    nfun = sum(1 for fi in s.funcs.values() if fi.is_collective)
    chk.extra["collective_call_sites"] = ncoll
    chk.extra["collective_functions"] = nfun
    chk.extra["required_uniform_params"] = {f"{fi.rel}:{fi.qual}": fi.required_uniform for fi in s.funcs.values()
                                            if fi.required_uniform}
    chk.floor("B0-collective-site", 12)
    chk.floor("B1-balanced-region", 3)
    chk.floor("B4-unordered-choice", 1)
    chk.floor("B6-root-role", 2)
    chk.floor("B7-collective-counts", 2)
