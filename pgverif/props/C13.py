"""C13 - parallel gradient is the field-aligned finite-difference derivative.

The rules work on a small flow model of the three methods involved (`Flow`): the locals of a method are resolved by
def-use in program order (parameters and loop counters become distinct symbols, so a loop variable that shadows a
parameter cannot be confused with it), loops are recorded as index frames (counted rows, stencil entries), and the stores
into the result / table arrays are collected with the frames and conditions they sit under.  The rules then compare
symbolic normal forms (sympy) of the recorded parts with the specification:

* getCoeffsFirstDeriv(n): right-hand side e_1, shifts j + start with start = 1 - (n+1)//2, moment matrix shift_j**i;
* _getThetaVals: column c of the angle table is fieldline(theta, dz * shift_c) for every row the table has;
* parallel_gradient: the source rows tile [0, nz), every contribution goes to row (row - shift_j) mod nz with weight
  coeff_j and the angle column j, unwrapped targets stay inside [-nz, nz), the total scale is b_z(r_i)/dz, applied once.

A form the model cannot follow is UNDECIDED; VIOLATED is reserved for extracted forms that differ from the
specification (with the two sides in the diagnosis).
"""
from __future__ import annotations

import ast
import copy

import sympy as sp
from sympy import Symbol, Function, Integer

from ..core import src, parent
from .. import units as U
from ..symx import alg_equal, Undecided, ITE
from ..npsym import NpSym
from .. import lints
from .C05 import parallel_gradient as pg_index_spaces, v_parallel
from .C10 import sibling_geometry

CLS = "ParallelGradient"


# ======================================================================================================================
# flow model: def-use resolution + loop frames + recorded stores / calls
# ======================================================================================================================
ALLOC = {"empty", "zeros", "ones", "ndarray", "empty_like", "zeros_like", "ones_like", "full", "full_like"}


def _clone(e):
    return copy.deepcopy(e)


def _name(s):
    return ast.Name(id=s, ctx=ast.Load())


from .C05 import library_forms as _library_forms  # noqa: E402


class Frame:
    """one enclosing loop: `sym` counts its iterations from `lo` (inclusive) to `hi` (exclusive); kind 'range' for counted
    loops, 'elems' for loops over the elements of arrays (count = number of elements of `over`)"""

    def __init__(self, sym, kind, lo=None, hi=None, over=(), node=None):
        self.sym, self.kind, self.lo, self.hi, self.over, self.node = sym, kind, lo, hi, list(over), node


class Event:
    def __init__(self, kind, node, frames, guards, **kw):
        self.kind, self.node, self.frames, self.guards = kind, node, list(frames), list(guards)
        self.__dict__.update(kw)


class Flow:
    """resolved view of one function.  After `run()`: `events` (stores, in-place updates, expression calls, returns, in
    program order), `opaque` (reasons why parts of the body were not followed)."""

    def __init__(self, fn, arrays=()):
        self.fn = fn
        self.env: dict[str, ast.AST] = {}
        self.events: list[Event] = []
        self.opaque: list[str] = []
        self.frames: list[Frame] = []
        self.guards: list = []
        self.nsym = 0
        self.arrays = set(arrays)            # source texts of 1-D arrays whose elements are taken by loops / subscripts
        self.buffers: dict[str, ast.AST] = {}
        for a in fn.args.args + fn.args.kwonlyargs:
            if a.arg != "self":
                self.env[a.arg] = _name("P_" + a.arg)

    # ---- expressions
    def resolve(self, e):
        flow = self

        class R(ast.NodeTransformer):
            def visit_Name(self, node):
                if node.id in flow.env:
                    return _clone(flow.env[node.id])
                return node
        out = R().visit(_clone(e))
        return self.push_subscripts(_library_forms(out))

    def is_array_expr(self, e):
        """element-wise expression over the known 1-D arrays (at least one of them occurs)"""
        if src(e) in self.arrays:
            return True
        if isinstance(e, ast.BinOp):
            return self.is_array_expr(e.left) or self.is_array_expr(e.right)
        if isinstance(e, ast.UnaryOp):
            return self.is_array_expr(e.operand)
        return False

    def elem(self, e, idx):
        """element `idx` of an element-wise expression over the known arrays (scalars broadcast)"""
        if src(e) in self.arrays:
            return ast.Subscript(value=_clone(e), slice=_clone(idx), ctx=ast.Load())
        if isinstance(e, ast.BinOp) and self.is_array_expr(e):
            return ast.BinOp(left=self.elem(e.left, idx), op=e.op, right=self.elem(e.right, idx))
        if isinstance(e, ast.UnaryOp) and self.is_array_expr(e):
            return ast.UnaryOp(op=e.op, operand=self.elem(e.operand, idx))
        if isinstance(e, ast.Call) and isinstance(e.func, ast.Name) and e.func.id == "range" and not e.keywords:
            a = e.args
            if len(a) == 1:
                return _clone(idx)
            if len(a) == 2:
                return ast.BinOp(left=_clone(a[0]), op=ast.Add(), right=_clone(idx))
            return None
        return _clone(e) if not isinstance(e, (ast.Call, ast.Subscript)) or not self.is_array_expr(e) else None

    def row_of(self, seq, sym):
        """iterating an array-valued attribute / a sub-table of one (`self._tab[i]`) yields its rows: element `sym` is `seq[sym]`"""
        base = seq
        while isinstance(base, ast.Subscript):
            base = base.value
        if isinstance(base, ast.Attribute) and isinstance(base.value, ast.Name) and base.value.id == "self":
            return ast.Subscript(value=_clone(seq), slice=_name(sym), ctx=ast.Load())
        return None

    def push_subscripts(self, e):
        flow = self

        class P(ast.NodeTransformer):
            def visit_Subscript(self, node):
                self.generic_visit(node)
                if not isinstance(node.slice, (ast.Tuple, ast.Slice)) and isinstance(node.value, (ast.BinOp, ast.UnaryOp)) \
                        and flow.is_array_expr(node.value):
                    el = flow.elem(node.value, node.slice)
                    if el is not None:
                        return el
                return node
        return P().visit(e)

    def new_sym(self, pfx):
        self.nsym += 1
        return f"{pfx}{self.nsym}"

    # ---- statements
    def run(self):
        self.block(self.fn.body)
        return self

    def emit(self, kind, node, **kw):
        ev = Event(kind, node, self.frames, self.guards, **kw)
        self.events.append(ev)
        return ev

    def block(self, stmts):
        for st in stmts:
            self.stmt(st)

    def bind(self, target, value):
        if isinstance(target, ast.Name):
            self.env[target.id] = value if value is not None else _name("U_" + target.id)
        elif isinstance(target, (ast.Tuple, ast.List)):
            vals = value.elts if isinstance(value, (ast.Tuple, ast.List)) and len(value.elts) == len(target.elts) else None
            for k, t in enumerate(target.elts):
                self.bind(t, vals[k] if vals else None)

    def stmt(self, st):
        if isinstance(st, ast.Expr) and isinstance(st.value, ast.Constant):
            return
        if isinstance(st, (ast.Assign, ast.AnnAssign)):
            targets = st.targets if isinstance(st, ast.Assign) else [st.target]
            if st.value is None:
                return
            val = self.resolve(st.value)
            for t in targets:
                if isinstance(t, (ast.Name, ast.Tuple, ast.List)) and all(isinstance(x, ast.Name) for x in ast.walk(t) if isinstance(x, ast.expr)
                                                                           and not isinstance(x, (ast.Tuple, ast.List))):
                    if isinstance(t, ast.Name) and isinstance(val, ast.Call) and src(val.func).split(".")[-1] in ALLOC:
                        b = self.new_sym("BUF_" + t.id + "_")
                        self.buffers[b] = val
                        self.env[t.id] = _name(b)
                    else:
                        self.bind(t, val)
                else:
                    self.emit("store", st, target=self.resolve(t), value=val, op=None)
            return
        if isinstance(st, ast.AugAssign):
            val = self.resolve(st.value)
            if isinstance(st.target, ast.Name):
                cur = self.env.get(st.target.id)
                if cur is None or (isinstance(cur, ast.Name) and cur.id.startswith(("P_", "BUF_"))):
                    # in-place update of an array handed in / allocated here
                    self.emit("store", st, target=self.resolve(st.target), value=val, op=st.op)
                elif isinstance(cur, ast.Subscript) and isinstance(cur.value, ast.Name) and cur.value.id.startswith(("P_", "BUF_")) and \
                        any(isinstance(i_, ast.Slice) for i_ in (cur.slice.elts if isinstance(cur.slice, ast.Tuple) else [cur.slice])):
                    # the name holds a VIEW of such an array (a subscript with a slice component): `view op= v` updates the array in place
                    self.emit("store", st, target=_clone(cur), value=val, op=st.op)
                else:
                    self.env[st.target.id] = ast.BinOp(left=_clone(cur), op=st.op, right=val)
                    self.emit("rebind", st, name=st.target.id, value=self.env[st.target.id], op=st.op)
            else:
                self.emit("store", st, target=self.resolve(st.target), value=val, op=st.op)
            return
        if isinstance(st, ast.Expr):
            self.emit("call" if isinstance(st.value, ast.Call) else "expr", st, value=self.resolve(st.value))
            return
        if isinstance(st, ast.Return):
            self.emit("return", st, value=self.resolve(st.value) if st.value is not None else None)
            return
        if isinstance(st, ast.Assert):
            self.emit("assert", st, value=self.resolve(st.test))
            return
        if isinstance(st, ast.For) and not st.orelse:
            self.loop(st)
            return
        if isinstance(st, ast.If):
            test = self.resolve(st.test)
            if isinstance(test, ast.Constant) and isinstance(test.value, bool):
                self.block(st.body if test.value else st.orelse)
                return
            env0 = dict(self.env)
            self.guards.append((test, True))
            self.block(st.body)
            env1 = self.env
            self.guards[-1] = (test, False)
            self.env = dict(env0)
            self.block(st.orelse)
            env2 = self.env
            self.guards.pop()
            out = {}
            for k in set(env1) | set(env2):
                a, b = env1.get(k), env2.get(k)
                if a is not None and b is not None and src(a) == src(b):
                    out[k] = a
                elif a is not None and b is not None:
                    out[k] = ast.IfExp(test=_clone(test), body=a, orelse=b)
                else:
                    out[k] = _name("U_" + k)
            self.env = out
            return
        if isinstance(st, ast.With):
            self.block(st.body)
            return
        if isinstance(st, ast.Pass):
            return
        self.opaque.append(f"`{src(st).splitlines()[0][:60]}` ({type(st).__name__})")
        for n in ast.walk(st):
            if isinstance(n, ast.Name) and isinstance(n.ctx, ast.Store):
                self.env[n.id] = _name("U_" + n.id)

    def loop(self, st):
        it = self.resolve(st.iter)
        tgt = st.target
        enum = False
        if isinstance(it, ast.Call) and isinstance(it.func, ast.Name) and it.func.id == "enumerate" and len(it.args) == 1 and not it.keywords:
            enum = True
            it = it.args[0]
        seqs = None
        if isinstance(it, ast.Call) and isinstance(it.func, ast.Name) and it.func.id in ("list", "tuple") and len(it.args) == 1 and not it.keywords:
            it = it.args[0]            # list(zip(...)) iterates like zip(...)
        if isinstance(it, ast.Call) and isinstance(it.func, ast.Name) and it.func.id == "zip" and not it.keywords:
            seqs = list(it.args)
        is_range = isinstance(it, ast.Call) and isinstance(it.func, ast.Name) and it.func.id == "range" and not it.keywords \
            and len(it.args) in (1, 2)
        frame = None
        cnt = elem_t = None
        if enum:
            if isinstance(tgt, (ast.Tuple, ast.List)) and len(tgt.elts) == 2:
                cnt, elem_t = tgt.elts
        else:
            elem_t = tgt
        if is_range and not enum:
            sym = self.new_sym("K")
            lo = it.args[0] if len(it.args) == 2 else ast.Constant(value=0)
            frame = Frame(sym, "range", lo, it.args[-1], node=st)
            self.frames.append(frame)
            self.bind(tgt, _name(sym)) if isinstance(tgt, ast.Name) else self.bind(tgt, None)
        elif (enum and cnt is not None and isinstance(cnt, ast.Name)) or (not enum and seqs is not None) or (not enum and not is_range):
            sym = self.new_sym("J")
            over = seqs if seqs is not None else [it]
            elems = [self.elem(s_, _name(sym)) if (self.is_array_expr(s_) or (isinstance(s_, ast.Call) and isinstance(s_.func, ast.Name)
                                                                               and s_.func.id == "range")) else self.row_of(s_, sym) for s_ in over]
            frame = Frame(sym, "elems", ast.Constant(value=0), None, over=over, node=st)
            self.frames.append(frame)
            if enum:
                self.bind(cnt, _name(sym))
            if seqs is not None:
                if isinstance(elem_t, (ast.Tuple, ast.List)) and len(elem_t.elts) == len(seqs):
                    for t_, v_ in zip(elem_t.elts, elems):
                        self.bind(t_, v_)
                else:
                    self.bind(elem_t, None)
            else:
                self.bind(elem_t, elems[0])
        else:
            sym = self.new_sym("L")
            frame = Frame(sym, "other", node=st)
            self.frames.append(frame)
            self.bind(tgt, None)
        self.block(st.body)
        self.frames.pop()


# ---- resolved syntax -> sympy ----------------------------------------------------------------------------------------
NZ = Symbol("nz", integer=True, positive=True)
NPTS = Symbol("n", integer=True, positive=True)
FWD, BKWD = Symbol("fwdSteps", integer=True), Symbol("bkwdSteps", integer=True)
DZ, INVDZ = Symbol("dz", positive=True), Symbol("inv_dz", positive=True)
SHIFT, COEFF, BZ = Function("shift"), Function("coeff"), Function("bz")
MOD = Function("mod")
ATTR_SYMS = {"self._nz": NZ, "self._fwdSteps": FWD, "self._bkwdSteps": BKWD, "self._dz": DZ, "self._inv_dz": INVDZ}
ATTR_FUNS = {"self._shifts": SHIFT, "self._coeffs": COEFF, "self._bz": BZ}
SIZES = ("len(self._shifts)", "len(self._coeffs)", "self._shifts.size", "self._coeffs.size", "self._shifts.shape[0]",
         "self._coeffs.shape[0]")


def to_sym(e, extra=None):
    """sympy normal form of a resolved integer / real expression; Undecided when a part has no model"""
    s = src(e)
    if extra and s in extra:
        return extra[s]
    if s in ATTR_SYMS:
        return ATTR_SYMS[s]
    if s in SIZES:
        return NPTS
    if isinstance(e, ast.Constant):
        if isinstance(e.value, bool) or not isinstance(e.value, (int, float)):
            raise Undecided(f"constant {e.value!r}")
        return Integer(e.value) if isinstance(e.value, int) else sp.Rational(repr(e.value))
    if isinstance(e, ast.Name):
        if e.id[:1] in "KJL" and e.id[1:].isdigit():
            return Symbol(e.id, integer=True)
        if e.id.startswith(("P_", "BUF_")):
            return Symbol(e.id)
        raise Undecided(f"unresolved name `{e.id[2:] if e.id.startswith('U_') else e.id}`")
    if isinstance(e, ast.Attribute):
        if isinstance(e.value, ast.Name) and e.value.id == "self":
            return Symbol(s)
        raise Undecided(f"attribute `{s}`")
    if isinstance(e, ast.UnaryOp) and isinstance(e.op, (ast.USub, ast.UAdd)):
        v = to_sym(e.operand, extra)
        return -v if isinstance(e.op, ast.USub) else v
    if isinstance(e, ast.BinOp):
        a, b = to_sym(e.left, extra), to_sym(e.right, extra)
        if isinstance(e.op, ast.Add):
            return a + b
        if isinstance(e.op, ast.Sub):
            return a - b
        if isinstance(e.op, ast.Mult):
            return a * b
        if isinstance(e.op, ast.Div):
            return a / b
        if isinstance(e.op, ast.Pow):
            return a ** b
        if isinstance(e.op, ast.FloorDiv):
            return sp.floor(a / b)
        if isinstance(e.op, ast.Mod):
            return MOD(a, b)
        raise Undecided(f"operator in `{s[:40]}`")
    if isinstance(e, ast.Subscript):
        base = src(e.value)
        if base in ATTR_FUNS and not isinstance(e.slice, (ast.Tuple, ast.Slice)):
            return ATTR_FUNS[base](to_sym(e.slice, extra))
        raise Undecided(f"subscript `{s[:50]}`")
    if isinstance(e, ast.Call) and not e.keywords:
        f = src(e.func)
        if f in ("int", "float") and len(e.args) == 1:
            return to_sym(e.args[0], extra)
        if f in ("min", "max", "np.minimum", "np.maximum") and len(e.args) >= 2:
            return (sp.Min if f.endswith(("min", "minimum")) else sp.Max)(*[to_sym(a, extra) for a in e.args])
        raise Undecided(f"call `{s[:50]}`")
    if isinstance(e, ast.IfExp):
        return ITE(Symbol("cond_" + "".join(ch if ch.isalnum() else "_" for ch in src(e.test))[:40]), to_sym(e.body, extra),
                   to_sym(e.orelse, extra))
    raise Undecided(f"expression `{s[:50]}`")


def strip_mod(v, modulus=NZ):
    """(core, wrapped): `mod(core, modulus)` -> core"""
    if isinstance(v, sp.Basic) and v.func == MOD and sp.simplify(v.args[1] - modulus) == 0:
        return v.args[0], True
    return v, False


def _ite_leaves(e):
    """the alternatives of (nested) conditionals at the top of an expression"""
    if isinstance(e, ITE):
        return _ite_leaves(e.args[1]) + _ite_leaves(e.args[2])
    return [e]


def params_in(e):
    return sorted({n.id[2:] for n in ast.walk(e) if isinstance(n, ast.Name) and n.id.startswith("P_")})


# ======================================================================================================================
# facts of the finite-difference stencil (getCoeffsFirstDeriv)
# ======================================================================================================================
def parities(expr):
    """the expression for an even and for an odd number of stencil points"""
    m = Symbol("m", integer=True, positive=True)
    out = []
    for nv in (2 * m, 2 * m + 1):
        try:
            out.append(sp.simplify(expr.subs(NPTS, nv)))
        except Exception:
            out.append(expr.subs(NPTS, nv))
    return out


def equal_for_all_n(a, b):
    """True / False (with the first parity that differs) / None"""
    res = []
    for x, y, nm in zip(parities(a), parities(b), ("even", "odd")):
        d = sp.simplify(x - y)
        foreign = [s_ for s_ in d.free_symbols if str(s_).startswith(("self.", "P_", "U_", "cond_", "BUF_"))]
        if d == 0:
            res.append(True)
        elif not foreign and (d.is_number or alg_equal(x, y) is False and not d.has(sp.floor, sp.ceiling, MOD)):
            return False, nm, x, y
        else:
            return None, nm, x, y
    return True, None, None, None


def sign_for_all(expr):
    """sign of an expression in m >= 1 and t >= 0 (integers) that is linear with constant coefficients:
    'nonneg' / 'nonpos' / 'pos' / 'neg' / None"""
    m, t = Symbol("m", integer=True, positive=True), Symbol("t", integer=True, nonnegative=True)
    m0 = Symbol("m0", integer=True, nonnegative=True)
    e = sp.expand(sp.simplify(expr).subs(m, m0 + 1))
    if e.free_symbols - {m0, t}:
        return None
    try:
        poly = sp.Poly(e, m0, t)
    except Exception:
        return None
    if poly.total_degree() > 1:
        return None
    cs = {mon: c for mon, c in zip(poly.monoms(), poly.coeffs())}
    const = cs.pop((0, 0), Integer(0))
    if not any(c != 0 for c in cs.values()) and const == 0:
        return "zero"
    if all(c >= 0 for c in cs.values()) and const >= 0:
        return "pos" if const > 0 else "nonneg"
    if all(c <= 0 for c in cs.values()) and const <= 0:
        return "neg" if const < 0 else "nonpos"
    return None


def stencil_facts(chk):
    """{'start', 'shift'(c), 'fwd', 'bkwd'} as functions of the number of points n, read off getCoeffsFirstDeriv"""
    cache = chk.__dict__.setdefault("_c13_facts", {})
    if "facts" in cache:
        return cache["facts"]
    fn = chk.func(U.ADV, f"{CLS}.getCoeffsFirstDeriv")
    params = [a.arg for a in fn.args.args if a.arg != "self"]
    facts = {"fn": fn, "n_param": params[0] if params else None}
    K = Symbol("K")
    if params:
        ns = NpSym(env={params[0]: NPTS, "int": lambda x: x})
        ns.run(fn.body)
        sh = ns.env.get("self._shifts")
        # the engine writes EVERY np.arange(...) as the one symbol K: its reading as "entry counter of the stencil" needs exactly one
        # arange call in the method, without step / keyword arguments
        n_ar = [c_ for c_ in ast.walk(fn) if isinstance(c_, ast.Call) and src(c_.func) in ("np.arange", "numpy.arange", "arange")]
        ar = ns.aranges.get("K") if len(n_ar) == 1 and not n_ar[0].keywords else None
        if sh is not None and ar is not None and len(ar) in (1, 2):
            try:
                a0 = Integer(0) if len(ar) == 1 else ns.ev(ar[0])
                cnt = ns.ev(ar[-1]) - a0
            except Undecided:
                a0 = cnt = None
            slope = sp.simplify(sp.diff(sh, K)) if isinstance(sh, sp.Basic) else None
            same_cnt = equal_for_all_n(cnt, NPTS) if cnt is not None and not cnt.has(K) else (None, None, None, None)
            if cnt is not None and slope in (Integer(1), Integer(-1)) and same_cnt[0] is True:
                # stored shift of entry c (K = a0 + c runs over the arange): increasing (+1) or decreasing (-1) with c
                shf = lambda c, sh=sh, a0=a0: sh.subs(K, a0 + c)
                first, last = shf(Integer(0)), shf(NPTS - 1)
                if slope == 1:
                    facts["start"] = sp.expand(first)
                facts["shift"] = shf
                hi_, lo_ = (last, first) if slope == 1 else (first, last)
                for k, v in (("self._shifts[-1]", last), ("self._shifts[0]", first), ("self._shifts.max()", hi_),
                             ("self._shifts.min()", lo_), ("np.max(self._shifts)", hi_), ("np.min(self._shifts)", lo_)):
                    ns.hooks[k] = v
                ns.run(fn.body)
            elif cnt is not None and slope in (Integer(1), Integer(-1)) and same_cnt[0] is False:
                facts["count_mismatch"] = (cnt,) + tuple(same_cnt[1:])
            elif cnt is not None and sh is not None:
                facts["shifts_raw"] = sh
        facts["npsym"] = ns
        for key, attr in (("fwd", "self._fwdSteps"), ("bkwd", "self._bkwdSteps")):
            v = ns.env.get(attr)
            if v is not None and not v.has(K):
                facts[key] = v
    cache["facts"] = facts
    # what an entry of self._shifts MEANS is fixed by the scatter of parallel_gradient: the contribution of source row k, entry j goes
    # to row k - tau_j.  tau_j is the stored shift itself in the reference convention; another convention (opposite sign, offset) is
    # followed consistently through the moment system, the angle table and the regime bounds
    facts["conv"] = lambda x: x
    facts["conv_text"] = None
    try:
        g = scatter_convention(chk)
    except Exception:          # noqa: BLE001 - no convention read off: the reference one is assumed, the scatter rules report what they meet
        g = None
    if g is not None:
        X_ = Symbol("_stored_shift")
        facts["conv"] = lambda x, g=g, X_=X_: g.subs(X_, x)
        if sp.simplify(g - X_) != 0:
            facts["conv_text"] = str(g.subs(X_, Symbol("shifts[j]")))
    if "shift" in facts:
        facts["tau"] = lambda c: facts["conv"](facts["shift"](c))
        t0 = sp.expand(facts["tau"](Symbol("c_", integer=True)) - Symbol("c_", integer=True))
        if not t0.has(Symbol("c_", integer=True)):
            facts["start"] = t0
        else:
            facts.pop("start", None)
    return facts


def scatter_convention(chk):
    """effective shift tau = g(stored shift) read off the accumulation targets of parallel_gradient (target row = source row - tau):
    sympy expression in the symbol `_stored_shift`, or None when the targets are not of this form / disagree"""
    m = scatter_model(chk)
    X_ = Symbol("_stored_shift")
    gs = []
    for c in m["contribs"] + [c_ for c_ in m.get("buffered", []) if c_ not in m["contribs"]]:
        if c.row is None or c.sten is None:
            return None
        k, j = Symbol(c.row.sym, integer=True), Symbol(c.sten.sym, integer=True)
        tgt = getattr(c, "buffer_target", None) or c.target
        try:
            core, _ = strip_mod(to_sym(tgt))
        except Undecided:
            return None
        tau = sp.expand(k - core)
        if getattr(c, "buffer_target", None) is not None:
            # through a work array: the constant offset of the ghost rows is not part of the convention
            tau = sp.expand(tau - tau.subs(SHIFT(j), 0))
        e2 = tau.subs(SHIFT(j), X_)
        if e2.free_symbols - {X_} or e2.atoms(sp.Function) or not e2.has(X_):
            return None
        gs.append(e2)
    if not gs or any(sp.simplify(g - gs[0]) != 0 for g in gs):
        return None
    g = gs[0]
    # a convention is an invertible relabelling: +-x + integer
    a = sp.simplify(sp.diff(g, X_))
    if a not in (Integer(1), Integer(-1)) or not sp.simplify(g - a * X_).is_integer:
        return None
    return g


def concretise(v, facts):
    """replace the uninterpreted stencil symbols by their values as functions of n"""
    if "shift" in facts:
        v = v.replace(lambda x: x.func == SHIFT, lambda x: facts["shift"](x.args[0]))
    if "fwd" in facts:
        v = v.subs(FWD, facts["fwd"])
    if "bkwd" in facts:
        v = v.subs(BKWD, facts["bkwd"])
    return v


def fd_system(chk):
    from ..core import same_expr
    facts = stencil_facts(chk)
    fn = facts["fn"]
    q = f"{CLS}.getCoeffsFirstDeriv"
    npar = facts["n_param"]
    # ---- right-hand side: the unit vector e_1 (selects the first derivative among the moments)
    top = list(fn.body)
    bdef = [s for s in top if isinstance(s, ast.Assign) and len(s.targets) == 1 and src(s.targets[0]) == "b"]
    bset = [s for s in ast.walk(fn) if isinstance(s, (ast.Assign, ast.AugAssign)) and isinstance(
        (s.targets[0] if isinstance(s, ast.Assign) else s.target), ast.Subscript) and src((s.targets[0] if isinstance(s, ast.Assign) else s.target).value) == "b"]
    ok = bad = None
    if len(bdef) == 1 and isinstance(bdef[0].value, ast.Call) and src(bdef[0].value.func) in ("np.zeros", "zeros") and bdef[0].value.args \
            and src(bdef[0].value.args[0]) in (npar, f"({npar},)", f"[{npar}]"):
        if len(bset) == 1 and isinstance(bset[0], ast.Assign) and isinstance(bset[0].targets[0].slice, ast.Constant) \
                and isinstance(bset[0].value, ast.Constant):
            pos, val = bset[0].targets[0].slice.value, bset[0].value.value
            if pos == 1 and val == 1:
                ok = True
            elif isinstance(pos, int) and isinstance(val, (int, float)):
                bad = (f"the right-hand side is {val} at moment {pos} (`{src(bset[0])}`), not the unit vector e_1: the weights reproduce "
                       f"{'a multiple of ' if pos == 1 else ''}the derivative of order {pos}, not the first derivative")
        elif not bset and all(isinstance(parent(x), ast.Call) and src(parent(x).func).split(".")[-1] == "solve"
                              for x in ast.walk(fn) if isinstance(x, ast.Name) and x.id == "b" and isinstance(x.ctx, ast.Load)):
            # not FINDING the store is a defect only when b is used nowhere else: np.zeros(n) goes straight into solve(A, b) (an entry
            # set through a call - b.put, np.put, b.itemset - or a view would be a use this rule does not follow)
            bad = "the right-hand side stays zero: no moment is selected, all weights vanish"
    chk.pat("F7-fd-system", bset[0] if bset else (bdef[0] if bdef else fn), "b = e_1", ok,
            "right-hand side selects the first derivative (moment 1)", bad, file=U.ADV, func=q)
    # ---- shifts: n consecutive integers from start = 1 - (n+1)//2 (centred when n is odd, i.e. for even orders)
    want_start = 1 - sp.floor((NPTS + 1) / 2)
    shdef = [s for s in ast.walk(fn) if isinstance(s, ast.Assign) and src(s.targets[0]) == "self._shifts"]
    ok = bad = None
    if "start" in facts:
        # VIOLATED-soundness: facts['start'] is the symbolic first EFFECTIVE shift (stored shifts read through the scatter's convention), from
        # exactly one np.arange in the method; equal_for_all_n says False only for a numeric difference free of unknown symbols
        r, par, x, y = equal_for_all_n(facts["start"], want_start)
        if r is True:
            ok = True
        elif r is False:
            bad = (f"the stencil is the n consecutive shifts starting at {facts['start']} (= {x} for an {par} number of points), expected "
                   f"1 - (n+1)//2 (= {y}): the stencil is not centred on the node, the difference quotient loses an order / is one-sided")
    if ok is None and bad is None and "count_mismatch" in facts:
        cnt, par, x, y = facts["count_mismatch"]
        bad = (f"self._shifts has {cnt} entries (= {x} for an {par} number n of stencil points, n = {y}) while the moment system is solved "
               "for n weights: shifts and weights are paired entry by entry (zip / common index), so the last weight(s) have no shift - "
               "the stencil loses points, the remaining weights no longer sum to zero and the combination is not a derivative")
    chk.pat("F7-fd-system", shdef[0] if shdef else fn, "shifts = arange(n) + 1 - (n+1)//2", ok,
            "n consecutive integer shifts, symmetric about 0 when n is odd (even order)", bad, file=U.ADV, func=q)
    # ---- moment matrix A[i, j] = shift_j ** i and coefficients = solve(A, b)
    asg = [s for s in ast.walk(fn) if isinstance(s, ast.Assign) and isinstance(s.targets[0], ast.Subscript) and src(s.targets[0].value) == "A"]
    sol = [s for s in ast.walk(fn) if isinstance(s, ast.Assign) and src(s.targets[0]) == "self._coeffs"]
    ok = bad = None
    if len(asg) == 1 and len(sol) == 1 and "shift" in facts and isinstance(asg[0].targets[0].slice, ast.Tuple) and len(asg[0].targets[0].slice.elts) == 2:
        loops = []
        p = parent(asg[0])
        while p is not None and p is not fn:
            if isinstance(p, ast.For):
                loops.append(p)
            p = parent(p)
        row, col = asg[0].targets[0].slice.elts
        lv = {l.target.id: l for l in loops if isinstance(l.target, ast.Name)}
        full = all(same_expr(l.iter, f"range({npar})") for l in loops)
        if len(loops) == 2 and isinstance(row, ast.Name) and isinstance(col, ast.Name) and {row.id, col.id} == set(lv):
            ri, cj = Symbol("row_i", integer=True, nonnegative=True), Symbol("col_j", integer=True, nonnegative=True)
            ns = facts["npsym"]
            ev = NpSym(env={**{k: v for k, v in ns.env.items() if v is not None and not callable(v) and not k.startswith("<")},
                            row.id: ri, col.id: cj, "int": lambda x: x}, hooks=dict(ns.hooks))
            ev.hooks[f"self._shifts[{col.id}]"] = facts["shift"](cj)
            ev.hooks[f"self._shifts[{row.id}]"] = facts["shift"](ri)
            try:
                got = ev.ev(asg[0].value)
            except Undecided:
                got = None
            if got is not None:
                want = facts["tau"](cj) ** ri
                swapped = facts["tau"](ri) ** cj
                solve_ok = isinstance(sol[0].value, ast.Call) and src(sol[0].value.func).split(".")[-1] == "solve" and \
                    [src(a) for a in sol[0].value.args] == ["A", "b"] and not sol[0].value.keywords
                same = equal_for_all_n(got, want)[0]
                if same is True and full and solve_ok:
                    ok = True
                elif same is False and equal_for_all_n(got, swapped)[0] is True:
                    bad = (f"`{src(asg[0])}` stores shift_row ** column: the matrix is the transpose of the moment system, so solve(A, b) "
                           "returns weights of a different functional than the first derivative")
                elif same is False and full and solve_ok and equal_for_all_n(got, (-facts["tau"](cj)) ** ri)[0] is True:
                    bad = (f"`{src(asg[0])}`: the weights solve the moment system for the nodes {sp.simplify(-facts['tau'](cj))} (entry j), but "
                           f"parallel_gradient adds the contribution of source row k with weight j to row k - ({facts['tau'](cj)})"
                           + (f" (it reads the stored shifts as {facts['conv_text']})" if facts.get("conv_text") else "") +
                           ", i.e. pairs weight j with the source row at offset " f"{facts['tau'](cj)} from the target: every weight sits on the "
                           "mirrored node - the derivative along the reversed field line (sign and, for odd orders, stencil are wrong)")
                elif same is False and full and solve_ok:
                    bad = (f"`{src(asg[0])}`: entry (i, j) is {got}, expected shift_j ** i = {want}: the weights no longer satisfy "
                           "sum_j c_j shift_j^i = delta_{i1}")
    chk.pat("F7-fd-system", asg[0] if asg else fn, "A[i,j] = shift_j**i; coeffs = solve(A, b)", ok,
            "sum_j c_j shift_j^i = delta_{i1}: exact first derivative for polynomials up to degree n-1", bad, file=U.ADV, func=q)
    # ---- the bounds of the unwrapped index regime are integers derived from the shifts (their use is checked by F7-regimes)
    have = "fwd" in facts and "bkwd" in facts
    chk.ob("F7-fd-system", fn, "_fwdSteps, _bkwdSteps as functions of n", True if have else None,
           f"_fwdSteps = {facts.get('fwd')}, _bkwdSteps = {facts.get('bkwd')} (n = number of stencil points): the regime bounds of "
           "parallel_gradient are checked against the extreme shifts with these values" if have else
           "the definitions of self._fwdSteps / self._bkwdSteps are outside the extractable fragment", file=U.ADV, func=q)
    # ---- number of stencil points = order + 1; grids smaller than the stencil are refused
    init = chk.func(U.ADV, f"{CLS}.__init__")
    calls = [c for c in ast.walk(init) if isinstance(c, ast.Call) and isinstance(c.func, ast.Attribute) and c.func.attr == "getCoeffsFirstDeriv"
             and src(c.func.value) == "self"]
    ok = bad = None
    if len(calls) == 1 and len(calls[0].args) + len(calls[0].keywords) == 1:
        a = (calls[0].args + [k.value for k in calls[0].keywords])[0]
        o = Symbol("order", integer=True, positive=True)
        try:
            got = NpSym(env={"order": o, "int": lambda x: x}).ev(a)
        except Undecided:
            got = None
        if got is not None:
            if sp.simplify(got - (o + 1)) == 0:
                ok = True
            elif sp.simplify(got - (o + 1)).is_number:
                bad = (f"getCoeffsFirstDeriv({src(a)}) builds a stencil of {got} points for the requested order: a scheme of order "
                       f"{sp.simplify(got - 1)} instead of `order`")
    chk.pat("F7-fd-system", calls[0] if calls else init, "getCoeffsFirstDeriv(order + 1)", ok,
            "order + 1 stencil points for the requested order", bad, file=U.ADV, func=f"{CLS}.__init__")
    guard = None
    for n in ast.walk(init):
        t = n.test if isinstance(n, ast.Assert) else (n.test if isinstance(n, ast.If) and any(isinstance(x, ast.Raise) for x in n.body) else None)
        if isinstance(t, ast.Compare) and len(t.ops) == 1 and {"self._nz", "order"} <= {x for x in (src(y) for y in ast.walk(t)) if x in ("self._nz", "order")}:
            guard = n
    chk.ob("F7-fd-system", guard or init, "grids smaller than the stencil are refused", True if guard is not None else None,
           f"`{src(guard).splitlines()[0][:70]}`" if guard is not None else
           "no comparison of self._nz with order found in the constructor: the three index regimes overlap when nz <= order",
           file=U.ADV, func=f"{CLS}.__init__")


# ======================================================================================================================
# angle table (_getThetaVals, allocated in __init__)
# ======================================================================================================================
def _strip_broadcast(e):
    """(expression without [None, :]-style subscripts, position of the kept axis among the subscript items or None)"""
    pos = None
    while isinstance(e, ast.Subscript):
        items = e.slice.elts if isinstance(e.slice, ast.Tuple) else [e.slice]
        full = [isinstance(i, ast.Slice) and i.lower is None and i.upper is None and i.step is None for i in items]
        none = [isinstance(i, ast.Constant) and i.value is None for i in items]
        if all(f or n for f, n in zip(full, none)) and sum(full) <= 1:
            if sum(full) == 1 and len(items) > 1:
                pos = full.index(True)
            e = e.value
        else:
            break
    return e, pos


# ---- axis-labelled element-wise model of a table built by whole-array expressions ------------------------------------------
TH, RI, R0S, CSYM = Symbol("theta", real=True), Symbol("r_i", positive=True), Symbol("R0", positive=True), Symbol("c", integer=True)
IOTA = Function("iota")


class AxVal:
    """generic element of an array + the meaning of each of its axes ('theta' nodes, 'shift' entries, local 'r', replicated
    axes 'rep:<extent>', None for unit axes); scalars have no axes"""

    def __init__(self, expr, axes=()):
        self.expr, self.axes = expr, tuple(axes)


class AxEval:
    def __init__(self, chk, env=None):
        self.chk = chk
        self.env = dict(env or {})       # local name -> AxVal | ('func', name)
        self.alias = {}                  # parameter -> source text of the caller's argument (arguments the model has no value for)
        self.depth = 0

    def canon(self, e):
        """source text with a parameter that merely forwards a caller's name written as that name"""
        if not self.alias:
            return src(e)
        e2 = copy.deepcopy(e)
        for n in ast.walk(e2):
            if isinstance(n, ast.Name) and n.id in self.alias and n.id not in self.env:
                n.id = self.alias[n.id]
        return src(e2)

    def bcast(self, a, b):
        n = max(len(a.axes), len(b.axes))
        xa, xb = (None,) * (n - len(a.axes)) + a.axes, (None,) * (n - len(b.axes)) + b.axes
        out = []
        for p_, q_ in zip(xa, xb):
            if p_ is not None and q_ is not None and p_ != q_:
                raise Undecided(f"axes `{p_}` and `{q_}` are combined element-wise")
            out.append(p_ if p_ is not None else q_)
        return tuple(out)

    def ev(self, e):
        from ..symx import Wrap, PI
        s = self.canon(e)
        if s in ("eta_grid[1]",):
            return AxVal(TH, ("theta",))
        if s == "self._shifts":
            return AxVal(SHIFT(CSYM), ("shift",))
        if s in ("self._dz",):
            return AxVal(DZ)
        if s in ("self._inv_dz",):
            return AxVal(1 / DZ)
        if s in ("constants.R0", "R0") and s not in self.env:
            return AxVal(R0S)
        if s in ("constants.iota",) or (s == "iota" and s not in self.env):
            return ("func", "iota")
        if s in ("np.pi", "math.pi", "pi") and s not in self.env:
            return AxVal(PI)
        if isinstance(e, ast.Name):
            if e.id in self.env:
                return self.env[e.id]
            raise Undecided(f"unknown name `{e.id}`")
        if isinstance(e, ast.Constant):
            if isinstance(e.value, (int, float)) and not isinstance(e.value, bool):
                return AxVal(Integer(e.value) if isinstance(e.value, int) else sp.Rational(repr(e.value)))
            raise Undecided(f"constant {e.value!r}")
        if isinstance(e, ast.Subscript):
            if self.canon(e.value) == "eta_grid[0]" and isinstance(e.slice, ast.Slice):
                return AxVal(RI, ("r",))
            base = self.ev(e.value)
            if not isinstance(base, AxVal):
                raise Undecided(f"subscript of `{src(e.value)[:40]}`")
            items = list(e.slice.elts) if isinstance(e.slice, ast.Tuple) else [e.slice]
            axes, k = [], 0
            for it in items:
                if isinstance(it, ast.Constant) and it.value is None:
                    axes.append(None)
                elif isinstance(it, ast.Slice) and it.lower is None and it.upper is None and it.step is None:
                    if k >= len(base.axes):
                        raise Undecided(f"too many axes in `{s[:40]}`")
                    axes.append(base.axes[k])
                    k += 1
                else:
                    raise Undecided(f"subscript `{s[:50]}`")
            axes += list(base.axes[k:])
            return AxVal(base.expr, axes)
        if isinstance(e, ast.UnaryOp) and isinstance(e.op, (ast.USub, ast.UAdd)):
            v = self.ev(e.operand)
            return AxVal(-v.expr if isinstance(e.op, ast.USub) else v.expr, v.axes)
        if isinstance(e, ast.BinOp):
            a, b = self.ev(e.left), self.ev(e.right)
            if not (isinstance(a, AxVal) and isinstance(b, AxVal)):
                raise Undecided(f"operands of `{s[:40]}`")
            axes = self.bcast(a, b)
            op = e.op
            if isinstance(op, ast.Add):
                return AxVal(a.expr + b.expr, axes)
            if isinstance(op, ast.Sub):
                return AxVal(a.expr - b.expr, axes)
            if isinstance(op, ast.Mult):
                return AxVal(a.expr * b.expr, axes)
            if isinstance(op, ast.Div):
                return AxVal(a.expr / b.expr, axes)
            if isinstance(op, ast.Mod) and sp.simplify(b.expr - 2 * PI) == 0:
                return AxVal(Wrap(a.expr), axes)
            raise Undecided(f"operator in `{s[:40]}`")
        if isinstance(e, ast.Call):
            f = e.func
            fs = self.canon(f)
            if fs in ("np.mod", "np.remainder") and len(e.args) == 2:
                a, b = self.ev(e.args[0]), self.ev(e.args[1])
                if isinstance(a, AxVal) and isinstance(b, AxVal) and sp.simplify(b.expr - 2 * PI) == 0:
                    return AxVal(Wrap(a.expr), a.axes)
                raise Undecided(f"modulus of `{s[:40]}`")
            if fs in ("np.fmod", "math.fmod", "fmod") and len(e.args) == 2:
                # the remainder with the sign of the dividend: NOT the periodic wrap onto [0, 2 pi)
                a, b = self.ev(e.args[0]), self.ev(e.args[1])
                if isinstance(a, AxVal) and isinstance(b, AxVal):
                    return AxVal(Function("fmod")(a.expr, b.expr), a.axes)
                raise Undecided(f"fmod of `{s[:40]}`")
            if fs in ("np.broadcast_to",) and len(e.args) == 2 and isinstance(e.args[1], (ast.List, ast.Tuple)):
                a = self.ev(e.args[0])
                shp = e.args[1].elts
                if not isinstance(a, AxVal) or len(shp) < len(a.axes):
                    raise Undecided("np.broadcast_to")
                lead = [f"rep:{src(x)}" for x in shp[:len(shp) - len(a.axes)]]
                return AxVal(a.expr, tuple(lead) + a.axes)
            if fs in ("np.asarray", "np.array", "np.ascontiguousarray", "np.copy") and len(e.args) >= 1:
                return self.ev(e.args[0])
            callee = self.ev(f) if isinstance(f, (ast.Name, ast.Attribute)) and (fs in ("constants.iota", "iota") or (isinstance(f, ast.Name) and isinstance(self.env.get(f.id), tuple))) else None
            if isinstance(callee, tuple) and callee[0] == "func" and callee[1] == "iota":
                args = [self.ev(a) for a in e.args]
                if any(not isinstance(a, AxVal) for a in args) or e.keywords:
                    raise Undecided("argument of iota")
                return AxVal(IOTA(*[a.expr for a in args]), args[0].axes if args else ())
            target = None
            if isinstance(f, ast.Name) and self.chk.mod(U.ADV).has(f.id):
                target, params = self.chk.mod(U.ADV).func(f.id), None
                params = [a.arg for a in target.args.args]
            elif isinstance(f, ast.Attribute) and isinstance(f.value, ast.Name) and f.value.id == "self" and self.chk.mod(U.ADV).has(f"{CLS}.{f.attr}"):
                target = self.chk.mod(U.ADV).func(f"{CLS}.{f.attr}")
                params = [a.arg for a in target.args.args if a.arg != "self"]
            if target is not None and self.depth < 3:
                from .. import agree
                b = agree.bind_call(e, params)
                if b is None or set(b) != set(params):
                    raise Undecided(f"arguments of `{fs}`")
                sub = AxEval(self.chk)
                for p_, v in b.items():
                    try:
                        sub.env[p_] = self.ev(v)
                    except Undecided:
                        if not isinstance(v, (ast.Name, ast.Attribute)):
                            raise
                        sub.alias[p_] = self.canon(v)
                sub.depth = self.depth + 1
                return sub.run_body(target)
            raise Undecided(f"call `{s[:50]}`")
        raise Undecided(f"expression `{s[:50]}`")

    def run_body(self, fn):
        """value returned by a function whose body is straight-line assignments ending in a return"""
        body = [st for st in fn.body if not (isinstance(st, ast.Expr) and isinstance(st.value, ast.Constant))]
        for st in body:
            if isinstance(st, ast.Assign) and len(st.targets) == 1 and isinstance(st.targets[0], ast.Name):
                try:
                    self.env[st.targets[0].id] = self.ev(st.value)
                except Undecided:
                    self.env.pop(st.targets[0].id, None)
            elif isinstance(st, ast.Return) and st.value is not None and st is body[-1]:
                v = self.ev(st.value)
                if not isinstance(v, AxVal):
                    raise Undecided("returned value")
                return v
            elif isinstance(st, (ast.Assert, ast.Assign)):
                continue
            else:
                raise Undecided(f"`{src(st).splitlines()[0][:50]}` in `{fn.name}`")
        raise Undecided(f"`{fn.name}` returns nothing")


def table_value_model(chk):
    """the table self._thetaVals as built by whole-array expressions in the constructor: {'value': AxVal, 'assign': node, derived
    axis facts} or {'why': reason}"""
    init = chk.func(U.ADV, f"{CLS}.__init__")
    asg = [st for st in init.body if isinstance(st, ast.Assign) and len(st.targets) == 1 and src(st.targets[0]) == "self._thetaVals"]
    stores = [n for n in ast.walk(init) if isinstance(n, (ast.Assign, ast.AugAssign)) and
              src(n.targets[0] if isinstance(n, ast.Assign) else n.target).startswith("self._thetaVals")]
    if len(asg) != 1 or len(stores) != 1:
        return {"why": f"{len(stores)} assignments to self._thetaVals in the constructor (one whole-table expression expected)"}
    if any(isinstance(c, ast.Call) and isinstance(c.func, ast.Attribute) and src(c.func.value) == "self" and
           any(src(a).startswith("self._thetaVals") for a in c.args) for c in ast.walk(init)):
        return {"why": "the table is filled through a method that receives it as an argument"}
    ev = AxEval(chk)
    try:
        for st in init.body:
            if st is asg[0]:
                break
            if isinstance(st, ast.Assign) and len(st.targets) == 1 and isinstance(st.targets[0], ast.Name):
                try:
                    ev.env[st.targets[0].id] = ev.ev(st.value)
                except Undecided:
                    pass
        val = ev.ev(asg[0].value)
    except Undecided as e:
        return {"why": f"`{src(asg[0])[:60]}`: {e}", "assign": asg[0]}
    if not isinstance(val, AxVal) or not val.axes:
        return {"why": f"`{src(asg[0])[:60]}` is not an array expression", "assign": asg[0]}
    out = {"value": val, "assign": asg[0], "fn": init, "q": f"{CLS}.__init__"}
    per = list(val.axes[1:])
    out["radial"] = val.axes[0]
    is_z = lambda a: isinstance(a, str) and a.startswith("rep:") and a[4:] in ("self._nz", "eta_grid[2].size", "len(eta_grid[2])")
    if per.count("shift") == 1 and per.count("theta") == 1 and per[-1] == "theta" and all(a in ("shift", "theta") or is_z(a) for a in per):
        out["rank"] = len(per)
        out["col_axis"] = per.index("shift")
        zs = [k for k, a in enumerate(per) if is_z(a)]
        out["row_axis"] = zs[0] if len(zs) == 1 else None
        out["row_index"] = out["row_frame"] = None
        if len(zs) > 1:
            out.pop("rank")
    return out


def table_model(chk):
    """how _getThetaVals fills the table handed in: {'rank', 'col_axis', 'row_axis', 'zdiff'(column symbol -> sympy), ...}
    or {'why': reason}"""
    cache = chk.__dict__.setdefault("_c13_facts", {})
    if "table" in cache:
        return cache["table"]
    mod = chk.mod(U.ADV)
    if not mod.has(f"{CLS}._getThetaVals"):
        out = {"fn": chk.func(U.ADV, f"{CLS}.__init__"), "q": f"{CLS}.__init__", "why": "no method _getThetaVals"}
        cache["table"] = out
        out.update(table_value_model(chk))
        return out
    out = _table_fill_model(chk)
    cache["table"] = out
    if "zdiff" not in out:
        vm = table_value_model(chk)
        if "value" in vm:
            out.update(vm)
    return out


def _table_fill_model(chk):
    fn = chk.func(U.ADV, f"{CLS}._getThetaVals")
    fl = Flow(fn, arrays={"self._shifts"}).run()
    out = {"fn": fn, "flow": fl}
    stores = [e for e in fl.events if e.kind == "store" and src(e.target).split("[")[0] == "P_thetaVals"]
    if fl.opaque:
        out["why"] = "statement outside the model: " + fl.opaque[0]
        return out
    if len(stores) != 1 or stores[0].op is not None or stores[0].guards:
        out["why"] = f"{len(stores)} stores into the table (one unconditional assignment expected)"
        return out
    st = stores[0]
    out["store"] = st
    tgt = st.target
    items = [] if isinstance(tgt, ast.Name) else (list(tgt.slice.elts) if isinstance(tgt.slice, ast.Tuple) else [tgt.slice])
    if isinstance(tgt, ast.Subscript) and not (isinstance(tgt.value, ast.Name)):
        out["why"] = f"store target `{src(st.node.targets[0])}` is not an element/slice of the table"
        return out
    val = st.value
    # caller and helper are one unit: `fieldline(...) % (2 pi)` stores the field-line angle reduced by the caller (whether helper and
    # caller together reduce it is F6-sibling-geometry's subject)
    if isinstance(val, ast.BinOp) and isinstance(val.op, ast.Mod) and isinstance(val.left, ast.Call) and src(val.right).replace(" ", "") in (
            "2*pi", "2*np.pi", "pi*2", "np.pi*2", "2*math.pi", "2.0*pi", "2.0*np.pi"):
        val = val.left
        out["post_wrap"] = True
    if not (isinstance(val, ast.Call) and isinstance(val.func, ast.Name) and val.func.id == "fieldline"):
        out["why"] = f"the stored value `{src(st.node.value)[:60]}` is not a call of fieldline"
        return out
    from .. import agree
    flfn = chk.func(U.ADV, "fieldline")
    formals = [a.arg for a in flfn.args.args]
    b = agree.bind_call(val, formals) or {}
    if set(b) != set(formals) or formals[:2] != ["theta", "z_diff"]:
        out["why"] = "arguments of fieldline not bound"
        return out
    out["args"] = b
    col_frames = [f for f in st.frames if f.kind == "elems"]
    row_frames = [f for f in st.frames if f.kind == "range"]
    if any(f.kind == "other" for f in st.frames) or len(col_frames) > 1 or len(row_frames) > 1:
        out["why"] = "loops around the store not recognised"
        return out
    theta, tpos = _strip_broadcast(b["theta"])
    zd, zpos = _strip_broadcast(b["z_diff"])
    out["theta"] = theta
    csym = Symbol(col_frames[0].sym, integer=True) if col_frames else Symbol("Jv", integer=True)
    out["col_sym"] = csym
    full = lambda i: isinstance(i, ast.Slice) and i.lower is None and i.upper is None and i.step is None
    if col_frames:
        # loop over the stencil entries: the column is the position subscripted by the loop counter
        cols = [k for k, i in enumerate(items) if isinstance(i, ast.Name) and i.id == col_frames[0].sym]
        if len(cols) != 1:
            out["why"] = f"no single table axis is subscripted by the stencil counter in `{src(st.node.targets[0])}`"
            return out
        out["col_axis"] = cols[0]
        out["rank"] = len(items)
        out["col_over"] = col_frames[0].over
        rest = [k for k in range(len(items)) if k != cols[0]]
        rows = [k for k in rest if not full(items[k])]
        if len(rows) > 1 or (rest and not full(items[rest[-1]])):
            out["why"] = f"axes of `{src(st.node.targets[0])}` not recognised"
            return out
        out["row_axis"] = rows[0] if rows else (rest[0] if len(rest) == 2 else None)
        out["row_index"] = items[rows[0]] if rows else None
        out["row_frame"] = row_frames[0] if row_frames else None
        zexpr = zd
    else:
        # one vectorised call over all shifts: the column axis is where the shifts are broadcast to
        if items and not all(full(i) for i in items):
            out["why"] = f"axes of `{src(st.node.targets[0])}` not recognised"
            return out
        if row_frames or not fl.is_array_expr(zd) or zpos is None or tpos is None or zpos == tpos:
            out["why"] = "vectorised fill: the broadcast axes of the shifts and of the theta nodes are not distinct single axes"
            return out
        out["col_axis"], out["rank"], out["row_axis"], out["row_index"], out["row_frame"] = zpos, 2, None, None, None
        out["col_over"] = [_name("self._shifts")] if False else [ast.parse("self._shifts", mode="eval").body]
        zexpr = fl.elem(zd, _name("Jv"))
        if zexpr is None:
            out["why"] = "vectorised fill: z_diff is not element-wise in the shifts"
            return out
    try:
        out["zdiff"] = to_sym(zexpr, {"Jv": csym})
    except Undecided as e:
        out["why"] = f"z_diff `{src(b['z_diff'])[:50]}`: {e}"
    return out


def theta_table_by_value(chk, tm):
    """the table is one whole-array expression: its generic element, with the meaning of every axis, is compared with
    fieldline(theta node, dz * shift_c, iota, r_i, R0) = (theta + iota(r_i) dz shift_c / R0) mod 2 pi"""
    from ..symx import Wrap
    val, node, q = tm["value"], tm["assign"], tm["q"]
    label = "table[i, (row,) c, :] = (theta + iota(r_i) * dz * shift_c / R0) mod 2 pi"
    spec = Wrap(TH + IOTA(RI) * DZ * stencil_facts(chk)["conv"](SHIFT(CSYM)) / R0S)
    e = val.expr
    bad, unknown = [], []
    same = isinstance(e, sp.Basic) and e.func == Wrap and alg_equal(e.args[0], spec.args[0])
    if not same:
        iotas = [a for a in (e.atoms(sp.Function) if isinstance(e, sp.Basic) else ()) if a.func == IOTA]
        off = [a for a in iotas if RI not in a.free_symbols]
        inner = e.args[0] if isinstance(e, sp.Basic) and e.func == Wrap else e
        if off and alg_equal(inner.subs(off[0], IOTA(RI)), spec.args[0]):
            at = ", ".join(str(x) for x in off[0].args) or "its default argument"
            bad.append(f"the pitch of the field line is iota evaluated at {at} (`{str(off[0])}`), not at the radius r_i of the table row: the "
                       "angle iota(r_i) dz shift_c / R0 followed along the field line ignores the radial dependence of the rotational "
                       "transform, so for a sheared field the stencil points of every radius but those with iota(r) = iota"
                       f"({', '.join(str(x) for x in off[0].args)}) lie off the field line (b_z still uses iota(r))")
        elif isinstance(e, sp.Basic) and e.func != Wrap and alg_equal(e, spec.args[0]):
            bad.append("the angle theta + iota(r_i) dz shift_c / R0 is not reduced modulo 2 pi: the theta-spline is evaluated outside its periodic domain")
        elif isinstance(e, sp.Basic) and not any(str(x).startswith(("U_", "P_")) for x in e.free_symbols):
            bad.append(f"the table entry for theta node theta, stencil column c and radius r_i is {e}, expected {spec}")
        else:
            unknown.append(f"table entry {e} not comparable with {spec}")
    if tm["radial"] != "r" and not bad:
        if RI in (e.free_symbols if isinstance(e, sp.Basic) else set()):
            unknown.append(f"leading axis of the table is `{tm['radial']}`, not the local radii")
        elif same:
            unknown.append("the table does not depend on the radius although the specification does")
    if "rank" not in tm:
        unknown.append(f"axes {list(val.axes)} of the table not recognised as [r, (z,) shift, theta]")
    ok = False if bad else (None if unknown else True)
    chk.ob("F7-theta-table", node, label, ok,
           f"generic element of the table = field-line angle for the row's radius and the column's shift; axes {list(val.axes)}" if ok else
           "; ".join(bad + unknown), file=U.ADV, func=q, facts={"value": str(e), "axes": [str(a) for a in val.axes]})
    chk.ob("F7-theta-table", node, "self._thetaVals: one whole-array expression", True if "rank" in tm else None,
           f"the table is built in one expression with axes {list(val.axes)}: column axis {tm.get('col_axis')} per radius"
           + (", replicated along z" if tm.get("row_axis") is not None else "") if "rank" in tm else
           f"axes {list(val.axes)} not recognised", file=U.ADV, func=q)
    return tm


def theta_table(chk):
    """_getThetaVals: column c of the table holds the field-line angle for shift c, for every row the table has"""
    from ..core import same_expr
    tm = table_model(chk)
    fn = tm["fn"]
    facts = stencil_facts(chk)
    q = f"{CLS}._getThetaVals"
    label = "table[(row,) c, :] = fieldline(theta nodes, dz * shift_c, iota, r, R0)"
    node = tm["store"].node if "store" in tm else fn
    if "zdiff" not in tm and "value" in tm:
        return theta_table_by_value(chk, tm)
    if "zdiff" not in tm:
        chk.ob("F7-theta-table", tm.get("assign", node), label, None, "table fill not followed: " + tm.get("why", "?"), file=U.ADV,
               func=tm.get("q", q))
        return tm
    c = tm["col_sym"]
    diffs, unknown = [], []
    # the displacement along z for column c
    want = DZ * facts["conv"](SHIFT(c))
    got = tm["zdiff"]
    if not alg_equal(got, want):
        g2, w2 = concretise(got, facts), concretise(want, facts)
        if g2.has(SHIFT) or g2.has(FWD) or g2.has(BKWD) or w2.has(SHIFT):
            unknown.append(f"z displacement of column c is {got}; the stencil facts needed to compare it with dz*shift_c are not extractable")
        else:
            r, par, x, y = equal_for_all_n(g2, w2)
            if r is False:
                cs_ = Symbol("c")
                x, y = x.subs(c, cs_), y.subs(c, cs_)
                diffs.append(f"(n stencil points, m = n // 2) column c of the table holds the angle reached after a z displacement of {sp.factor(x)} (for an {par} number of stencil "
                             f"points), but the weights and the scatter of parallel_gradient use shift_c = {sp.simplify(y / DZ)} cells for the same "
                             f"column: the theta shift of each stencil point is off by {sp.simplify((x - y) / DZ)} x iota dz/R0")
            elif r is None:
                unknown.append(f"z displacement of column c is {got}: cannot be compared with dz*shift_c")
    # number of columns
    over = tm.get("col_over") or []
    if len(over) == 1 and isinstance(over[0], ast.Call) and isinstance(over[0].func, ast.Name) and over[0].func.id == "range":
        try:
            a = over[0].args
            cnt = to_sym(a[-1]) - (to_sym(a[0]) if len(a) == 2 else 0)
            r, par, x, y = equal_for_all_n(concretise(cnt, facts), NPTS)
            if r is False:
                diffs.append(f"the fill loop writes {x} columns, the stencil has {y}: the remaining columns of the np.empty table stay uninitialised")
            elif r is None:
                unknown.append(f"number of columns written ({cnt}) not comparable with the stencil size")
        except Undecided as e:
            unknown.append(f"column range: {e}")
    elif not (len(over) == 1 and src(over[0]) == "self._shifts"):
        unknown.append(f"the columns are generated from `{', '.join(src(o) for o in over)}`, not from the shifts the weights and the scatter use")
    # rows: every row of the table is written
    if tm["row_index"] is not None:
        rf = tm["row_frame"]
        okrow = None
        if rf is not None:
            try:
                ext = {"P_eta_grid[2].size": NZ, "len(P_eta_grid[2])": NZ}
                lo, hi = to_sym(rf.lo, ext), to_sym(rf.hi, ext)
                ri = to_sym(tm["row_index"], ext)
                core, wrapped = strip_mod(ri)
                k = Symbol(rf.sym, integer=True)
                # row index = k + (an offset that does not depend on k), taken modulo nz (or k itself): a bijection of [0, nz)
                if sp.simplify(lo) == 0 and sp.simplify(hi - NZ) == 0 and sp.simplify(sp.diff(core, k) - 1) == 0 and \
                        (wrapped or sp.simplify(core - k) == 0):
                    okrow = True
            except Undecided:
                okrow = None
        if not okrow:
            unknown.append(f"row index `{src(tm['row_index'])}` of the fill: coverage of all nz rows not established")
    # theta nodes and the geometry arguments
    b = tm["args"]
    if not same_expr(tm["theta"], "P_eta_grid[1]"):
        unknown.append(f"first argument of fieldline is `{src(b['theta'])}`, not the theta nodes eta_grid[1]")
    for f_, want_ in (("iota", "P_iota"), ("r", "P_r"), ("R0", "P_R0")):
        if f_ in b and not same_expr(b[f_], want_):
            unknown.append(f"fieldline receives `{src(b[f_])}` as `{f_}`")
    # VIOLATED-soundness: `diffs` holds symbolic differences decided for both parities of n (z displacement of column c vs dz*shift_c
    # under the scatter's convention; number of columns written vs n); everything not followed is in `unknown`
    ok = False if diffs else (None if unknown else True)
    chk.ob("F7-theta-table", node, label, ok,
           "column c of the table = angle reached from each theta node by following the field line over shift_c cells (dz x shift_c); "
           "identical for every row" if ok else "; ".join(diffs + unknown), file=U.ADV, func=q,
           facts={"zdiff": str(got), "col_axis": tm.get("col_axis"), "rank": tm.get("rank")})
    # allocation and per-radius call in the constructor
    init = chk.func(U.ADV, f"{CLS}.__init__")
    fi = Flow(init, arrays=set()).run()
    alloc = [e for e in fi.events if e.kind == "store" and src(e.target) == "self._thetaVals"]
    oka, why = None, "allocation of self._thetaVals not recognised"
    if len(alloc) == 1 and isinstance(alloc[0].value, ast.Call) and src(alloc[0].value.func).split(".")[-1] in ALLOC and alloc[0].value.args \
            and isinstance(alloc[0].value.args[0], (ast.List, ast.Tuple)):
        shp = alloc[0].value.args[0].elts
        ext = {"P_order": Symbol("order", integer=True, positive=True), "P_eta_grid[2].size": NZ, "len(P_eta_grid[2])": NZ}
        if len(shp) == tm["rank"] + 1:
            try:
                ncol = to_sym(shp[1 + tm["col_axis"]], ext)
                d = sp.simplify(ncol - (ext["P_order"] + 1))
                rows_ok = True
                if tm["row_axis"] is not None:
                    rows_ok = sp.simplify(to_sym(shp[1 + tm["row_axis"]], ext) - NZ) == 0
                if d == 0 and rows_ok:
                    oka, why = True, (f"one [{'nz, ' if tm['row_axis'] is not None else ''}order+1, ntheta] table per local radius, "
                                      "the axes the fill and the reader use")
                elif d != 0 and d.is_number:
                    oka, why = False, (f"the table is allocated with {ncol} columns for order+1 stencil entries: "
                                       + ("the fill writes outside it" if d < 0 else "the extra columns stay uninitialised"))
                else:
                    why = f"shape {[src(x) for x in shp]} not matched with the axes the fill uses"
            except Undecided as e:
                why = f"shape of the table: {e}"
        else:
            why = f"the table has {len(shp) - 1} axes per radius, the fill indexes {tm['rank']}"
            oka = False if "store" in tm and len(shp) - 1 < tm["rank"] else None
    chk.ob("F7-theta-table", alloc[0].node if alloc else init, "self._thetaVals = np.empty([n_r, (nz,) order+1, ntheta])", oka, why,
           file=U.ADV, func=f"{CLS}.__init__")
    return tm


# ======================================================================================================================
# parallel_gradient: scatter model
# ======================================================================================================================
class Contribution:
    """one accumulation statement: rows of `row` (a counted frame) x stencil entries of `sten`"""

    def __init__(self, ev):
        self.ev = ev
        self.row = self.sten = None
        self.src_row = self.point = self.target = self.weight = None
        self.problems = []


def _flat_view(e):
    """`X.reshape(n)` / `X.reshape((n,))` / `X.reshape(-1)`-free forms -> (X, n) else None"""
    if isinstance(e, ast.Call) and isinstance(e.func, ast.Attribute) and e.func.attr == "reshape" and len(e.args) == 1 and not e.keywords:
        a = e.args[0]
        if isinstance(a, (ast.Tuple, ast.List)) and len(a.elts) == 1:
            a = a.elts[0]
        if not isinstance(a, (ast.Tuple, ast.List)):
            return e.func.value, a
    return None


def _over_shifts(e):
    return any(isinstance(n, ast.Attribute) and src(n) == "self._shifts" for n in ast.walk(e)) and \
        not any(isinstance(n, ast.Subscript) and src(n.value) == "self._shifts" and not isinstance(n.slice, (ast.Slice, ast.Tuple)) for n in ast.walk(e))


def _entry(e, jsym):
    """stencil entry `jsym` of an expression that is element-wise in self._shifts / self._coeffs (broadcast along the rows of a 2-D work
    array): the arrays are subscripted, the work array keeps its name (its row `jsym` is meant); None outside this fragment"""
    if isinstance(e, ast.Constant):
        return e
    if isinstance(e, ast.Attribute):
        if src(e) in ("self._shifts", "self._coeffs"):
            return ast.Subscript(value=_clone(e), slice=_name(jsym), ctx=ast.Load())
        return _clone(e)
    if isinstance(e, ast.Name):
        return _clone(e)
    if isinstance(e, ast.Subscript):
        inner, pos = _strip_broadcast(e)
        if inner is not e and src(inner) in ("self._shifts", "self._coeffs") and pos in (0, None):
            return _entry(inner, jsym)
        if isinstance(inner, ast.Name) and inner is not e:
            return _clone(inner)
        return None
    if isinstance(e, ast.BinOp):
        a, b = _entry(e.left, jsym), _entry(e.right, jsym)
        return None if a is None or b is None else ast.BinOp(left=a, op=e.op, right=b)
    if isinstance(e, ast.UnaryOp):
        a = _entry(e.operand, jsym)
        return None if a is None else ast.UnaryOp(op=e.op, operand=a)
    return None


def scatter_model(chk):
    cache = chk.__dict__.setdefault("_c13_facts", {})
    if "scatter" in cache:
        return cache["scatter"]
    fn = chk.func(U.ADV, f"{CLS}.parallel_gradient")
    from .C05 import structured
    # `if c: continue` at the head of a row loop is read as `if c: pass else: <rest of the body>`
    fn_s, unstructured = structured(fn)
    fl = Flow(fn_s, arrays={"self._shifts", "self._coeffs"}).run()
    m = {"fn": fn, "flow": fl, "contribs": [], "clears": [], "scales": [], "other_stores": [], "why": None, "buffered": [], "folds": [],
         "fold_report": None, "assigns": []}
    cache["scatter"] = m
    if unstructured:
        m["why"] = unstructured
    elif fl.opaque:
        m["why"] = "statement outside the model: " + fl.opaque[0]
    interp = {}      # id(frame) -> (event, resolved source row expr)
    evals = {}       # buffer symbol -> (event, point expr) of the latest eval_vector in the same stencil frame
    _UF = {"np.multiply": ast.Mult, "np.add": ast.Add, "np.subtract": ast.Sub, "np.divide": ast.Div, "np.true_divide": ast.Div}
    for ev in fl.events:
        if ev.kind == "call":
            c = ev.value
            f = src(c.func)
            # `np.<binary ufunc>(a, b, out=T)` with T a view of the result is the plain store `T = a op b` (T does not occur in a, b)
            if f in _UF and len(c.args) == 2 and [k.arg for k in c.keywords] == ["out"]:
                t_ = c.keywords[0].value
                b_ = t_
                while isinstance(b_, ast.Subscript):
                    b_ = b_.value
                if isinstance(b_, ast.Name) and b_.id == "P_der" and isinstance(t_, ast.Subscript) \
                        and not any(isinstance(x, ast.Name) and x.id == "P_der" for a_ in c.args for x in ast.walk(a_)):
                    ev.kind, ev.target, ev.op = "store", t_, None
                    ev.value = ast.BinOp(left=c.args[0], op=_UF[f](), right=c.args[1])
        if ev.kind == "call":
            if f == "self._interpolator.compute_interpolant" and len(c.args) == 2 and src(c.args[1]) == "self._thetaSpline":
                interp[id(ev.frames[-1]) if ev.frames else 0] = (ev, c.args[0])
            elif f == "self._thetaSpline.eval_vector" and len(c.args) >= 2 and isinstance(c.args[1], ast.Name):
                extra = c.args[2:] + [k.value for k in c.keywords]
                evals[c.args[1].id] = (ev, c.args[0], extra)
            elif f == "self._thetaSpline.eval_vector" and len(c.args) >= 2 and _flat_view(c.args[1]) is not None and _flat_view(c.args[0]) is not None \
                    and isinstance(_flat_view(c.args[1])[0], ast.Name) and _flat_view(c.args[1])[0].id in fl.buffers:
                # all stencil entries at once: points X.reshape(n*m) -> values BUF.reshape(n*m), BUF allocated [n, m]: row J of the buffer
                # holds the values at row J of X when both are flattened with the same two extents
                (buf, nb), (pts, npnt) = _flat_view(c.args[1]), _flat_view(c.args[0])
                shp = fl.buffers[buf.id].args[0] if fl.buffers[buf.id].args else None
                try:
                    same = isinstance(shp, (ast.List, ast.Tuple)) and len(shp.elts) == 2 and \
                        sp.simplify(to_sym(fl.resolve(shp.elts[0])) * to_sym(fl.resolve(shp.elts[1])) - to_sym(nb)) == 0 and \
                        sp.simplify(to_sym(nb) - to_sym(npnt)) == 0 and sp.simplify(to_sym(fl.resolve(shp.elts[0])) - NPTS) == 0
                except Undecided:
                    same = False
                if same:
                    extra = c.args[2:] + [k.value for k in c.keywords]
                    evals[buf.id] = (ev, pts, extra, "rows")
                else:
                    m["why"] = m["why"] or f"call `{src(ev.node)[:60]}`: flattened views of different extents: not modelled"
            elif f.startswith("self._thetaSpline.") or f.startswith("self._interpolator."):
                m["why"] = m["why"] or f"call `{src(ev.node)[:60]}` not modelled"
            elif f == "P_der.fill" and len(c.args) == 1 and not c.keywords and not ev.frames:
                m["clears"].append((ev, c.args[0]))
            elif any(isinstance(n, ast.Name) and (n.id == "P_der" or n.id.startswith("BUF_")) for n in ast.walk(c)):
                m["why"] = m["why"] or f"call `{src(ev.node)[:60]}` may change the result or a work array: not modelled"
        elif ev.kind == "store":
            base = ev.target
            while isinstance(base, ast.Subscript):
                base = base.value
            if not (isinstance(base, ast.Name) and base.id == "P_der"):
                if isinstance(base, ast.Name) and base.id.startswith("BUF_"):
                    c = _buffered_contribution(fl, m, ev, base.id, interp, evals)
                    if c is not None:
                        m["buffered"].append(c)
                    else:
                        m["other_stores"].append(ev)
                continue
            in_loop = bool(ev.frames)
            tgt = ev.target
            items = [] if isinstance(tgt, ast.Name) else (list(tgt.slice.elts) if isinstance(tgt.slice, ast.Tuple) else [tgt.slice])
            full = lambda i: isinstance(i, ast.Slice) and i.lower is None and i.upper is None and i.step is None
            whole = all(full(i) for i in items)
            val, op = ev.value, ev.op
            # `der[t] = der[t] + v` is the accumulation `der[t] += v`
            if op is None and isinstance(val, ast.BinOp) and isinstance(val.op, (ast.Add, ast.Mult)):
                for a, b in ((val.left, val.right), (val.right, val.left)):
                    if src(a) == src(tgt):
                        val, op = b, val.op
                        break
            piece = _fold_piece(fl, m, items, val, op) if not in_loop and m["buffered"] else None
            if piece is not None:
                m["folds"].append((ev,) + piece)
            elif not in_loop and whole and op is None:
                m["clears"].append((ev, val))
            elif not in_loop and whole and isinstance(op, (ast.Mult, ast.Div)):
                m["scales"].append((ev, val, op))
            elif in_loop and isinstance(op, (ast.Add, ast.Sub)) and items and all(full(i) for i in items[1:]) and _over_shifts(items[0]):
                # all stencil entries at once: der[(k - shifts) % nz, :] += coeffs[:, None] * BUF  ==  for J: der[(k - shifts[J]) % nz, :] += coeffs[J] * BUF[J]
                c = Contribution(ev)
                c.op = op
                fl.nsym += 1
                jsym = f"J{fl.nsym}"
                c.target = _entry(items[0], jsym)
                c.value = _entry(val, jsym)
                c.vectorised = True
                rows = [f for f in ev.frames if f.kind == "range"]
                bufs = sorted({n.id for n in ast.walk(val) if isinstance(n, ast.Name) and n.id.startswith("BUF_")})
                if len(rows) != 1 or len(ev.frames) != 1 or c.target is None or c.value is None:
                    c.problems.append("vectorised accumulation over the stencil: the statement is not element-wise in the shifts / coefficients")
                elif len(bufs) != 1 or bufs[0] not in evals or len(evals[bufs[0]]) < 4 or not evals[bufs[0]][0].frames or evals[bufs[0]][0].frames[-1] is not rows[0]:
                    c.problems.append("the accumulated value is not (weights) x (buffer filled by one eval_vector call for all stencil entries in the same row iteration)")
                else:
                    c.row = rows[0]
                    c.sten = Frame(jsym, "elems", ast.Constant(value=0), None, over=[ast.parse("self._shifts", mode="eval").body,
                                                                                     ast.parse("self._coeffs", mode="eval").body], node=ev.node)
                    it = interp.get(id(c.row))
                    if it is None:
                        c.problems.append("no compute_interpolant call in the row loop before the accumulation")
                    else:
                        c.src_row = it[1]
                    c.buf = bufs[0]
                    c.point = ast.Subscript(value=_clone(evals[bufs[0]][1]), slice=_name(jsym), ctx=ast.Load())
                    c.eval_extra = evals[bufs[0]][2]
                m["contribs"].append(c)
            elif in_loop and isinstance(op, (ast.Add, ast.Sub)) and items and all(full(i) for i in items[1:]):
                c = Contribution(ev)
                c.op = op
                c.target = items[0]
                c.value = val
                rows = [f for f in ev.frames if f.kind == "range"]
                stens = [f for f in ev.frames if f.kind == "elems" or (f.kind == "range" and src(f.hi) in SIZES and src(f.lo) == "0")]
                rows = [f for f in rows if f not in stens]
                if len(rows) != 1 or len(stens) != 1 or any(f.kind == "other" for f in ev.frames):
                    c.problems.append("the loops around the accumulation are not one loop over rows and one over the stencil entries")
                else:
                    c.row, c.sten = rows[0], stens[0]
                    it = interp.get(id(c.row))
                    if it is None:
                        c.problems.append("no compute_interpolant call in the row loop before the accumulation")
                    else:
                        c.src_row = it[1]
                    bufs = [n.id for n in ast.walk(val) if isinstance(n, ast.Name) and n.id.startswith("BUF_")]
                    if len(bufs) == 1 and bufs[0] in evals and evals[bufs[0]][0].frames and _same_iteration(evals[bufs[0]][0].frames, ev.frames, c.sten):
                        c.buf = bufs[0]
                        c.point = evals[bufs[0]][1]
                        c.eval_extra = evals[bufs[0]][2]
                    else:
                        c.problems.append("the accumulated value is not (weight) x (buffer filled by eval_vector in the same stencil iteration)")
                m["contribs"].append(c)
            elif in_loop and op is None and items and all(full(i) for i in items[1:]) and not full(items[0]):
                # a row of the result is ASSIGNED inside the loops (no accumulation): judged by regimes (F7-accumulation)
                m["assigns"].append(ev)
            else:
                m["other_stores"].append(ev)
                m["why"] = m["why"] or f"store `{src(ev.node)[:60]}` into the result not modelled"
    m["evals"] = evals
    if m["buffered"]:
        try:
            _compose_folds(chk, m)
        except Exception as e:          # noqa: BLE001 - undecided, never an alarm
            m["why"] = m["why"] or f"scatter through a work array not followed: {type(e).__name__}: {e}"
    return m


def _same_iteration(eval_frames, store_frames, sten):
    """the eval_vector call that fills the scratch buffer runs in the same innermost iteration as the accumulation that consumes it
    (whatever the nesting order of the row loop and the stencil loop)"""
    return len(eval_frames) == len(store_frames) and all(a is b for a, b in zip(eval_frames, store_frames)) and any(f is sten for f in eval_frames)


def _rows_of(e):
    """(array expression, lower, upper) of a row selection `X`, `X[lo:hi]`, `X[lo:hi, :]` (None = open end); None for other forms"""
    full = lambda i: isinstance(i, ast.Slice) and i.lower is None and i.upper is None and i.step is None
    if isinstance(e, ast.Name):
        return e, None, None
    if isinstance(e, ast.Subscript) and isinstance(e.value, ast.Name):
        items = list(e.slice.elts) if isinstance(e.slice, ast.Tuple) else [e.slice]
        if items and isinstance(items[0], ast.Slice) and items[0].step is None and all(full(i) for i in items[1:]):
            return e.value, items[0].lower, items[0].upper
    return None


def _buffered_contribution(fl, m, ev, buf, interp, evals):
    """`BUF[offset + row - shift, :] += coeff * values` inside the row x stencil loops, BUF a two-axis work array allocated in the
    method: the scatter goes through a work array that is folded onto the result afterwards"""
    alloc = fl.buffers.get(buf)
    shp = alloc.args[0] if alloc is not None and alloc.args else None
    if not (isinstance(shp, (ast.Tuple, ast.List)) and len(shp.elts) == 2):
        return None
    tgt, val, op = ev.target, ev.value, ev.op
    items = [] if isinstance(tgt, ast.Name) else (list(tgt.slice.elts) if isinstance(tgt.slice, ast.Tuple) else [tgt.slice])
    full = lambda i: isinstance(i, ast.Slice) and i.lower is None and i.upper is None and i.step is None
    if op is None and isinstance(val, ast.BinOp) and isinstance(val.op, ast.Add):
        for a, b in ((val.left, val.right), (val.right, val.left)):
            if src(a) == src(tgt):
                val, op = b, val.op
                break
    if not (ev.frames and isinstance(op, (ast.Add, ast.Sub)) and items and not isinstance(items[0], ast.Slice) and all(full(i) for i in items[1:])):
        return None
    c = Contribution(ev)
    c.op, c.target, c.value, c.into = op, items[0], val, buf
    rows = [f for f in ev.frames if f.kind == "range"]
    stens = [f for f in ev.frames if f.kind == "elems" or (f.kind == "range" and src(f.hi) in SIZES and src(f.lo) == "0")]
    rows = [f for f in rows if f not in stens]
    if len(rows) != 1 or len(stens) != 1 or any(f.kind == "other" for f in ev.frames):
        return None
    c.row, c.sten = rows[0], stens[0]
    it = interp.get(id(c.row))
    if it is None:
        c.problems.append("no compute_interpolant call in the row loop before the accumulation")
    else:
        c.src_row = it[1]
    bufs = [n.id for n in ast.walk(val) if isinstance(n, ast.Name) and n.id.startswith("BUF_")]
    if len(bufs) == 1 and bufs[0] in evals and evals[bufs[0]][0].frames and _same_iteration(evals[bufs[0]][0].frames, ev.frames, c.sten):
        c.buf = bufs[0]
        c.point = evals[bufs[0]][1]
        c.eval_extra = evals[bufs[0]][2]
    else:
        c.problems.append("the accumulated value is not (weight) x (buffer filled by eval_vector in the same stencil iteration)")
    return c


def _fold_piece(fl, m, items, val, op):
    """`der[a:b, :] (=|+=) BUF[c:d]` after the loops, BUF a work array that received stencil contributions:
    (result lower, result upper, buffer, buffer lower, buffer upper, 'assign'|'add') with None for open ends"""
    full = lambda i: isinstance(i, ast.Slice) and i.lower is None and i.upper is None and i.step is None
    if op is not None and not isinstance(op, ast.Add):
        return None
    r = _rows_of(val)
    if r is None or not (isinstance(r[0], ast.Name) and r[0].id in {c.into for c in m["buffered"]}):
        return None
    if not items:
        dlo = dhi = None
    elif isinstance(items[0], ast.Slice) and items[0].step is None and all(full(i) for i in items[1:]):
        dlo, dhi = items[0].lower, items[0].upper
    else:
        return None
    return dlo, dhi, r[0].id, r[1], r[2], ("assign" if op is None else "add")


def _compose_folds(chk, m):
    """scatter through a work array with ghost rows: contribution (row k, entry j) goes to buffer row a = offset + k - s_j; the fold
    statements send buffer row x of [c, d) to result row x - c + a0.  Composed, every contribution must reach result row
    (k - s_j) mod nz: (1) a stays inside the buffer for the extreme shifts (a negative index would silently count from the other end),
    (2) the folded ranges tile the buffer, (3) each piece shifts by a multiple of nz relative to k - s_j.  On success the buffered
    contributions are handed on as contributions to row (k - s_j) mod nz."""
    fl = m["flow"]
    facts = stencil_facts(chk)
    bad, unknown = [], []
    bufs = sorted({c.into for c in m["buffered"]})
    node = m["buffered"][0].ev.node
    if len(bufs) != 1:
        unknown.append(f"stencil contributions go to {len(bufs)} work arrays")
    buf = bufs[0]
    shp = fl.buffers[buf].args[0]
    alloc_name = src(fl.buffers[buf].func).split(".")[-1]
    try:
        M = to_sym(fl.resolve(shp.elts[0]))
    except Undecided as e:
        M = None
        unknown.append(f"number of rows of the work array: {e}")
    offsets = []
    for c in m["buffered"]:
        if c.problems:
            unknown += c.problems
            continue
        k, j = Symbol(c.row.sym, integer=True), Symbol(c.sten.sym, integer=True)
        try:
            core = to_sym(c.target)
            lo, hi = to_sym(c.row.lo), to_sym(c.row.hi)
        except Undecided as e:
            unknown.append(f"work-array row `{src(c.target)}`: {e}")
            continue
        off = sp.simplify(core - (k - SHIFT(j)))
        if off.has(k) or off.has(j) or off.has(SHIFT):
            if sp.simplify(core - (k + SHIFT(j))).has(k) is False and not sp.simplify(core - (k + SHIFT(j))).has(SHIFT):
                bad.append(f"the contribution of source row k with shift s goes to work-array row {core}, i.e. to k + s instead of k - s")
            else:
                unknown.append(f"work-array row {core} is not offset + (source row) - shift_j")
            continue
        offsets.append(off)
        if M is None or "shift" not in facts:
            unknown.append("the extreme shifts are not extractable from getCoeffsFirstDeriv: range of the work-array rows not decided")
            continue
        amin = off + lo - facts["shift"](NPTS - 1)
        amax = off + hi - 1 - facts["shift"](Integer(0))
        t = Symbol("t", integer=True, nonnegative=True)
        for par, idx in (("even", 0), ("odd", 1)):
            nsub = parities(NPTS)[idx]
            lo_v = sp.simplify(parities(concretise(amin, facts))[idx].subs(NZ, nsub + t))
            hi_v = sp.simplify(parities(concretise(M - 1 - amax, facts))[idx].subs(NZ, nsub + t))
            s_lo, s_hi = sign_for_all(lo_v), sign_for_all(hi_v)
            if s_lo == "neg":
                bad.append(f"for an {par} number of stencil points (order {'odd' if par == 'even' else 'even'}) the contribution of source row "
                           f"{sp.simplify(lo)} with the largest shift goes to work-array row {sp.simplify(parities(concretise(amin, facts))[idx])} "
                           f"(`{src(c.ev.node)[:60].replace('P_', '')}` with offset {off} = {sp.simplify(parities(concretise(off, facts))[idx])}, "
                           f"largest shift {sp.simplify(parities(concretise(facts['shift'](NPTS - 1), facts))[idx])}): "
                           "a negative index silently counts from the END of the work array, i.e. lands in the ghost rows of the other side and "
                           "is folded onto the wrong result row - the ghost region below row 0 has fewer rows than the largest shift")
            elif s_lo not in ("nonneg", "pos", "zero"):
                unknown.append(f"lowest work-array row {lo_v} ({par} number of points) not decided against 0")
            if s_hi == "neg":
                bad.append(f"for an {par} number of stencil points the contribution of the last source row with the smallest shift goes to "
                           f"work-array row {sp.simplify(parities(concretise(amax, facts))[idx])}, beyond the last row of the work array "
                           f"({sp.simplify(parities(concretise(M - 1, facts))[idx])}): IndexError - the ghost region above the last row is too small")
            elif s_hi not in ("nonneg", "pos", "zero"):
                unknown.append(f"highest work-array row ({par} number of points) not decided against the size of the work array")
    # fold pieces
    pieces = []
    for ev, dlo, dhi, b_, blo, bhi, kind in m["folds"]:
        if b_ != buf or ev.guards:
            unknown.append(f"`{src(ev.node)[:60]}`: conditional fold / another work array".replace("P_", ""))
            continue
        try:
            z = Integer(0)
            pieces.append((ev, to_sym(dlo) if dlo is not None else z, to_sym(dhi) if dhi is not None else NZ,
                           to_sym(blo) if blo is not None else z, to_sym(bhi) if bhi is not None else M, kind))
        except (Undecided, TypeError) as e:
            unknown.append(f"`{src(ev.node)[:60]}`: {e}".replace("P_", ""))
    if not m["folds"]:
        unknown.append("the work array that receives the stencil contributions is never folded onto the result")
    if M is not None and pieces and not unknown:
        same = lambda a, b: all(x == 0 for x in parities(concretise(sp.simplify(a - b), facts))) or sp.simplify(a - b) == 0
        # (2) tiling of the buffer rows
        cur, left = Integer(0), list(pieces)
        while left:
            nxt = [p_ for p_ in left if same(p_[3], cur)]
            if len(nxt) != 1:
                break
            cur = nxt[0][4]
            left.remove(nxt[0])
        if left or not same(cur, M):
            unknown.append(f"the folded row ranges {[(str(p_[3]), str(p_[4])) for p_ in pieces]} of the work array are not shown to tile [0, {M})")
        for ev, dlo, dhi, blo, bhi, kind in pieces:
            if not same(dhi - dlo, bhi - blo):
                unknown.append(f"`{src(ev.node)[:60]}`: {dhi - dlo} result rows receive {bhi - blo} work-array rows".replace("P_", ""))
            for off in offsets:
                d = sp.simplify(concretise(dlo - blo + off, facts))
                q_ = sp.simplify(d / NZ)
                if not all(x.is_integer for x in parities(q_)):
                    if all(sp.simplify(x).is_number or not sp.simplify(x).has(NZ) for x in parities(d)) and not any(x == 0 for x in parities(d)):
                        bad.append(f"`{src(ev.node)[:70]}` sends work-array row x to result row x + ({sp.simplify(dlo - blo)}), but row x holds the "
                                   f"contributions for line x - ({off}): the fold is off by {d} rows (not a multiple of nz)".replace("P_", ""))
                    else:
                        unknown.append(f"`{src(ev.node)[:60]}`: shift {d} of the fold not decided to be a multiple of nz".replace("P_", ""))
        assigns = [p_ for p_ in pieces if p_[5] == "assign"]
        if assigns:
            first = min(pieces, key=lambda p_: p_[0].node.lineno)
            if len(assigns) != 1 or assigns[0] is not first or not (same(assigns[0][1], Integer(0)) and same(assigns[0][2], NZ)):
                unknown.append("the assignment that starts the fold does not come first / does not cover all rows of the result")
        elif not m["clears"]:
            unknown.append("the fold only adds to the result, which is not cleared before")
    m["fold_report"] = (node, bad, unknown, buf)
    if unknown and not bad:
        m["why"] = m["why"] or ("scatter through a work array: " + unknown[0])
    # hand the contributions on, as contributions to result row (k - s_j) mod nz
    for c in m["buffered"]:
        if c.row is None or c.sten is None:
            continue
        c.buffer_target = c.target
        c.target = ast.BinOp(left=ast.BinOp(left=_name(c.row.sym), op=ast.Sub(),
                                            right=ast.Subscript(value=ast.parse("self._shifts", mode="eval").body, slice=_name(c.sten.sym), ctx=ast.Load())),
                             op=ast.Mod(), right=ast.parse("self._nz", mode="eval").body)
        m["contribs"].append(c)
    # the work array starts from zero: that is the clearing of the accumulation
    if alloc_name in ("zeros", "zeros_like") and any(p_[5] == "assign" for p_ in pieces):
        class _N:
            pass
        ev0 = _N()
        ev0.node, ev0.guards = fl.buffers[buf], []
        m["clears"].append((ev0, ast.Constant(value=0)))


def _mentions(e, name):
    return any(isinstance(n, ast.Name) and n.id == name for n in ast.walk(e))


def classify_skip(test, polarity):
    """a contribution guarded by `test` (executed when it has truth value `polarity`) is skipped for some source rows.  Interpolation
    and evaluation are linear and injective, so skipping is harmless exactly when the skipped row is identically zero.
    -> ('zero', text) the skip condition holds for zero rows only / ('nonzero', text, kind) it can hold for a non-zero row /
    (None, text) not understood"""
    e = test
    neg = not polarity            # rows are skipped when `test` is true (polarity False) or false (polarity True)
    skip_if_true = neg
    while True:
        if isinstance(e, ast.UnaryOp) and isinstance(e.op, (ast.Not, ast.Invert)):
            e, skip_if_true = e.operand, not skip_if_true
        elif isinstance(e, ast.Subscript) and isinstance(e.value, (ast.Compare, ast.Call, ast.UnaryOp, ast.BoolOp)):
            e = e.value          # element of a per-row flag array computed before the loop
        else:
            break
    text = ("" if skip_if_true else "not ") + f"({src(e).replace('P_', '')})"
    if not _mentions(e, "P_phi_r"):
        return None, text

    def call_name(c):
        return c.func.attr if isinstance(c.func, ast.Attribute) else c.func.id if isinstance(c.func, ast.Name) else ""
    # any()/count_nonzero of the row: true iff the row is not identically zero
    if isinstance(e, ast.Call) and call_name(e) in ("any", "count_nonzero"):
        return ("zero", text) if not skip_if_true else ("nonzero", text, "rows that are NOT identically zero")
    if isinstance(e, ast.Call) and call_name(e) == "all" and isinstance((e.args[0] if e.args else e.func.value), ast.Compare):
        c = e.args[0] if e.args else e.func.value
        if len(c.ops) == 1 and isinstance(c.ops[0], ast.Eq) and isinstance(c.comparators[0], ast.Constant) and c.comparators[0].value == 0:
            return ("zero", text) if skip_if_true else ("nonzero", text, "rows that are not identically zero")
    if isinstance(e, ast.Compare) and len(e.ops) == 1:
        a, b, op = e.left, e.comparators[0], e.ops[0]
        zero = lambda x: isinstance(x, ast.Constant) and x.value == 0
        red = lambda x: isinstance(x, ast.Call) and call_name(x) in ("ptp", "max", "min", "amax", "amin", "std", "var", "norm", "sum", "mean")
        if isinstance(op, ast.Eq) and ((red(a) and call_name(a) in ("ptp", "std", "var") and zero(b)) or
                                       (red(b) and call_name(b) in ("ptp", "std", "var") and zero(a))) and skip_if_true:
            return "nonzero", text, "rows that are uniform in theta (any constant, not only zero)"
        if isinstance(op, ast.Eq) and red(a) and red(b) and {call_name(a), call_name(b)} <= {"max", "min", "amax", "amin"} and skip_if_true:
            return "nonzero", text, "rows that are uniform in theta (any constant, not only zero)"
        if isinstance(op, (ast.Lt, ast.LtE, ast.Gt, ast.GtE)) and (red(a) or red(b)):
            return "nonzero", text, "rows selected by a threshold on their values"
    return None, text


def regimes(chk):
    """the source rows of parallel_gradient tile [0, nz) whatever block the caller owns; unwrapped target rows stay inside the
    array (shared with C05)"""
    m = scatter_model(chk)
    fn = m["fn"]
    facts = stencil_facts(chk)
    q = f"{CLS}.parallel_gradient"
    cs = m["contribs"]
    if m.get("fold_report"):
        node, fbad, funknown, buf = m["fold_report"]
        okf = False if fbad else (None if funknown else True)
        chk.ob("F7-regimes", node, "scatter through a work array with ghost rows, folded onto the periodic images", okf,
               "every contribution (row k, entry j) stays inside the work array for the extreme shifts and the fold statements send it to "
               "result row (k - s_j) mod nz" if okf else "; ".join(dict.fromkeys(fbad + funknown)), file=U.ADV, func=q)
        if fbad:
            return m
    if m["assigns"] and not m["why"]:
        _assigned_rows(chk, m, q)
        return None
    if m["why"] or not cs or any(c.row is None for c in cs):
        chk.ob("F7-regimes", fn, "source rows tile [0, nz)", None,
               "scatter not followed: " + (m["why"] or ("no accumulation into the result found" if not cs else
                                                        next(p for c in cs for p in c.problems))), file=U.ADV, func=q)
        return None
    # every source row contributes, whatever the data: a guard on the accumulation skips rows
    for c in cs:
        for test, pol in c.ev.guards:
            kind = classify_skip(test, pol)
            if kind[0] == "zero":
                continue
            # VIOLATED-soundness: recognised guard forms on the source row itself (any / all == 0 / ptp == 0 / thresholds), read with polarity
            if kind[0] == "nonzero":
                chk.ob("F7-regimes", c.ev.node, "every source row in [0, nz) contributes", False,
                       f"the contributions of a source row are skipped when `{kind[1]}`, which holds for {kind[2]}: a source row k feeds the n "
                       "different target rows k - s_j with the weights c_j, so dropping a non-zero row removes c_j * S_k(theta + ...) from each "
                       "of them; these terms cancel inside one target row only if all rows of its stencil carry the same values. The result "
                       "is no longer linear in the potential (e.g. a potential that depends on z only gives 0 instead of b_z d/dz)",
                       file=U.ADV, func=q)
            else:
                chk.ob("F7-regimes", c.ev.node, "every source row in [0, nz) contributes", None,
                       f"the accumulation is executed only when `{'' if pol else 'not '}({src(test).replace('P_', '')[:80]})`: which source rows are skipped "
                       "is not decided", file=U.ADV, func=q)
            return m
    # distinct row loops in program order
    frames = []
    for c in cs:
        if not any(c.row is f for f in frames):
            frames.append(c.row)
    dep = sorted({p_ for f in frames for p_ in params_in(f.lo) + params_in(f.hi)})
    if dep:
        label = f"{len(frames)} loop(s) over z rows, bounds depending on argument(s) {', '.join(dep)}"
    else:
        label = (f"{len(frames)} loop(s) over z rows: " + ", ".join(f"[{src(f.lo)[:40]}, {src(f.hi)[:40]})" for f in frames)).replace("self._", "")
    bounds, unknown = [], []
    clip = []
    for f in frames:
        ps = sorted(set(params_in(f.lo) + params_in(f.hi)))
        clipped = [n for e in (f.lo, f.hi) for n in ast.walk(e) if isinstance(n, ast.Call) and src(n.func) in ("min", "max", "np.minimum", "np.maximum")
                   and params_in(n) and any(src(a) in ("0", "self._nz") for a in n.args)]
        if ps and clipped:
            clip.append((f, ps, clipped[0]))
        try:
            bounds.append((to_sym(f.lo), to_sym(f.hi)))
        except Undecided as e:
            unknown.append(f"bounds [{src(f.lo)}, {src(f.hi)}): {e}")
    # VIOLATED-soundness: recognised wrong form - the row range depends on a caller argument AND is clipped to [0, nz) by min/max
    if clip:
        f, ps, cl = clip[0]
        nm = [p for p in ps if p not in ("phi_r", "i", "der")] or ps
        chk.ob("F7-regimes", f.node, label, False,
               f"the rows that contribute depend on the caller's argument `{nm[0]}` and the window is clipped to [0, nz) "
               f"(`{src(cl).replace('P_', '')}`) instead of being wrapped periodically: for a z block that touches z = 0 or z = nz-1 the rows on the "
               "other side of the periodic seam are skipped, so the gradient on the lines next to the seam lacks their stencil "
               "contributions - the result depends on how z is distributed", file=U.ADV, func=q)
        return m
    if unknown or any(params_in(f.lo) + params_in(f.hi) for f in frames):
        chk.ob("F7-regimes", frames[0].node, label, None, "; ".join(unknown) or
               "the row ranges depend on arguments of the call: coverage of [0, nz) not established", file=U.ADV, func=q)
        return m
    # tiling: the ranges, in ANY program order, chain from 0 to nz (each starts where another ends); only when no such chain exists
    # are the ranges compared in program order, and a gap is a violation only when it has a definite sign
    def _zero(d):
        d2 = concretise(sp.simplify(d), facts)
        return sp.simplify(d) == 0 or all(sp.simplify(x) == 0 for x in parities(d2))
    cur_, left_ = Integer(0), list(bounds)
    while left_:
        nxt = [b_ for b_ in left_ if _zero(b_[0] - cur_)]
        if len(nxt) != 1:
            break
        cur_ = nxt[0][1]
        left_.remove(nxt[0])
    chained = not left_ and _zero(cur_ - NZ)
    gaps = []
    seq = [Integer(0)] + [x for b in bounds for x in b] + [NZ]
    for k in range(0, len(seq) if not chained else 0, 2):
        d = sp.simplify(seq[k] - seq[k + 1])
        if d != 0:
            where = "first row" if k == 0 else "last row" if k == len(seq) - 2 else f"between range {k // 2} and {k // 2 + 1}"
            d2 = concretise(d, facts)
            dec = [sp.simplify(x) for x in parities(d2)]
            if all(x == 0 for x in dec):
                continue
            gaps.append((where, seq[k], seq[k + 1], any(sign_for_all(x) in ("pos", "neg") for x in dec)))
    wrapped_all = True
    problems, unwrapped = [], []
    for c in cs:
        try:
            core, wr = strip_mod(to_sym(c.target))
        except Undecided as e:
            problems.append(f"target row `{src(c.target)}`: {e}")
            continue
        if not wr:
            wrapped_all = False
            unwrapped.append((c, core))
    bad = []
    if gaps and any(g[3] for g in gaps):
        g = next(g for g in gaps if g[3])
        bad.append(f"the row ranges do not tile [0, nz): {g[0]}: {g[1]} is followed by {g[2]} - rows are skipped or visited twice")
    elif gaps:
        problems.append(f"tiling not established at {gaps[0][0]}: {gaps[0][1]} vs {gaps[0][2]}")
    # unwrapped targets: row - shift must stay in [-nz, nz) (a negative index counts from the end, as the interior loop relies on for
    # odd orders); needs the extreme shifts as functions of n and nz > order = n - 1
    for c, core in unwrapped:
        k = Symbol(c.row.sym, integer=True)
        j = Symbol(c.sten.sym, integer=True)
        lo, hi = bounds[[f is c.row for f in frames].index(True)]
        if "shift" not in facts or "fwd" not in facts or "bkwd" not in facts:
            problems.append("unwrapped target rows: the extreme shifts are not extractable from getCoeffsFirstDeriv")
            continue
        cc = concretise(core, facts)
        if sp.simplify(sp.diff(cc, k) - 1) != 0 or sp.simplify(sp.diff(cc, j) + 1) != 0:
            problems.append(f"unwrapped target row {core} is not (row - shift_j) + const: range not bounded")
            continue
        t = Symbol("t", integer=True, nonnegative=True)
        for par, vals in zip(("even", "odd"), zip(*[parities(concretise(x, facts)) for x in
                                                      (cc.subs({k: hi - 1, j: 0}), cc.subs({k: lo, j: NPTS - 1}))])):
            top, bot = vals
            nsub = parities(NPTS)[0 if par == "even" else 1]
            over = sp.simplify((top - (NZ - 1)).subs(NZ, nsub + t))
            under = sp.simplify((bot + NZ).subs(NZ, nsub + t))
            so, su = sign_for_all(over), sign_for_all(under)
            if so == "pos":
                bad.append(f"rows up to {sp.simplify(hi - 1)} accumulate into row {sp.simplify(top)} without the modulo (for an {par} number of "
                           "stencil points): beyond the last row nz-1 - IndexError / rows missing at the upper periodic seam")
            elif su == "neg":
                bad.append(f"rows from {lo} accumulate into row {sp.simplify(bot)} < -nz without the modulo")
            elif not (so in ("nonpos", "neg", "zero") and su in ("nonneg", "pos", "zero")):
                problems.append(f"unwrapped target rows of [{lo}, {hi}): bounds {bot} .. {top} not decided against [-nz, nz)")
    ok = False if bad else (None if problems else True)
    chk.ob("F7-regimes", frames[0].node, label, ok,
           ("the row ranges tile [0, nz) and " + ("every target row is taken modulo nz" if wrapped_all else
                                                  "target rows are taken modulo nz except where row - shift stays inside [-nz, nz)"))
           if ok else "; ".join(dict.fromkeys(bad + problems)), file=U.ADV, func=q)
    return m


def _assigned_one(m, ev):
    """checks (a)-(c) of _assigned_rows for one assigning statement -> (reason why not established | None, which entries assign)"""
    why = None
    fr = ev.frames
    sten_like = lambda f: f.kind == "elems" or (f.kind == "range" and src(f.hi) in SIZES and src(f.lo) == "0")
    if len(fr) != 2 or fr[0].kind != "range" or sten_like(fr[0]) or not sten_like(fr[1]):
        why = "the loops around it are not a row loop with the stencil loop inside"
    sibs = [c for c in m["contribs"] if len(c.ev.frames) == 2 and all(a is b for a, b in zip(c.ev.frames, fr))
            and src(c.target) == src((ev.target.slice.elts[0] if isinstance(ev.target.slice, ast.Tuple) else ev.target.slice))]
    if why is None and not sibs and ev.guards:
        why = "no accumulation onto the same target row in the same loops: the role of the assigned row is not established"
    if why is None:
        # the claim is about a SCATTER: the assigned row must move with the source row AND with the stencil entry (in a gather - one
        # target row per iteration of the row loop - the first entry legitimately initialises the row)
        trow = ev.target.slice.elts[0] if isinstance(ev.target.slice, ast.Tuple) else ev.target.slice
        names = {x.id for x in ast.walk(trow) if isinstance(x, ast.Name)}
        if fr[0].sym not in names or fr[1].sym not in names:
            why = "the assigned row does not depend on both the row counter and the stencil entry: not the scatter the claim is about"
        else:
            try:
                core, _wr = strip_mod(to_sym(trow))
                k_, j_ = Symbol(fr[0].sym, integer=True), Symbol(fr[1].sym, integer=True)
                if sp.simplify(sp.diff(core, k_)) not in (1, -1) or not core.has(SHIFT):
                    why = f"the assigned row {core} is not (row -/+ shift_j) + const"
            except Exception as e:          # noqa: BLE001 - undecided
                why = f"the assigned row is not extractable: {e}"
    sel = None
    if why is None:
        jsym = fr[1].sym
        if not ev.guards:
            sel = "every stencil entry"
        elif len(ev.guards) == 1:
            test, pol = ev.guards[0]
            if isinstance(test, ast.Compare) and len(test.ops) == 1 and isinstance(test.left, ast.Name) and test.left.id == jsym \
                    and isinstance(test.comparators[0], ast.Constant) and test.comparators[0].value == 0 \
                    and ((isinstance(test.ops[0], ast.Eq) and pol) or (isinstance(test.ops[0], ast.NotEq) and not pol)):
                sel = "the first stencil entry"
        if sel is None:
            why = "which stencil entries take the assigning path is not read from its guard"
    return why, sel


def _assigned_rows(chk, m, q):
    """a stencil entry ASSIGNS its contribution to the target row instead of accumulating it.
    Claim: with the row loop outside and the stencil loop inside, a target row t receives entry j from source row (t + s_j) mod nz.  Let
    j0 be an assigning entry and j1 another entry, d = s_j1 - s_j0 != 0 (mod nz).  The assignment is harmless only if, for EVERY t,
    source row (t + s_j0) is processed before source row (t + s_j0 + d): u before u + d for every u modulo nz, which no order of the rows
    satisfies (u, u+d, u+2d, ... returns to u).  So for some target row the contribution of j1 is stored first and discarded by the
    assignment of j0, whatever the order of the row loops.
    ASSUMPTIONS checked here (else UNDECIDED): (a) the assignment sits in a row loop with the stencil loop INSIDE it (with the stencil loop
    outside, its first entry legitimately initialises every row); (b) its target row is, textually, the target row of an accumulation in
    the same two loops (the periodic scatter row - shift_j); (c) it runs for the first stencil entry (guard `j == 0`) or for all of them;
    assumed from the property: the stencil has at least two entries with different shifts and nz exceeds their difference."""
    label = "every stencil entry is accumulated onto the target row"
    facts = stencil_facts(chk)
    verdicts = [_assigned_one(m, ev_) for ev_ in m["assigns"]]
    ev = m["assigns"][0]
    why, sel = next(((w_, s_) for w_, s_ in verdicts if w_ is not None), (None, verdicts[0][1]))
    if why is None:
        # (d) EVERY source row goes through an assigning nest: the row loops of the assignments are those of all accumulations and
        # their ranges chain from 0 to nz (the argument `u before u + d for every u modulo nz` needs every residue u)
        rows = []
        for ev_ in m["assigns"]:
            if not any(ev_.frames[0] is f for f in rows):
                rows.append(ev_.frames[0])
        if any(c.row is None or not any(c.row is f for f in rows) for c in m["contribs"]):
            why = "some row loops accumulate without an assigning entry: the order argument does not cover every source row"
        else:
            try:
                left_, cur_ = [(to_sym(f.lo), to_sym(f.hi)) for f in rows], Integer(0)

                def _zero(d):
                    d2 = concretise(sp.simplify(d), facts)
                    return sp.simplify(d) == 0 or all(sp.simplify(x) == 0 for x in parities(d2))
                while left_:
                    nxt = [b_ for b_ in left_ if _zero(b_[0] - cur_)]
                    if len(nxt) != 1:
                        break
                    cur_ = nxt[0][1]
                    left_.remove(nxt[0])
                if left_ or not _zero(cur_ - NZ):
                    why = "the row ranges of the assigning loops are not established to tile [0, nz)"
            except Exception as e:          # noqa: BLE001 - undecided
                why = f"row ranges of the assigning loops not extractable: {e}"
    if why is not None:
        chk.ob("F7-accumulation", ev.node, label, None, f"`{src(ev.node)[:70]}` assigns a row of the result inside the loops; {why}",
               file=U.ADV, func=q)
        return
    chk.ob("F7-accumulation", ev.node, label, False,
           f"`{src(ev.node).replace('P_', '')[:70]}` ASSIGNS the contribution of {sel} to the target row (row - shift) mod nz instead of adding it. Target "
           "row t receives entry j from source row (t + s_j) mod nz; the assignment is harmless only if the assigning entry reaches every t "
           "before all other entries, i.e. source row u is processed before row u + d (d = difference of two shifts) for every u modulo nz - "
           "impossible for a periodic direction, whatever the order of the row loops: at the periodic seam other entries reach the row first "
           "(accumulating onto whatever the caller left in the array) and the wrapped source's assignment then discards them. The first / last "
           "lines of the gradient lose stencil terms", file=U.ADV, func=q)


def _bz_indices(m):
    """radius indices at which b_z is taken by the scaling statements of parallel_gradient"""
    out = []
    for ev, v, op in m["scales"]:
        try:
            out += [a.args[0] for a in to_sym(v).atoms(sp.Function) if a.func == BZ]
        except Undecided:
            pass
    return out


def _radius_index_kind(rad, m):
    """'wrong' (constant or loop counter), 'consistent' (depends on the slice's index i and b_z is taken at the same expression), None"""
    try:
        e = to_sym(rad)
    except Undecided:
        return None
    loops = {f.sym for c in m["contribs"] for f in (c.row, c.sten) if f is not None}
    if e.is_number or any(str(x) in loops for x in e.free_symbols):
        return "wrong"
    if Symbol("P_i") in e.free_symbols and any(sp.simplify(b - e) == 0 for b in _bz_indices(m)):
        return "consistent"
    return None


def _dedup_map_kind(chk, rad):
    """`self._thetaVals[self.M[i]]` with M the inverse map of a de-duplication: `_, F, self.M = np.unique(X, return_index=True,
    return_inverse=True)` guarantees X[F[M[i]]] == X[i]; when table row t is built for radius r[F[t]] (fill loop over enumerate(F)),
    X is an element-wise function g of the local radii, and the table depends on the radius through g(r) only, row M[i] IS the table
    of radius r_i.  -> 'consistent' / None"""
    if not (isinstance(rad, ast.Subscript) and isinstance(rad.slice, ast.Name) and rad.slice.id == "P_i"):
        return None
    M = src(rad.value)
    if not M.startswith("self."):
        return None
    init = chk.func(U.ADV, f"{CLS}.__init__")
    uniq = None
    for st in ast.walk(init):
        if isinstance(st, ast.Assign) and len(st.targets) == 1 and isinstance(st.targets[0], ast.Tuple) and isinstance(st.value, ast.Call) \
                and src(st.value.func) in ("np.unique", "numpy.unique") and len(st.value.args) == 1:
            kw = {k.arg: k.value for k in st.value.keywords}
            flags = [k for k in ("return_index", "return_inverse", "return_counts") if isinstance(kw.get(k), ast.Constant) and kw[k].value is True]
            if set(kw) - {"return_index", "return_inverse", "return_counts"} or len(flags) + 1 != len(st.targets[0].elts):
                continue
            outs = dict(zip(["values"] + flags, st.targets[0].elts))
            if "return_index" in outs and "return_inverse" in outs and src(outs["return_inverse"]) == M:
                uniq = (st, st.value.args[0], outs["return_index"])
    if uniq is None:
        return None
    st_u, X, F = uniq
    if any(isinstance(n, (ast.Assign, ast.AugAssign)) and n is not st_u and
           src(n.targets[0] if isinstance(n, ast.Assign) else n.target).split("[")[0] == M for cls_m in chk.mod(U.ADV).methods(CLS).values()
           for n in ast.walk(cls_m)):
        return None                 # the map is written elsewhere too
    # X = g(r) element-wise in the local radii
    defs = {}
    for n in ast.walk(init):
        if isinstance(n, ast.Assign) and len(n.targets) == 1 and isinstance(n.targets[0], ast.Name):
            defs.setdefault(n.targets[0].id, []).append(n.value)
    e = X
    for _ in range(4):
        if isinstance(e, ast.Name) and len(defs.get(e.id, [])) == 1:
            e = defs[e.id][0]
        elif isinstance(e, ast.Call) and src(e.func) in ("np.array", "np.asarray", "np.fromiter", "list") and e.args:
            e = e.args[0]
        else:
            break
    g_of = None
    if isinstance(e, (ast.ListComp, ast.GeneratorExp)) and len(e.generators) == 1 and not e.generators[0].ifs and isinstance(e.generators[0].target, ast.Name):
        it = e.generators[0].iter
        if isinstance(it, ast.Name) and len(defs.get(it.id, [])) == 1 and src(defs[it.id][0]).startswith("eta_grid[0]["):
            elt = e.elt
            while isinstance(elt, ast.Call) and src(elt.func) in ("float", "np.float64") and len(elt.args) == 1:
                elt = elt.args[0]
            if isinstance(elt, ast.Call) and len(elt.args) == 1 and isinstance(elt.args[0], ast.Name) and elt.args[0].id == e.generators[0].target.id:
                g_of, rname = src(elt.func), it.id
    elif isinstance(e, ast.Call) and len(e.args) == 1 and isinstance(e.args[0], ast.Name) and len(defs.get(e.args[0].id, [])) == 1 \
            and src(defs[e.args[0].id][0]).startswith("eta_grid[0]["):
        g_of, rname = src(e.func), e.args[0].id
    if g_of not in ("constants.iota",):
        return None
    # fill loop: row t of the table is built for radius r[F[t]]
    ok_fill = False
    for lp in ast.walk(init):
        if isinstance(lp, ast.For) and isinstance(lp.iter, ast.Call) and src(lp.iter.func) == "enumerate" and len(lp.iter.args) == 1 \
                and src(lp.iter.args[0]) == src(F) and isinstance(lp.target, ast.Tuple) and len(lp.target.elts) == 2 \
                and all(isinstance(x, ast.Name) for x in lp.target.elts):
            t_, i_ = (x.id for x in lp.target.elts)
            calls = [c for c in ast.walk(lp) if isinstance(c, ast.Call) and src(c.func) == "self._getThetaVals"]
            if len(calls) == 1 and len(calls[0].args) >= 2 and src(calls[0].args[0]) == f"{rname}[{i_}]" and src(calls[0].args[1]) == f"self._thetaVals[{t_}]":
                ok_fill = True
    if not ok_fill:
        return None
    # the table depends on the radius through iota(r) only (field line: theta + iota(r) z / R0)
    try:
        fl = chk.func(U.ADV, "fieldline")
        from .C10 import geometry_env, FMOD
        from ..symx import Wrap, PI
        g = geometry_env()
        th, zd = sp.symbols("theta z_diff", real=True)
        n2 = NpSym(env={"theta": th, "z_diff": zd, "r": g["r"], "R0": g["R0"], "iota": g["iota"], "fmod": FMOD})
        body = [s_ for s_ in fl.body if not (isinstance(s_, ast.Expr) and isinstance(s_.value, ast.Constant))]
        n2.run(body[:-1])
        val = n2.ev(body[-1].value)
        if g["r"] in val.subs(g["iota"](g["r"]), Symbol("iota_value")).free_symbols:
            return None
    except Exception:          # noqa: BLE001
        return None
    return "consistent"


def _caller_hands_stale_rows(chk):
    """VParallelAdvection.gridStep passes `parGradVals[i]` (a row of the table its caller keeps between time steps) as the output
    array and nothing in gridStep writes the table before the call: True; anything else (call not found, table written / filled /
    re-allocated before the call, output array built otherwise): False"""
    try:
        from .C05 import vpar_entry
        from .. import agree
        gs = vpar_entry(chk, "gridStep")
        pgf = chk.func(U.ADV, f"{CLS}.parallel_gradient")
        params = [a.arg for a in pgf.args.args if a.arg != "self"]
        calls = [c for c in ast.walk(gs) if isinstance(c, ast.Call) and isinstance(c.func, ast.Attribute) and c.func.attr == "parallel_gradient"]
        if len(calls) != 1 or len(params) < 3:
            return False
        b = agree.bind_call(calls[0], params) or {}
        out = b.get(params[2])
        if not (isinstance(out, ast.Subscript) and isinstance(out.value, ast.Name) and out.value.id in {a.arg for a in gs.args.args}):
            return False
        tab = out.value.id
        for n in ast.walk(gs):
            if getattr(n, "lineno", 10 ** 9) > calls[0].lineno or n is calls[0]:
                continue
            t = n.targets[0] if isinstance(n, ast.Assign) else n.target if isinstance(n, ast.AugAssign) else None
            while isinstance(t, ast.Subscript):
                t = t.value
            if isinstance(t, ast.Name) and t.id == tab:
                return False
            if isinstance(n, ast.Call) and n is not calls[0] and any(isinstance(x, ast.Name) and x.id == tab for a_ in list(n.args) + [n.func] for x in ast.walk(a_)) \
                    and not any(n is x for x in ast.walk(calls[0])):
                return False
        return True
    except Exception:          # noqa: BLE001
        return False


def gradient_formula(chk, m):
    from ..core import same_expr
    fn = m["fn"]
    q = f"{CLS}.parallel_gradient"
    tm = table_model(chk)
    facts = stencil_facts(chk)
    label = "der[(row - s_j) % nz] += c_j * S_row(table[row, j])"
    for c in m["contribs"]:
        bad, unknown = [], list(c.problems)
        if c.row is not None and not c.problems:
            k, j = Symbol(c.row.sym, integer=True), Symbol(c.sten.sym, integer=True)
            # the stencil loop runs over the shifts/coefficients themselves (or counts their entries)
            fl = m["flow"]
            if c.sten.kind == "elems" and not all(fl.is_array_expr(o) or src(o).startswith("self._thetaVals[") for o in c.sten.over):
                unknown.append(f"the stencil loop runs over `{', '.join(src(o) for o in c.sten.over)}`".replace("P_", ""))
            # source row: phi_r[row, :]
            if not (same_expr(c.src_row, f"P_phi_r[{c.row.sym}, :]") or same_expr(c.src_row, f"P_phi_r[{c.row.sym}]")):
                unknown.append(f"the row loop interpolates `{src(c.src_row).replace('P_', '')}`, not row `{c.row.sym}` of phi_r")
            # target row = row - shift_j (mod nz)
            try:
                core, wr = strip_mod(to_sym(c.target))
                want_row = k - facts["conv"](SHIFT(j))
                d = sp.simplify(core - want_row)
                # VIOLATED below needs the target row as a closed expression in the source row and the shift of entry j alone
                # (integers, nz, the stencil constants): a row corrected conditionally (`if row < 0: row += nz`), clipped (min/max) or
                # computed by anything else is not such an expression.  A conditional whose every alternative differs from
                # (row - shift_j) by a whole multiple of nz IS that row modulo nz - which alternative is taken only matters for the range
                # of the index (F7-regimes)
                leaves = _ite_leaves(core)
                plain = not core.has(ITE) and all(a.func == SHIFT for a in core.atoms(sp.Function)) and \
                    not (core.free_symbols - {k, j, NZ, NPTS, FWD, BKWD})
                if core.has(ITE) and all((sp.simplify((lf - want_row) / NZ).is_integer or sp.simplify(lf - want_row) == 0) for lf in leaves):
                    c.row_wrapped_by_comparison = True
                elif d != 0 and not (wr and sp.simplify(d / NZ).is_integer):
                    if not plain:
                        unknown.append(f"target row {core} is not a closed expression in the source row and shift_j: not compared")
                    elif sp.simplify(core - (k + SHIFT(j))) == 0:
                        bad.append(f"the contribution of source row r with shift s is accumulated into row r + s (`{src(c.ev.node.target if isinstance(c.ev.node, ast.AugAssign) else c.ev.node.targets[0])}`), "
                                   "not r - s: der[k] then combines the rows k - s_j with the weights of +s_j - the derivative along the "
                                   "reversed field line (sign and, for odd orders, stencil are wrong)")
                    elif core.has(SHIFT) and core.has(k):
                        bad.append(f"target row {core} is not (source row) - shift_j: wrong pairing of row and weight")
                    else:
                        unknown.append(f"target row {core}")
            except Undecided as e:
                unknown.append(f"target row `{src(c.target)}`: {e}")
            # `der[t] -= w * v` adds the contribution with weight -w: the sign is part of the weight (the total factor is F7-scaling's
            # subject), not a defect by itself
            # weight = coeff_j (times call-invariant factors, judged by F7-scaling)
            try:
                val = to_sym(c.value)
                B = Symbol(c.buf)
                w = sp.simplify(sp.diff(val, B))
                if w.has(B) or sp.simplify(val.subs(B, 0)) != 0:
                    unknown.append(f"accumulated value {val} is not linear in the interpolated row")
                else:
                    if isinstance(c.op, ast.Sub):
                        w = -w
                    c.weight = w
                    cj = [a for a in w.atoms(sp.Function) if a.func == COEFF]
                    if len(cj) != 1 or sp.simplify(sp.diff(w, cj[0]) * cj[0] - w) != 0:
                        (bad if not cj and not w.has(sp.Function) and not w.free_symbols - {INVDZ, DZ} else unknown).append(
                            f"the weight of the contribution is {w}, not the finite-difference coefficient of the stencil entry")
                    elif sp.simplify(cj[0].args[0] - j) != 0:
                        bad.append(f"the weight is coefficient {cj[0].args[0]} while shift and angle column are those of entry {j}: "
                                   "shift and weight of different stencil entries are paired")
            except Undecided as e:
                unknown.append(f"accumulated value `{src(c.value)[:50]}`: {e}")
            # evaluation points: table of the slice's radius, column j (row `row` if the table has rows)
            p = c.point
            if getattr(c, "eval_extra", None) and not all(isinstance(x, ast.Constant) and x.value == 0 for x in c.eval_extra):
                bad.append(f"eval_vector is called with derivative argument `{src(c.eval_extra[0])}`: not the value of the theta-spline")
            chain = []
            while isinstance(p, ast.Subscript):
                chain.insert(0, list(p.slice.elts) if isinstance(p.slice, ast.Tuple) else [p.slice])
                p = p.value
            items = [i for grp in chain for i in grp]
            full = lambda i: isinstance(i, ast.Slice) and i.lower is None and i.upper is None and i.step is None
            if src(p) != "self._thetaVals" or not items:
                unknown.append(f"evaluation points `{src(c.point).replace('P_', '')}` are not taken from self._thetaVals")
            else:
                rad, rest = items[0], items[1:]
                while rest and full(rest[-1]):
                    rest = rest[:-1]
                if not (isinstance(rad, ast.Name) and rad.id == "P_i"):
                    # another expression: wrong when it is a fixed index or a loop counter; a consistent re-basing of the radial index
                    # (the same expression selects b_z) is engine C's subject (index spaces), not a violation here
                    kind = _radius_index_kind(rad, m) or _dedup_map_kind(chk, rad)
                    txt = f"the angle table is that of radius index `{src(rad).replace('P_', '')}`, not of the slice's index i"
                    if kind == "wrong":
                        bad.append(txt + " (a fixed index / a loop counter that has taken the place of the radius index)")
                    elif kind != "consistent":
                        unknown.append(txt)
                rank = tm.get("rank")
                if rank is None:
                    unknown.append("layout of the angle table not established (see F7-theta-table)")
                elif len(rest) > rank or len(rest) < rank - 1:
                    unknown.append(f"the table has {rank} axes per radius, the reader subscripts {len(rest)}")
                else:
                    ca, ra = tm["col_axis"], tm["row_axis"]
                    if ca >= len(rest) or not (isinstance(rest[ca], ast.Name) and rest[ca].id == c.sten.sym):
                        got_c = src(rest[ca]) if ca < len(rest) else ":"
                        definite = same_col = False
                        if ca < len(rest):
                            try:
                                dcol = sp.simplify(to_sym(rest[ca]) - j)
                                same_col = dcol == 0
                                definite = not any(str(x).startswith(("U_", "P_")) for x in dcol.free_symbols)
                            except Undecided:
                                pass
                        if not same_col:
                            (bad if definite else unknown).append(
                                f"axis {ca} of the table is the stencil column; the reader subscripts it with `{got_c}`, not with the stencil "
                                f"entry {c.sten.sym} whose shift and weight are used: the theta-spline is evaluated at the angles of another shift")
                    if ra is not None and ra < len(rest):
                        try:
                            rr, _ = strip_mod(to_sym(rest[ra]))
                            if sp.simplify(rr - k) != 0:
                                unknown.append(f"row axis of the table subscripted with {rr}")
                        except Undecided as e:
                            unknown.append(f"row axis of the table: {e}")
        ok = False if bad else (None if unknown else True)
        rng = f" rows [{src(c.row.lo)}, {src(c.row.hi)})".replace("self._", "") if c.row is not None else ""
        chk.ob("F7-gradient-formula", c.ev.node, label + rng, ok,
               "der[k] = sum_j c_j * (theta-spline of row k + s_j)(theta shifted along the field line by s_j cells): shift, "
               "coefficient and angle column carry the same j" if ok else "; ".join(bad + unknown), file=U.ADV, func=q)
    # cleared before accumulation
    # program order = order of the events of the flow model (never line numbers: the statements of a helper written back in place all
    # carry the position of the call they replace)
    _ord = {id(e_): k_ for k_, e_ in enumerate(m["flow"].events)}
    when = lambda e_: _ord.get(id(e_), 10 ** 9)
    first = min((when(c.ev) for c in m["contribs"]), default=None)
    clears = [(ev, v) for ev, v in m["clears"] if first is None or when(ev) < first]
    ok0 = bad0 = None
    if clears and isinstance(clears[-1][1], ast.Constant) and clears[-1][1].value == 0 and not clears[-1][0].guards:
        ok0 = True
    elif not m["clears"] and not m["why"] and m["contribs"] and _caller_hands_stale_rows(chk):
        # caller and callee are one unit: not FINDING the clearing in the callee is a defect only when the caller demonstrably hands
        # over a row of the table that persists between time steps without clearing it first
        bad0 = ("the result array is never cleared: the stencil contributions are added to whatever the caller's array held (the table "
                "row of the previous time step in VParallelAdvection.gridStep)")
    chk.pat("F7-gradient-formula", clears[-1][0].node if clears else fn, "der[:] = 0 before accumulation", ok0,
            "the result array is cleared before the scatter-add", bad0, file=U.ADV, func=q)
    # ---- scaling: (weight / coeff_j) x (final factor) = b_z(r_i) / dz, the same for every contribution, applied once
    init = chk.func(U.ADV, f"{CLS}.__init__")
    ni = NpSym(env={"int": lambda x: x}, hooks={})
    zs = {}
    for nd in ast.walk(init):
        if isinstance(nd, ast.Subscript) and src(nd.value) == "eta_grid[2]" and isinstance(nd.slice, ast.Constant) and isinstance(nd.slice.value, int):
            ni.hooks[src(nd)] = Symbol("z0", real=True) + nd.slice.value * DZ
    ni.run(init.body)
    dzv, inv = ni.env.get("self._dz"), ni.env.get("self._inv_dz")
    last = max((when(c.ev) for c in m["contribs"]), default=-1)
    after = [(ev, v, op) for ev, v, op in m["scales"] if when(ev) > last]
    before = [(ev, v, op) for ev, v, op in m["scales"] if when(ev) <= last]
    bad, unknown = [], []
    total = Integer(1)
    try:
        for ev, v, op in after:
            if ev.guards:
                unknown.append(f"`{src(ev.node)}` is conditional")
            total = total * to_sym(v) if isinstance(op, ast.Mult) else total / to_sym(v)
    except Undecided as e:
        unknown.append(f"final scaling `{src(after[-1][0].node)}`: {e}")
    if before:
        unknown.append(f"`{src(before[0][0].node)}` scales the result before the accumulation is complete")
    ws = [c.weight for c in m["contribs"]]
    if not m["contribs"] or any(w is None for w in ws):
        unknown.append("weights of the contributions not established (see F7-gradient-formula)")
    else:
        i_par = Symbol("P_i")
        want = BZ(i_par) * INVDZ
        # BZ(i) below is the ENTRY of self._bz; the specification speaks of b_z(r_i).  What the constructor stores is b_z(r) times a
        # radius-independent factor `bz_ratio` (1 in the reference; 1/dz or a sign when the scaling was moved between constructor and
        # method), established by the model of the constructor shared with C10 (F6-sibling-geometry).  The total factor is judged end
        # to end: (factor applied here) x bz_ratio = 1/dz.  Unknown content of self._bz -> a mismatch is UNDECIDED
        from .C10 import _store as _c10_store
        if "_c10_bz_ratio" not in _c10_store(chk):
            try:
                sibling_geometry(_Quiet(chk))
            except Exception:          # noqa: BLE001
                pass
        bz_ratio = _c10_store(chk).get("_c10_bz_ratio")
        for c in m["contribs"]:
            j = Symbol(c.sten.sym, integer=True)
            tot = sp.simplify(c.weight * total / COEFF(j))
            if dzv is not None and inv is not None:
                tot = tot.subs(DZ, Symbol("DZ_"))
                tot = tot.subs(INVDZ, inv).subs(Symbol("DZ_"), dzv).subs(DZ, Symbol("dz", positive=True))
                tot = sp.simplify(tot)
                w2 = BZ(i_par) / DZ
            else:
                w2 = want
            # other constructor attributes stand for their values
            for s_ in list(tot.free_symbols):
                v_ = ni.env.get(str(s_)) if str(s_).startswith("self.") else None
                if isinstance(v_, sp.Basic):
                    tot = sp.simplify(tot.subs(s_, v_))
            if bz_ratio is not None and bz_ratio != 1:
                try:
                    rr = bz_ratio
                    if dzv is not None:
                        rr = rr.subs(Symbol("dz", real=True), Symbol("dz", positive=True))
                    tot = sp.simplify(tot * rr)
                except Exception:          # noqa: BLE001
                    bz_ratio = None
            if alg_equal(tot, w2):
                continue
            if bz_ratio is None:
                unknown.append(f"total factor of a contribution is {tot} (in terms of the entries of self._bz), but what the constructor "
                               "stores in self._bz was not extracted: not compared")
                continue
            bzs = [a for a in tot.atoms(sp.Function) if a.func == BZ and sp.simplify(a.args[0] - i_par) != 0]
            # b_z taken at a re-based radial index that also selects the angle table: consistent, the index space is engine C's subject
            tab_idx = []
            for c_ in m["contribs"]:
                p_ = c_.point
                while isinstance(p_, ast.Subscript) and isinstance(p_.value, ast.Subscript):
                    p_ = p_.value
                if isinstance(p_, ast.Subscript) and src(p_.value) == "self._thetaVals":
                    first = p_.slice.elts[0] if isinstance(p_.slice, ast.Tuple) else p_.slice
                    try:
                        tab_idx.append(to_sym(first))
                    except Undecided:
                        pass
            if bzs and i_par in bzs[0].args[0].free_symbols and tab_idx and all(sp.simplify(t_ - bzs[0].args[0]) == 0 for t_ in tab_idx) \
                    and alg_equal(tot.subs(bzs[0], BZ(i_par)), w2):
                continue
            loopsyms = {f.sym: f for c_ in m["contribs"] for f in (c_.row, c_.sten)}
            if bzs and (str(bzs[0].args[0]) in loopsyms or bzs[0].args[0].is_number):
                what = f"the loop counter of `{src(loopsyms[str(bzs[0].args[0])].node).splitlines()[0][:50]}` (which has taken the place of the " \
                       "radius index after the loop)" if str(bzs[0].args[0]) in loopsyms else f"the fixed index {bzs[0].args[0]}"
                bad.append(f"b_z is taken at {what}, not at the slice's radius index i: the gradient is scaled with the b_z of another radius")
            elif tot.has(COEFF) or any(str(s_).startswith(("U_", "BUF_", "K", "J")) for s_ in tot.free_symbols):
                unknown.append(f"total factor of a contribution is {tot}")
            elif bzs:
                bad.append(f"b_z is taken at index {bzs[0].args[0]}, not at the slice's radius index i: the gradient of every radius is scaled "
                           "with the b_z of another one")
            elif any(str(s_).startswith(("self.", "P_", "cond_")) for s_ in tot.free_symbols - {i_par}):
                unknown.append(f"total factor of a contribution is {tot}: contains quantities the model has no value for")
            else:
                bad.append(f"the finite-difference combination is scaled by {tot}, expected b_z(r_i)/dz = {w2}".replace("P_i", "i"))
    if dzv is None or inv is None:
        unknown.append("self._dz / self._inv_dz of the constructor not extractable")
    oks = False if bad else (None if unknown else True)
    chk.ob("F7-scaling", after[-1][0].node if after else fn, "der *= b_z(r_i) / dz", oks,
           "the finite-difference combination is scaled once by b_z of the slice's radius over the z spacing" if oks else
           "; ".join(dict.fromkeys(bad + unknown)), file=U.ADV, func=q)
    muts = lints.shared_state_mutations(fn, lambda s: s.split("[")[0] in ("self._bz", "self._thetaVals", "self._coeffs", "self._shifts"))
    chk.ob("G2-no-shared-mutation", muts[0][0] if muts else fn, "parallel_gradient vs precomputed tables", not muts,
           "the precomputed b_z, angle and coefficient tables are only read" if not muts else
           "; ".join(d for _, d in muts) + " - the stored table is changed by every call, so later calls (other radii, later time "
           "steps) are scaled again", file=U.ADV, func=q)
    # possible writes the engine could not establish (alias liveness, view/copy of the value not known): undecided, same rule
    for node, desc, why in getattr(muts, "undecided", ()):
        chk.ob("G2-no-shared-mutation", node, "parallel_gradient vs precomputed tables", None, f"{desc} - not established: {why}",
               file=U.ADV, func=q)


class _Quiet:
    """view of a check that records nothing (a shared model is run for its facts only)"""

    def __init__(self, chk):
        self._real = chk

    def __getattr__(self, name):
        return getattr(self._real, name)

    def ob(self, *a, **k):
        return None

    def pat(self, *a, **k):
        return None


_FLOAT64 = {"float", "np.float64", "numpy.float64", "np.double", "np.float_", "'float64'", "'float'", "'d'", "'f8'", "np.dtype(float)",
            "np.dtype('float64')", "np.dtype(np.float64)"}
_NOT_FLOAT64 = {"int", "bool", "np.float32", "np.float16", "np.single", "np.half", "np.int32", "np.int64", "np.int_", "np.intp", "np.bool_",
                "'float32'", "'f4'", "'f'", "'int'", "'i4'", "'i8'", "'bool'", "np.uint8", "np.int8", "np.int16"}


def scratch_dtype(chk):
    """F7-scratch-dtype: the work array that eval_vector fills with the spline values (float64) holds them unchanged, i.e. it is a
    float64 array whatever the arrays handed to parallel_gradient are.  numpy casts on assignment into an existing array without a
    word (float64 -> float32 rounds, -> integer truncates, -> bool collapses), so a scratch array whose dtype is taken from an argument
    makes the accumulated gradient depend on the dtype of that argument.
    VIOLATED only when: the buffer is a local allocated in parallel_gradient by one of the numpy allocators (the flow model records
    exactly these), it is the output argument of a `self._thetaSpline.eval_vector` call, and its dtype is established as not float64:
    a `*_like(x)` allocation without dtype whose prototype x is (a view of) the potential handed in by the caller (its dtype is the
    caller's: float32 / integer potentials are legal), `dtype=<potential>.dtype`, or an explicit narrower dtype.  Prototypes whose dtype
    this rule does not know (the result array, an attribute) are UNDECIDED."""
    m = scatter_model(chk)
    fl = m["flow"]
    fn = m["fn"]
    where = dict(file=U.ADV, func=f"{CLS}.parallel_gradient")
    params = [a.arg for a in fn.args.args][1:]
    # the potential: the parameter whose rows are interpolated (compute_interpolant's first argument), not the result
    pot = {"P_phi_r"} if "phi_r" in params else set()

    def root(e):
        while isinstance(e, (ast.Subscript, ast.Attribute)) and not (isinstance(e, ast.Attribute) and src(e).startswith("self.")):
            if isinstance(e, ast.Attribute) and e.attr not in ("T", "real"):
                return None
            e = e.value
        return e

    for buf, rec in sorted(m.get("evals", {}).items()):
        alloc = fl.buffers.get(buf)
        if alloc is None:
            continue
        aname = src(alloc.func).split(".")[-1]
        what = f"scratch `{src(alloc)[:60]}` filled by eval_vector is float64"
        kws = {k.arg: k.value for k in alloc.keywords}
        if None in kws or any(isinstance(a, ast.Starred) for a in alloc.args):
            chk.ob("F7-scratch-dtype", alloc, what, None, "arguments handed over by * / ** expansion: dtype not followed", **where)
            continue
        dt = kws.get("dtype")
        like = aname.endswith("_like")
        pos = {"empty": 1, "zeros": 1, "ones": 1, "ndarray": 1, "full": 2, "empty_like": 1, "zeros_like": 1, "ones_like": 1, "full_like": 2}
        if dt is None and aname in pos and len(alloc.args) > pos[aname]:
            dt = alloc.args[pos[aname]]
        ok, why = None, None
        if dt is not None:
            t = src(dt).replace('"', "'")
            if t in _FLOAT64:
                ok, why = True, f"allocated with dtype {t}"
            elif t in _NOT_FLOAT64:
                ok, why = False, (f"the scratch array is allocated with dtype {t}: the float64 spline values written into it by eval_vector "
                                  "are cast (rounded / truncated) before they are weighted and accumulated into the gradient")
            elif isinstance(dt, ast.Attribute) and dt.attr == "dtype" and isinstance(root(dt.value), ast.Name) and root(dt.value).id in pot:
                ok, why = False, (f"the scratch array takes the dtype of the potential handed in (`{src(dt)}`): for a potential that is not "
                                  "float64 (single precision, integer or boolean valued field - all legal, the result array is float64) "
                                  "the float64 spline values are cast to that dtype on assignment inside eval_vector (rounded to single "
                                  "precision / truncated to integers) before they are accumulated: the gradient loses its accuracy")
            else:
                why = f"dtype `{src(dt)[:50]}` of the scratch array is not one this rule knows"
        elif like:
            proto = alloc.args[0] if alloc.args else kws.get("prototype", kws.get("a"))
            r = root(proto) if proto is not None else None
            if isinstance(r, ast.Name) and r.id in pot:
                ok, why = False, (f"`{src(alloc)[:70]}` allocates the scratch array with the dtype of the potential handed in by the caller "
                                  "instead of float64: for a potential that is not float64 (read from a single-precision file, an integer or "
                                  "boolean valued field - all legal, the result array is float64) the float64 spline values are cast to that "
                                  "dtype on assignment inside eval_vector (rounded to single precision, truncated to integers, collapsed to "
                                  "0/1) before they are weighted and accumulated: the gradient is no longer the finite-difference formula "
                                  "applied to the interpolated values")
            else:
                why = (f"the scratch array inherits the dtype of `{src(proto)[:50] if proto is not None else '?'}`, which this rule does not "
                       "know to be float64")
        elif aname in ("empty", "zeros", "ones", "ndarray"):
            ok, why = True, "numpy's default dtype (float64)"
        else:
            why = f"dtype produced by `{aname}` depends on its fill value: not followed"
        chk.ob("F7-scratch-dtype", alloc if hasattr(alloc, "lineno") else fn, what, ok, why, **where)


def run(chk):
    chk.explanation = (
        "Finite-difference moment system (e_1 right-hand side, consecutive shifts centred for even order, Vandermonde rows) by "
        "normal forms in the number of points; field-line angle table (column c = fieldline(theta, dz x shift_c), every row, "
        "allocation axes) from a def-use/loop-frame model of _getThetaVals, or, when the table is one whole-array expression, from an "
        "axis-labelled element-wise model of the constructor (generic element = (theta + iota(r_i) dz shift_c / R0) mod 2 pi); scatter "
        "model of parallel_gradient (explicit stencil loop, zipped table rows, or all stencil entries at once): every source row "
        "contributes whatever the data (a skip is harmless only for identically zero rows), the source-row "
        "ranges tile [0, nz), each contribution pairs shift, coefficient and angle column of the same stencil entry and targets "
        "row (row - s_j) mod nz, unwrapped targets stay inside [-nz, nz); total scale b_z(r_i)/dz applied once; b_z and pitch "
        "agree with the flux-surface advection; the precomputed tables are not mutated by a call; index-space typing of the "
        "per-radius tables (engine C). The meaning of a stored shift is fixed by the scatter (target row = source row - tau, tau = g(stored "
        "shift)): the moment system, the angle table and the regime bounds are compared with tau, so a consistent change of sign "
        "convention holds and a one-sided one is reported where the sides disagree. A scatter through a work array with ghost rows is "
        "composed with the fold statements (rows stay inside the work array for the extreme shifts of either parity, the folded ranges "
        "tile it, each fold shifts by a multiple of nz). np.mod/np.add/... are read as the operators, fmod is not a periodic wrap, the "
        "row loop and the stencil loop may be nested either way, an angle table de-duplicated through np.unique(return_index, "
        "return_inverse) is followed. Convergence order is not decided.")
    chk.in_file(U.ADV)
    from .C05 import normalise_structures
    normalise_structures(chk, U.ADV)
    fd_system(chk)
    theta_table(chk)
    m = regimes(chk)
    if m:
        gradient_formula(chk, m)
    try:
        scratch_dtype(chk)
    except AnalysisError:
        raise
    except Exception as e:          # noqa: BLE001 - undecided, never an alarm
        chk.ob("F7-scratch-dtype", chk.func(U.ADV, f"{CLS}.parallel_gradient"), "scratch filled by eval_vector is float64", None,
               f"allocation of the scratch array not followed: {type(e).__name__}: {e}", file=U.ADV, func=f"{CLS}.parallel_gradient")
    sibling_geometry(chk)
    pg_attrs, pg_summ = pg_index_spaces(chk)
    # the grid-level caller hands parallel_gradient the index space its tables need
    v_parallel(chk, pg_summ)
    from .. import lints as _l
    _l.check_cache_keys(chk, U.ADV, "ParallelGradient")
    chk.floor("F7-", 9)
    chk.floor("C-", 3)


# --- engine I (pgverif/oneshot.py): one-shot iterators handed out by the grid accessors are walked once per creation and never memoised.
# Run first so that its reports do not depend on the idiom recognition of the rules above.
_run_before_engine_I = run


def run(chk):  # noqa: F811
    from ..oneshot import attach
    attach(chk, [(U.ADV, {"ParallelGradient"})])
    _run_before_engine_I(chk)
