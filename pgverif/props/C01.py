"""C01 - layout transposes preserve the global field (LayoutHandler).

Decides (DESIGN 5/C01): D1 source intact with a spare buffer, D2 the result lands
in `dest` on every path (field-location flow, route lengths 1..7, shown 2-periodic),
D3 no stale read / clobber, D4 layout book-keeping advances with the data, D5 view
extents, G1 packer/unpacker/buffer-size geometry agreement, G2 communicator and
axis agreement between pack, exchange and unpack, G3 axis-role discipline after the
0<->a0 swap, P1 transposition permutations map source axes onto destination axes.
"""
from __future__ import annotations

import ast

from ..core import src, AnalysisError, parent
from ..resolve import Program, inline_locals, expand
from .. import units as U
from ..bufflow import Interp, State, Tok, Roots, Sym, OPAQUE
from ..geometry import ShapeFlow, canon_product
from .. import permcheck

CLS = "LayoutHandler"
ROUTE_LENGTHS = list(range(1, 8))


def entry_state(buf_given: bool):
    env = {"source": Roots({"source"}), "dest": Roots({"dest"}),
           "buf": Roots({"buf"}) if buf_given else None,
           "source_name": Sym("name", "source_name"), "dest_name": Sym("name", "dest_name"), "self": OPAQUE,
           "<lay_dst>": None, "<lay_src>": None}
    return State(env, Tok(loc="source", layout=Sym("name", "source_name")))


def unwrap(x):
    while isinstance(x, Sym) and x.kind == "layout":
        x = x.arg
    return x


def flow_check(chk, prog, rel, cls, entry="transpose", extra_final=None):
    """run the field-location flow over cls.transpose for buf in {None, given} x route lengths"""
    mod = chk.mod(rel)
    fn = mod.func(f"{cls}.{entry}")
    summary = {}
    n_paths = 0
    for buf_given in (False, True):
        for n in ROUTE_LENGTHS:
            it = Interp(prog, rel, cls, chk, {"nSteps": n}, assume_false={"self._buffer_size == 0"},
                        contract_funcs=("transpose",))
            st = entry_state(buf_given)
            it.stack.append(f"{cls}.{entry}")
            outs = it.run(fn, st, f"{cls}.{entry}")
            for q in it.executed:
                chk.functions.add(f"{rel}:{q}")
            bdesc = "buf given" if buf_given else "buf=None"
            finals = []
            for o in outs:
                t = o.tok
                if "<raises>" in t.assumed:
                    continue
                n_paths += 1
                path = "; ".join(a for a in t.assumed) or "-"
                same = bool(o.env.get("<same-name>"))
                # D3/D4/D5 problems recorded along the path
                for kind, msg, line, construct, fq in t.problems:
                    rule = {"stale-read": "D3-no-stale-read", "clobber": "D3-no-clobber",
                            "layout-bookkeeping": "D4-layout-bookkeeping", "extent": "D5-view-extent"}.get(kind)
                    if rule is None:
                        chk.ob("D0-flow-undecided", None, construct, None, f"{msg} [{bdesc}, route length {n}]",
                               file=rel, func=fq)
                        continue
                    o_ = chk.ob(rule, None, construct, False, f"{msg} [{bdesc}, route length {n}, path: {path}]",
                                file=rel, func=fq)
                    o_.line = line
                # D2 result location
                ok = (t.loc == "dest")
                chk.ob("D2-result-in-dest", fn, f"{cls}.{entry}[{bdesc}; {'route length %d' % n if not same else 'same layout'}; {path}]",
                       ok, "field ends in `dest`" if ok else
                       f"field ends in `{t.loc}`, the caller swaps its buffers assuming `dest` "
                       f"(trace: {[x[1] for x in t.trace][-4:]})", file=rel, func=f"{cls}.{entry}")
                # D4 final layout
                lay = unwrap(t.layout)
                expect = {repr(Sym("name", "dest_name")), repr(Sym("step", n - 1))}
                if same:
                    expect.add(repr(Sym("name", "source_name")))
                okl = repr(lay) in expect
                chk.ob("D4-final-layout", fn, f"{cls}.{entry}[{bdesc}; route length {n}; {path}]", okl,
                       "data is in the destination layout at exit" if okl else
                       f"data is in layout `{lay}` at exit, expected the destination layout", file=rel,
                       func=f"{cls}.{entry}")
                # D1 source intact
                if buf_given:
                    oks = "source" not in t.writes
                    chk.ob("D1-source-intact", fn, f"{cls}.{entry}[{bdesc}; route length {n}; {path}]", oks,
                           "source is not in the write set" if oks else
                           f"`source` is written although a spare buffer was supplied "
                           f"(writes {[x for x in t.trace if 'source' in x[3]][:2]})", file=rel, func=f"{cls}.{entry}")
                if extra_final:
                    extra_final(chk, o, bdesc, n, path, same)
                finals.append((t.loc, tuple(sorted(t.writes)), same, path.replace(str(n), "n")))
            summary[(buf_given, n)] = sorted(set((a, b, c) for a, b, c, d in finals))
    # 2-periodicity of the abstract result in the route length
    for buf_given in (False, True):
        for n in ROUTE_LENGTHS:
            if n >= 2 and n + 2 in ROUTE_LENGTHS:
                ok = summary[(buf_given, n)] == summary[(buf_given, n + 2)]
                chk.ob("D2-periodic", fn, f"{cls}.{entry}[{'buf given' if buf_given else 'buf=None'}; n={n} vs n+2]",
                       ok, "abstract final state depends only on the parity of the route length "
                       "(so the enumerated lengths cover all lengths)" if ok else
                       f"final states differ between route lengths {n} and {n + 2}: {summary[(buf_given, n)]} vs "
                       f"{summary[(buf_given, n + 2)]}", file=rel, func=f"{cls}.{entry}")
    chk.extra.setdefault("flow_paths", 0)
    chk.extra["flow_paths"] += n_paths
    return summary


# --------------------------------------------------------------------------
# small syntax helpers shared by the layout/grid checks (C01-C04)
def clone(node):
    """private copy of a syntax tree (line numbers kept, parent links set inside the copy): rules that need a rewritten
    VIEW of a function work on such a copy, never on the module's own tree"""
    def cp(n):
        if isinstance(n, list):
            return [cp(x) for x in n]
        if not isinstance(n, ast.AST):
            return n
        new = type(n)()
        for f in n._fields:
            if hasattr(n, f):
                setattr(new, f, cp(getattr(n, f)))
        for a in ("lineno", "col_offset", "end_lineno", "end_col_offset"):
            if hasattr(n, a):
                setattr(new, a, getattr(n, a))
        if hasattr(n, "_qual"):
            new._qual = n._qual
        return new
    out = cp(node)
    link(out)
    return out


def link(root, top=None):
    for n in ast.walk(root):
        for ch in ast.iter_child_nodes(n):
            ch._parent = n
    if not hasattr(root, "_parent"):
        root._parent = top
    return root


class ModView:
    """a module in which some functions are replaced by rewritten (behaviour-preserving) views; everything else is the
    module itself.  Engines that take a module (`mod.func(q)`, `mod.rel`) can be run on the views."""

    def __init__(self, mod, views):
        self._mod, self._views = mod, dict(views)
        self.rel = mod.rel

    def func(self, q):
        return self._views.get(q) or self._mod.func(q)

    def __getattr__(self, name):
        return getattr(self._mod, name)


def call_args(call, fndef):
    """parameter name -> argument expression of a call of `fndef` (positional and keyword), or None"""
    params = [a.arg for a in fndef.args.args]
    static = any(isinstance(d, ast.Name) and d.id == "staticmethod" for d in fndef.decorator_list)
    if params and params[0] in ("self", "cls") and not static:
        params = params[1:]
    if any(isinstance(a, ast.Starred) for a in call.args) or len(call.args) > len(params):
        return None
    m = dict(zip(params, call.args))
    for k in call.keywords:
        if k.arg is None or k.arg not in params or k.arg in m:
            return None
        m[k.arg] = k.value
    defaults = dict(zip(params[len(params) - len(fndef.args.defaults):], fndef.args.defaults))
    for p_ in params:
        if p_ not in m and p_ in defaults:
            m[p_] = defaults[p_]
    return m


def xsrc(e, env):
    """source of an expression with the single-assignment locals of its function written out"""
    try:
        return src(expand(e, env))
    except Exception:
        return src(e)


def _xtext(text, env):
    try:
        e = ast.parse(text, mode="eval").body
    except SyntaxError:
        return text
    return xsrc(e, env)


def written_out(sl, env):
    """shape list whose overridden positions and values have their temporaries written out"""
    out = sl.copy()
    out.over = {_xtext(k, env): _xtext(v, env) for k, v in sl.over.items()}
    return out


_LAY = r"(?:layout_source|layout_dest|l1|l2)"
_AX = r"(?:axis\[[012]\]|0)"


def _known_factor(text):
    """is a factor of a block-size product written in the vocabulary the geometry rules understand?"""
    import re
    t = text.replace(" ", "")
    return bool(re.fullmatch(rf"{_LAY}\.(?:max_block_shape|shape|fullShape)\[{_AX}\]", t) or
                re.fullmatch(rf"{_LAY}\.(?:mpi_lengths|mpi_starts)\({_AX}\)\[\w+\]", t) or
                re.fullmatch(rf"{_LAY}\.nprocs\[{_AX}\]", t) or
                re.fullmatch(r"(?:comm|self\._subcomms\[axis\[[012]\]\])\.Get_size\(\)", t) or
                t in ("mpi_size", "nSplits") or re.fullmatch(r"\d+", t))


def _known_product(sl):
    from ..geometry import _split_mul
    import re
    return all(_known_factor(f) for v in sl.over.values() for f in _split_mul(v)) and \
        all(re.fullmatch(_AX, k.replace(" ", "")) for k in sl.over) and \
        bool(re.fullmatch(rf"{_LAY}\.shape", sl.base.replace(" ", "")))


def _defs(fn, name):
    return [n for n in ast.walk(fn) if isinstance(n, ast.Assign) and len(n.targets) == 1 and isinstance(n.targets[0], ast.Name)
            and n.targets[0].id == name]


def alternatives(fn, e, depth=4, guards=()):
    """the values an expression can take where it is used: a local bound by several guarded assignments is replaced by
    each of its definitions.  -> [([factor expressions of the product], [(test, polarity, kind)])]"""
    from ..core import guards_of
    if isinstance(e, ast.Name) and depth > 0:
        ds = _defs(fn, e.id)
        others = [n for n in ast.walk(fn) if isinstance(n, (ast.AugAssign, ast.For, ast.comprehension)) and
                  any(isinstance(x, ast.Name) and x.id == e.id for x in ast.walk(n.target))]
        scaled = [n for n in others if isinstance(n, ast.AugAssign) and isinstance(n.op, ast.Mult) and isinstance(n.target, ast.Name)]
        if ds and len(scaled) == len(others):
            out = []
            for d in ds:
                out += alternatives(fn, d.value, depth - 1, tuple(guards) + tuple(guards_of(d)))
            # `x *= f` under a guard: the value with and without the factor
            for a in scaled:
                more = []
                for fa, ga in out:
                    for fb, gb in alternatives(fn, a.value, depth - 1, tuple(guards_of(a))):
                        more.append((fa + fb, list(ga) + [g for g in gb if g not in ga]))
                out = out + more
            return out
        if ds or others:
            # bound in a way the rule does not follow (loop target, other augmented assignment): an unknown factor
            return [([ast.Name(id=f"<{e.id}: not followed>", ctx=ast.Load())], list(guards))]
    if isinstance(e, ast.BinOp) and isinstance(e.op, ast.Mult):
        out = []
        for fa, ga in alternatives(fn, e.left, depth, guards):
            for fb, gb in alternatives(fn, e.right, depth, ()):
                out.append((fa + fb, list(ga) + [g for g in gb if g not in ga]))
        return out
    return [([e], list(guards))]


def reaching_def(fn, name, at):
    """the assignment `name = expr` that dominates statement `at` with no other binding of `name` in between (searched backwards in
    the block of `at`, then in the enclosing blocks), or None"""
    cur = at
    while cur is not None and cur is not fn:
        par = parent(cur)
        blk = None
        for f in ("body", "orelse", "finalbody"):
            b = getattr(par, f, None)
            if isinstance(b, list) and any(x is cur for x in b):
                blk = b
        if blk is None:
            return None
        idx = [i for i, x in enumerate(blk) if x is cur][0]
        for prev in reversed(blk[:idx]):
            if isinstance(prev, ast.Assign) and len(prev.targets) == 1 and isinstance(prev.targets[0], ast.Name) and prev.targets[0].id == name:
                return prev
            if _stores(prev, name):
                return None
        if isinstance(par, (ast.For, ast.While)) and (_stores(par, name)):
            return None
        cur = par
    return None


def resolve_at(fn, e, at, keep=(), depth=5):
    """expression with the locals replaced by their dominating definitions at statement `at` (names in `keep` stay)"""
    class R(ast.NodeTransformer):
        def visit_Name(self, node):
            if isinstance(node.ctx, ast.Load) and node.id not in keep and depth > 0:
                d = reaching_def(fn, node.id, at)
                if d is not None:
                    return resolve_at(fn, d.value, d, keep, depth - 1)
            return node
    new = ast.parse(ast.unparse(e), mode="eval").body
    return ast.fix_missing_locations(R().visit(new))


# --------------------------------------------------------------------------
# behaviour-preserving rewrites applied to a private copy of a function before rules/engines that read statement shapes
# look at it (the module's own tree is never changed)
def _blocks_of(node):
    for n in ast.walk(node):
        for f in ("body", "orelse", "finalbody"):
            b = getattr(n, f, None)
            if isinstance(b, list) and b and isinstance(b[0], ast.stmt):
                yield n, f, b


def _stores(node, name):
    return any(isinstance(x, ast.Name) and x.id == name and isinstance(x.ctx, (ast.Store, ast.Del)) for x in ast.walk(node))


def _occurs(node, name):
    return any(isinstance(x, ast.Name) and x.id == name for x in ast.walk(node))


def fold_none_tests(fn):
    """`x = None` / `x = tuple(...)` directly followed (no other binding of x in between) by `if x is None:` / `if x is not None:`:
    the test is known, the statement is the arm that is taken"""
    changed = True
    n_done = 0
    while changed:
        changed = False
        for owner, f, blk in list(_blocks_of(fn)):
            for k, st in enumerate(blk):
                if not (isinstance(st, ast.If) and isinstance(st.test, ast.Compare) and len(st.test.ops) == 1
                        and isinstance(st.test.ops[0], (ast.Is, ast.IsNot)) and isinstance(st.test.left, ast.Name)
                        and isinstance(st.test.comparators[0], ast.Constant) and st.test.comparators[0].value is None):
                    continue
                x = st.test.left.id
                known = None
                for j in range(k - 1, -1, -1):
                    prev = blk[j]
                    if isinstance(prev, ast.Assign) and len(prev.targets) == 1 and isinstance(prev.targets[0], ast.Name) and prev.targets[0].id == x:
                        v = prev.value
                        if isinstance(v, ast.Constant) and v.value is None:
                            known = True
                        elif isinstance(v, (ast.Tuple, ast.List, ast.ListComp, ast.Dict)) or \
                                (isinstance(v, ast.Call) and src(v.func) in ("tuple", "list", "slice", "dict", "np.array", "np.empty", "np.zeros")) or \
                                (isinstance(v, ast.Constant) and v.value is not None):
                            known = False
                        break
                    if _stores(prev, x):
                        break
                if known is None:
                    continue
                taken = st.body if (known == isinstance(st.test.ops[0], ast.Is)) else st.orelse
                blk[k:k + 1] = list(taken)
                if not blk:
                    blk.append(ast.copy_location(ast.Pass(), st))
                changed = True
                n_done += 1
                break
            if changed:
                break
    return n_done


def _ends_flow(blk):
    return bool(blk) and isinstance(blk[-1], (ast.Return, ast.Raise, ast.Break, ast.Continue))


def early_return_to_else(fn):
    """at the end of a function `if c: A; return` followed by R is `if c: A else: R` (only for value-less returns, in tail position)"""
    n_done = 0

    def tail(blk):
        nonlocal n_done
        for k, st in enumerate(blk):
            if isinstance(st, ast.If) and st.body and isinstance(st.body[-1], ast.Return) and \
                    (st.body[-1].value is None or (isinstance(st.body[-1].value, ast.Constant) and st.body[-1].value.value is None)) \
                    and k + 1 < len(blk) and not any(isinstance(x, ast.Return) and x is not st.body[-1] for b_ in st.body for x in ast.walk(b_)):
                rest = blk[k + 1:]
                if any(isinstance(x, (ast.FunctionDef, ast.ClassDef)) for x in rest):
                    continue
                del blk[k + 1:]
                st.body = st.body[:-1] or [ast.copy_location(ast.Pass(), st)]
                st.orelse = list(st.orelse) + rest
                n_done += 1
                break
        if blk and isinstance(blk[-1], ast.If):
            tail(blk[-1].body)
            if blk[-1].orelse:
                tail(blk[-1].orelse)
    tail(fn.body)
    return n_done


def duplicate_tail(fn, max_len=4):
    """`if c: A else: B` followed by a short straight-line tail R that reads a name bound in only one of the arms is
    `if c: A; R else: B; R` (in tail position of the function)"""
    n_done = 0

    def tail(blk):
        nonlocal n_done
        for k, st in enumerate(blk):
            rest = blk[k + 1:]
            if not (isinstance(st, ast.If) and rest and len(rest) <= max_len):
                continue
            if not all(isinstance(x, (ast.Assign, ast.Expr, ast.AugAssign, ast.Assert, ast.Pass, ast.Return)) for x in rest):
                continue
            bound_a = {x.id for b_ in st.body for x in ast.walk(b_) if isinstance(x, ast.Name) and isinstance(x.ctx, ast.Store)}
            bound_b = {x.id for b_ in st.orelse for x in ast.walk(b_) if isinstance(x, ast.Name) and isinstance(x.ctx, ast.Store)}
            partial = bound_a ^ bound_b
            if not any(isinstance(x, ast.Name) and isinstance(x.ctx, ast.Load) and x.id in partial for r_ in rest for x in ast.walk(r_)):
                continue
            if k + 1 + len(rest) != len(blk):
                continue
            del blk[k + 1:]
            if not _ends_flow(st.body):
                st.body = list(st.body) + [clone(r_) for r_ in rest]
            if not _ends_flow(st.orelse):
                st.orelse = [x for x in st.orelse if not isinstance(x, ast.Pass)] + [clone(r_) for r_ in rest]
            n_done += 1
            break
        if blk and isinstance(blk[-1], ast.If):
            tail(blk[-1].body)
            if blk[-1].orelse:
                tail(blk[-1].orelse)
    tail(fn.body)
    return n_done


class _RenameFrom(ast.NodeTransformer):
    def __init__(self, old, new):
        self.old, self.new = old, new

    def visit_Name(self, node):
        if node.id == self.old:
            node.id = self.new
        return node


def split_self_updates(fn):
    """`x = f(x)` at the top level of a block that is not inside a loop, x not used after the block: the new value gets a new
    name (x__v2) in the rest of the block.  Engines that forget what they know about x when x is rebound then keep both facts."""
    link(fn)
    n_done = 0
    for owner, f, blk in list(_blocks_of(fn)):
        # not inside a loop
        p, inside_loop = owner, False
        while p is not None and p is not fn:
            if isinstance(p, (ast.For, ast.While)):
                inside_loop = True
            p = getattr(p, "_parent", None)
        if inside_loop or isinstance(owner, (ast.For, ast.While)):
            continue
        for k, st in enumerate(blk):
            if not (isinstance(st, ast.Assign) and len(st.targets) == 1 and isinstance(st.targets[0], ast.Name)):
                continue
            x = st.targets[0].id
            if not any(isinstance(n, ast.Name) and n.id == x for n in ast.walk(st.value)):
                continue
            # x must not be read after this block on any continuation
            live, node, cur_blk = False, owner, blk
            child = None
            while True:
                if child is not None:
                    idx = next((i for i, s_ in enumerate(cur_blk) if s_ is child), None)
                    if idx is not None and any(_occurs(s_, x) for s_ in cur_blk[idx + 1:]):
                        live = True
                        break
                if node is fn or node is None:
                    break
                child = node
                par = getattr(node, "_parent", None)
                cur_blk = None
                if par is not None:
                    for f2 in ("body", "orelse", "finalbody"):
                        b2 = getattr(par, f2, None)
                        if isinstance(b2, list) and any(s_ is node for s_ in b2):
                            cur_blk = b2
                if cur_blk is None:
                    live = True
                    break
                node = par
            if live:
                continue
            new = f"{x}__v{n_done + 2}"
            if any(isinstance(n, ast.Name) and n.id == new for n in ast.walk(fn)):
                continue
            st.targets[0].id = new
            for j in range(k + 1, len(blk)):
                blk[j] = _RenameFrom(x, new).visit(blk[j])
            n_done += 1
    link(fn)
    return n_done


def normal_view(fn):
    """private, behaviour-preserving rewrite of a function: known `is None` tests folded, early `return` turned into `else`, a short
    common tail copied into both arms of the final `if`, `x = f(x)` given a fresh name"""
    v = clone(fn)
    v._parent = getattr(fn, "_parent", None)
    fold_none_tests(v)
    early_return_to_else(v)
    duplicate_tail(v)
    split_self_updates(v)
    ast.fix_missing_locations(v)
    link(v)
    v._parent = getattr(fn, "_parent", None)
    return v


# --------------------------------------------------------------------------
def _block_size_var(flow, prefer="size"):
    """the `x = np.prod(<shape list>)` that is the size of the block the function cuts from its flat buffer: the name used as the
    extent of a cut (`buf[a:a+x]`, `np.split(buf, [x])`), else the reference name"""
    used = []
    for n in ast.walk(flow.fn):
        if isinstance(n, ast.Call) and src(n.func) in ("np.split", "numpy.split") and len(n.args) >= 2 and isinstance(n.args[1], ast.List) \
                and len(n.args[1].elts) == 1 and isinstance(n.args[1].elts[0], ast.Name):
            used.append(n.args[1].elts[0].id)
        if isinstance(n, ast.Subscript) and isinstance(n.slice, ast.Slice) and n.slice.upper is not None:
            up = n.slice.upper
            if isinstance(up, ast.Name):
                used.append(up.id)
            elif isinstance(up, ast.BinOp) and isinstance(up.op, ast.Add):
                used += [x.id for x in (up.left, up.right) if isinstance(x, ast.Name)]
    cands = [u for u in dict.fromkeys(used) if u in flow.prods]
    if len(cands) == 1:
        return cands[0]
    if prefer in flow.prods and (not cands or prefer in cands):
        return prefer
    return None


def _canon(sl, mapping=None):
    return canon_product(sl, mapping or {})


def geometry_check(chk, mod):
    import sympy
    from ..core import increment_of, same_expr
    rel = mod.rel
    QP, QU, QI = "LayoutHandler._extract_from_source", "LayoutHandler._rearrange_from_buffer", "LayoutHandler.__init__"
    pack, unpack, init = mod.func(QP), mod.func(QU), mod.func(QI)
    for q in (QP, QU, QI):
        chk.functions.add(f"{rel}:{q}")
    fp, fu, fi = ShapeFlow(pack), ShapeFlow(unpack), ShapeFlow(init)
    envp, envu = inline_locals(pack), inline_locals(unpack)
    envi = {k: v for k, v in inline_locals(init).items() if k != "axis"}      # `axis[k]` keeps its name: the rules speak about it
    # packer: the block size used to advance through the send buffer; unpacker: the size of the exchanged chunk
    vp, vu = _block_size_var(fp), _block_size_var(fu)
    if vp is None or vu is None:
        where = QP if vp is None else QU
        chk.ob("G1-geometry-pack-vs-unpack", pack if vp is None else unpack, "size = np.prod(<shape list>)", None,
               f"the block size is no longer computed as `np.prod(<list(L.shape) with overridden entries>)` in {where.split('.')[-1]}: "
               "the shape-list comparison cannot be made", file=rel, func=where)
        P = Uu = None
    else:
        slp, slu = written_out(fp.prods[vp][0], envp), written_out(fu.prods[vu][0], envu)
        P, Uu = _canon(slp), _canon(slu)
        # mpi_size is the size of the communicator the exchange runs on
        mpi = envu.get("mpi_size")
        recv = [c for c in ast.walk(unpack) if isinstance(c, ast.Call) and isinstance(c.func, ast.Attribute) and c.func.attr == "Alltoall"]
        comm_of_exchange = src(recv[0].func.value) if len(recv) == 1 else None
        okm, badm = None, None
        if mpi is not None and isinstance(mpi, ast.Call) and isinstance(mpi.func, ast.Attribute) and mpi.func.attr == "Get_size" and not mpi.args:
            who = xsrc(mpi.func.value, envu)
            if comm_of_exchange is not None and who == xsrc(recv[0].func.value, envu):
                okm = True
            elif comm_of_exchange is not None:
                badm = (f"mpi_size is the size of `{who}` but the exchange runs on `{comm_of_exchange}`: the number of blocks that are "
                        "received differs from the number the buffer view and the unpack loop assume")
        elif mpi is None and "mpi_size" not in {n.id for n in ast.walk(unpack) if isinstance(n, ast.Name)}:
            okm = True if comm_of_exchange is not None else None      # written out in place: covered by the product comparison
        chk.pat("G1-mpi-size-is-comm-size", unpack, "mpi_size = comm.Get_size()", okm,
                "mpi_size is the size of the communicator the exchange runs on", badm, file=rel, func=QU)
        msz = sympy.Symbol("comm.Get_size()")
        ok = P[0] == Uu[0] and P[1] == Uu[1] and sympy.expand(P[2] * msz - Uu[2]) == 0
        bad = None
        if not ok and _known_product(slp) and _known_product(slu):
            if P[0] != Uu[0]:
                bad = f"the packer's block is built from `{P[0]}`, the exchanged chunk from `{Uu[0]}`: different local shapes"
            elif P[1] != Uu[1]:
                bad = (f"the packer pads positions {sorted(P[1])} of the block, the unpacker positions {sorted(Uu[1])}: the chunk that is "
                       "exchanged is not (communicator size) x (packed block)")
            else:
                bad = (f"packed block extents {P[2]} x communicator size != exchanged chunk extents {Uu[2]}: sender and receiver "
                       "disagree on the size/padding of a block, elements land in the wrong block")
        chk.pat("G1-geometry-pack-vs-unpack", unpack, "size = np.prod(source_shape)", ok,
                "Alltoall transfer size = (packed block size) x (communicator size), same base layout and overridden axes",
                bad, file=rel, func=QU, facts={"packer": str(P), "unpacker": str(Uu)})
    # the packer advances by exactly one block per destination rank: `start += size` per iteration, or start = k*size
    adv = [increment_of(n) for n in ast.walk(pack) if isinstance(n, (ast.Assign, ast.AugAssign)) and increment_of(n)]
    views = [n for n in ast.walk(pack) if isinstance(n, ast.Subscript) and isinstance(n.slice, ast.Slice) and isinstance(n.value, ast.Name)
             and n.value.id == "tobuffer" and n.slice.lower is not None]
    startv = views[0].slice.lower.id if views and isinstance(views[0].slice.lower, ast.Name) else "start"
    adv = [a for a in adv if a[0] == startv]
    okadv, badadv = None, None
    if vp is not None and len(adv) == 1:
        inc = adv[0][1]
        incx = xsrc(inc, {k: v for k, v in envp.items() if k != vp})
        if incx == vp:
            okadv = True
        elif (isinstance(inc, ast.Name) and inc.id in fp.prods) or ".size" in incx or "max_block_size" in incx:
            badadv = (f"the packer advances by `{src(inc)}` per destination rank, not by the size `{vp}` of the block it has just written: "
                      "the blocks overlap or leave gaps in the send buffer, which the Alltoall cuts into equal chunks of the block size")
    elif vp is not None and not adv:
        sets = [n for n in ast.walk(pack) if isinstance(n, ast.Assign) and src(n.targets[0]) == startv and isinstance(n.value, ast.BinOp)
                and isinstance(n.value.op, ast.Mult)]
        lp_idx = set()
        for lp_ in [n for n in ast.walk(pack) if isinstance(n, ast.For)]:
            if isinstance(lp_.iter, ast.Call) and src(lp_.iter.func) == "range" and isinstance(lp_.target, ast.Name):
                lp_idx.add(lp_.target.id)
            if isinstance(lp_.iter, ast.Call) and src(lp_.iter.func) == "enumerate" and isinstance(lp_.target, ast.Tuple) \
                    and isinstance(lp_.target.elts[0], ast.Name):
                lp_idx.add(lp_.target.elts[0].id)
        if len(sets) == 1 and any(same_expr(sets[0].value, f"{k} * {vp}") for k in lp_idx):
            okadv = True
    chk.pat("G1-packer-advance", pack, "start += size", okadv,
            "the packer advances by one block per destination rank (block k of the send buffer starts at k x block size)", badadv,
            file=rel, func=QP)

    # which per-rank tables the packer and the unpacker read
    def tables(fn_):
        return [n for n in ast.walk(fn_) if isinstance(n, ast.Call) and isinstance(n.func, ast.Attribute)
                and n.func.attr in ("mpi_lengths", "mpi_starts")]
    for fn_, q_, lay_, other_, rule, what, env_ in (
            (pack, QP, "layout_dest", "layout_source", "G1-packer-table",
             "packer splits the source block by the destination layout's lengths/starts along the swapped process axis", envp),
            (unpack, QU, "layout_source", "layout_dest", "G1-unpacker-table",
             "unpacker places each received block by the source layout's lengths/starts along axis[0]", envu)):
        tb = tables(fn_)
        wrong, unknown = [], []
        for n in tb:
            who, arg = xsrc(n.func.value, env_), (xsrc(n.args[0], env_) if len(n.args) == 1 else None)
            if who == lay_ and arg == "axis[0]":
                continue
            if who == other_:
                wrong.append(f"`{src(n)}` reads the table of {other_}: the blocks are cut by {lay_}'s partition")
            elif who == lay_ and arg in ("axis[1]", "axis[2]"):
                wrong.append(f"`{src(n)}` reads the table of layout axis {arg}: the axis that is distributed is the process axis axis[0]")
            else:
                unknown.append(src(n))
        kinds = {n.func.attr for n in tb}
        okt = not wrong and not unknown and kinds == {"mpi_lengths", "mpi_starts"}
        chk.pat(rule, tb[0] if tb else fn_, f"mpi_lengths/mpi_starts of {lay_} along axis[0]", okt, what,
                "; ".join(wrong) or None, file=rel, func=q_)
    # received blocks sit at a uniform, padded stride in the receive buffer (as the packer laid them out), whatever their true length
    envu2 = envu
    lp_r = [n for n in ast.walk(unpack) if isinstance(n, ast.For) and isinstance(n.iter, ast.Call) and src(n.iter.func) == "range"
            and isinstance(n.target, ast.Name)]
    st_b = [n for n in ast.walk(unpack) if isinstance(n, ast.Assign) and src(n.targets[0]).replace(" ", "") == "bufRanges[0]"]
    oko, whyo = None, "offset of the received block in the buffer not recognised"
    if len(st_b) == 1 and lp_r:
        rv = lp_r[0].target.id
        v = st_b[0].value
        for _ in range(3):
            if isinstance(v, ast.Name):
                loc = [n for n in ast.walk(unpack) if isinstance(n, ast.Assign) and src(n.targets[0]) == v.id]
                if len(loc) == 1:
                    v = loc[0].value
                    continue
            break
        if isinstance(v, ast.Call) and src(v.func) == "slice" and len(v.args) == 2:
            a0 = v.args[0]
            for _ in range(3):
                if isinstance(a0, ast.Name):
                    loc = [n for n in ast.walk(unpack) if isinstance(n, ast.Assign) and src(n.targets[0]) == a0.id]
                    if len(loc) == 1:
                        a0 = loc[0].value
                        continue
                break
            try:
                a0x = expand(a0, {k_: v_ for k_, v_ in envu2.items() if k_ != rv})
            except Exception:
                a0x = a0
            if same_expr(a0, f"layout_source.max_block_shape[axis[0]] * {rv}") or \
                    same_expr(a0x, f"layout_source.max_block_shape[axis[0]] * {rv}"):
                oko, whyo = True, "block r of the receive buffer starts at r x (padded block length of the concatenated axis)"
            else:
                t0 = src(a0).replace(" ", "")
                if "mpi_starts" in t0 or (isinstance(a0, ast.Subscript) and isinstance(a0.value, ast.Name) and
                                          any("mpi_starts" in src(n.value) for n in ast.walk(unpack)
                                              if isinstance(n, ast.Assign) and src(n.targets[0]) == a0.value.id)):
                    oko = False
                    whyo = (f"block r is read from the receive buffer at `{src(a0)}`, the start of the block in the UNPADDED partition, but the "
                            "sender packs every block with the padded length max_block_shape[axis[0]]: when the extent is not a multiple of "
                            "the number of processes the blocks are read from the wrong offsets and the field is corrupted")
    chk.ob("G1-unpacker-offset", st_b[0] if st_b else unpack, "bufRanges[0] = slice(r*max_block, r*max_block + length_r)", oko, whyo, file=rel,
           func=QU)
    _bufsize_rules(chk, rel, init, fi, envi, P)
    return fp, fu


def bufsize_rules(chk, mod):
    """the buffer-size rules of LayoutHandler.__init__ on their own (G1-geometry-bufsize, G1-bufsize-max, G1-bufsize-init)"""
    pack, init = mod.func("LayoutHandler._extract_from_source"), mod.func("LayoutHandler.__init__")
    fp, fi = ShapeFlow(pack), ShapeFlow(init)
    vp = _block_size_var(fp)
    P = _canon(written_out(fp.prods[vp][0], inline_locals(pack))) if vp is not None else None
    envi = {k: v for k, v in inline_locals(init).items() if k != "axis"}
    _bufsize_rules(chk, mod.rel, init, fi, envi, P)


def _bufsize_rules(chk, rel, init, fi, envi, P):
    """LayoutHandler.__init__: the advertised size covers (padded block) x (communicator size) of every connected pair"""
    import sympy
    from ..core import same_expr, guards_of
    QI = "LayoutHandler.__init__"
    stores = [n for n in ast.walk(init) if isinstance(n, ast.Assign) and any(src(t) == "self._buffer_size" for t in n.targets)]

    def in_loop(n):
        p = parent(n)
        while p is not None and p is not init:
            if isinstance(p, (ast.For, ast.While)):
                return True
            p = parent(p)
        return False
    first = [n for n in stores if not in_loop(n)]
    sinks = [n for n in stores if in_loop(n)]
    # ---- the candidate value of each sink and whether the update is monotone
    cands = []
    for s_ in sinks:
        v, mono = s_.value, None
        if isinstance(v, ast.Call) and src(v.func) in ("max", "np.maximum", "numpy.maximum") and len(v.args) == 2 and not v.keywords:
            a, b = v.args
            if src(a) == "self._buffer_size":
                v, mono = b, True
            elif src(b) == "self._buffer_size":
                v, mono = a, True
        elif isinstance(v, ast.Call) and src(v.func) in ("min", "np.minimum"):
            mono = False
        else:
            for test, pol, kind in guards_of(s_):
                if kind == "if" and isinstance(test, ast.Compare) and len(test.ops) == 1:
                    l_, r_, op = src(test.left), src(test.comparators[0]), test.ops[0]
                    grows = (l_ == src(v) and r_ == "self._buffer_size" and isinstance(op, (ast.Gt, ast.GtE))) or \
                            (r_ == src(v) and l_ == "self._buffer_size" and isinstance(op, (ast.Lt, ast.LtE)))
                    shrinks = (l_ == src(v) and r_ == "self._buffer_size" and isinstance(op, (ast.Lt, ast.LtE))) or \
                              (r_ == src(v) and l_ == "self._buffer_size" and isinstance(op, (ast.Gt, ast.GtE)))
                    if "self._buffer_size" in (l_, r_):
                        mono = True if (grows and pol) or (shrinks and not pol) else False if (shrinks and pol) or (grows and not pol) else None
                        break
            else:
                if not any("self._buffer_size" in src(t) for t, _, _ in guards_of(s_)) and "self._buffer_size" not in src(v):
                    mono = False          # plain overwrite: the last pair wins
        cands.append((s_, v, mono))
    if not sinks:
        texts = " ".join(xsrc(n.value, envi) for n in stores)
        bad_ = None
        if stores and "Get_size" not in texts and "max_block_shape" not in texts and "nprocs" not in texts:
            bad_ = (f"the advertised buffer size is `{src(stores[-1].value)[:80]}`: it no longer depends on the exchange blocks. One Alltoall "
                    "step needs (padded source block x padded destination block x communicator size) elements, which exceeds the "
                    "largest local block whenever an extent is not a multiple of the number of processes: arrays of exactly "
                    "bufferSize elements are then too small for the transposes")
        chk.pat("G1-geometry-bufsize", stores[-1] if stores else init, "buffsize = np.prod(blockshape) * comm size, per connected pair", False,
                "", bad_, file=rel, func=QI)
        return
    # ---- every value the candidate can take: block product x communicator size
    full, bad, unknown = 0, [], []
    facts = {}
    for s_, v, mono in cands:
        for factors, guards in alternatives(init, v):
            block, comm, rest = None, None, []
            for f in factors:
                fx = expand(f, {k: w for k, w in envi.items() if k not in fi.lists and k not in fi.prods})
                if isinstance(f, ast.Name) and f.id in fi.prods:
                    block = fi.prods[f.id][0]
                elif isinstance(fx, ast.Call) and src(fx.func) in ("np.prod", "numpy.prod", "prod") and len(fx.args) == 1 \
                        and isinstance(fx.args[0], ast.Name) and fx.args[0].id in fi.lists:
                    block = fi.lists[fx.args[0].id]
                elif isinstance(fx, ast.Call) and isinstance(fx.func, ast.Attribute) and fx.func.attr == "Get_size" and not fx.args:
                    comm = src(fx.func.value)
                elif isinstance(fx, ast.Constant) and fx.value == 1:
                    pass
                else:
                    rest.append(src(f))
            if block is None or rest:
                unknown.append(" * ".join(src(f) for f in factors))
                continue
            sl = written_out(block, envi)
            I = canon_product(sl, {"l1": "layout_source", "l2": "layout_dest"})
            facts["init"] = str(I)
            if P is None:
                unknown.append("packer block not extracted")
                continue
            same = I[0] == P[0] and I[1] == P[1] and sympy.expand(I[2] - P[2]) == 0
            padded = bool(I[1])
            if comm is not None:
                if comm.replace(" ", "") != "self._subcomms[axis[0]]":
                    if comm.replace(" ", "") in ("self._subcomms[axis[1]]", "self._subcomms[axis[2]]"):
                        bad.append(f"the block count is the size of `{comm}`: the exchange runs on the communicator of the swapped "
                                   "process axis, self._subcomms[axis[0]]")
                    else:
                        unknown.append(comm)
                    continue
                if same:
                    full += 1
                elif _known_product(sl):
                    bad.append(f"buffer-size block {I} differs from the packer's block {P}: the send buffer the packer fills is larger "
                               "than the advertised size on some rank (and ranks disagree on bufferSize)")
                else:
                    unknown.append(str(I))
            else:
                # without a communicator factor: the arm for `no distributed axis is swapped` (unpadded local block) or a missing factor
                if padded and not same and _known_product(sl):
                    bad.append(f"buffer-size block {I} differs from the packer's block {P}")
    okb = full >= 1 and not bad and not unknown
    diag = None
    if bad:
        diag = "; ".join(dict.fromkeys(bad))
    elif not unknown and full == 0:
        diag = ("no connected pair's block is multiplied by the size of the communicator of the swapped axis: one Alltoall step holds a "
                "padded block for every rank of that communicator, so the advertised size is too small by that factor")
    chk.pat("G1-geometry-bufsize", sinks[0], src(sinks[0])[:100], okb,
            "advertised buffer size = packed block x size of the communicator of the swapped axis", diag, file=rel, func=QI,
            facts=dict(facts, packer=str(P)))
    # ---- monotone maximum over the pairs
    monos = [m for _, _, m in cands]
    okm = all(m is True for m in monos)
    badm = None
    if any(m is False for m in monos):
        s_ = [c[0] for c in cands if c[2] is False][0]
        badm = (f"`{src(s_)[:70]}` does not keep the larger of the old and the new value: the advertised size is that of the last (or the "
                "smallest) connected pair, too small for the transposes of the others")
    chk.pat("G1-bufsize-max", sinks[0], "self._buffer_size = max(...)", okm, "buffer size is the maximum over all compatible pairs", badm,
            file=rel, func=QI)
    # ---- initial value: a local block (covers the single-layout case)
    ok0, bad0 = None, None
    if first:
        t0 = xsrc(first[0].value, envi)
        if ".size" in t0 or "max_block_size" in t0:
            ok0 = True
        elif isinstance(first[0].value, ast.Constant):
            bad0 = (f"the advertised size starts from the constant {first[0].value.value!r}: a handler with a single layout (no connected pair) "
                    "advertises a size that does not cover its own block" +
                    (", and size 0 marks a plot-only rank whose transposes do nothing" if first[0].value.value == 0 else ""))
    chk.pat("G1-bufsize-init", first[0] if first else init, "self._buffer_size initial value", ok0,
            "initialised from a layout's block size (covers the single-layout case)", bad0, file=rel, func=QI, nontrivial=False)


def comm_axis_check(chk, mod):
    """G2: pack, exchange and unpack of one step use the same axis object and the communicator of the swapped axis"""
    rel = mod.rel
    dpk, dup = mod.func("LayoutHandler._extract_from_source"), mod.func("LayoutHandler._rearrange_from_buffer")
    AX = "self._get_swap_axes(layout_source, layout_dest)"
    for q in ("LayoutHandler._transpose", "LayoutHandler._transpose_source_intact"):
        if not mod.has(q):
            chk.ob("G2-comm-axis-agreement", mod.cls(CLS), f"pack/unpack in {q.split('.')[-1]}", None,
                   f"{q} does not exist any more: the single-step routines were restructured", file=rel, func=q)
            continue
        fn = mod.func(q)
        chk.functions.add(f"{rel}:{q}")
        env = inline_locals(fn)
        pks = [c for c in ast.walk(fn) if isinstance(c, ast.Call) and isinstance(c.func, ast.Attribute) and c.func.attr == "_extract_from_source"]
        ups = [c for c in ast.walk(fn) if isinstance(c, ast.Call) and isinstance(c.func, ast.Attribute) and c.func.attr == "_rearrange_from_buffer"]
        what = f"pack/unpack in {q.split('.')[-1]}"
        if len(pks) != 1 or len(ups) != 1:
            chk.ob("G2-comm-axis-agreement", fn, what, None,
                   f"{q} does not call the packer and the unpacker exactly once each any more ({len(pks)}/{len(ups)} calls): the agreement "
                   "of their arguments cannot be compared here", file=rel, func=q)
            continue
        pa, ua = call_args(pks[0], dpk), call_args(ups[0], dup)
        need = ("layout_source", "layout_dest", "axis", "comm")
        if pa is None or ua is None or any(k not in pa or k not in ua for k in need) or "tobuffer" not in pa or "data" not in ua:
            chk.ob("G2-comm-axis-agreement", fn, what, None, "arguments of the pack/unpack calls could not be matched with the parameters",
                   file=rel, func=q)
            continue
        axp, axu = xsrc(pa["axis"], env), xsrc(ua["axis"], env)
        cenv = {k: v for k, v in env.items() if k != "axis"}
        cp_, cu_ = xsrc(pa["comm"], cenv), xsrc(ua["comm"], cenv)
        lay_p = (src(pa["layout_source"]), src(pa["layout_dest"]))
        lay_u = (src(ua["layout_source"]), src(ua["layout_dest"]))
        bad, und = [], []
        if axp != axu:
            bad.append(f"the packer gets the axis triple `{axp}`, the unpacker `{axu}`")
        if lay_p != lay_u:
            bad.append(f"the packer is told the layouts {lay_p}, the unpacker {lay_u}")
        elif lay_p == ("layout_dest", "layout_source"):
            bad.append("source and destination layout are passed in exchanged order")
        elif lay_p != ("layout_source", "layout_dest"):
            und.append(f"layouts {lay_p}")
        if axp == axu:
            a0 = ast.parse(axp, mode="eval").body
            if axp.replace(" ", "") == AX.replace(" ", ""):
                pass
            elif axp.replace(" ", "") == "self._get_swap_axes(layout_dest,layout_source)":
                bad.append("the axis triple is computed for the opposite direction (destination, source): axis[1] and axis[2] exchange roles")
            elif isinstance(a0, ast.Subscript) and isinstance(a0.value, ast.Attribute) and isinstance(a0.value.value, ast.Name) \
                    and a0.value.value.id == "self":
                r = _axis_table(chk, mod, a0)
                if r is True:
                    pass
                elif r:
                    bad.append(r)
                else:
                    und.append(f"axis triple read from `{src(a0.value)}`, whose construction was not recognised")
            else:
                und.append(f"axis triple `{axp}`")
        import re
        if cp_ != cu_:
            bad.append(f"the packer is given the communicator `{cp_}`, the exchange/unpack `{cu_}`")
        else:
            m = re.fullmatch(r"self\._subcomms\[axis\[(\d)\]\]", cp_.replace(" ", ""))
            if m and m.group(1) != "0":
                bad.append(f"the exchange runs on `{cp_}`: axis[{m.group(1)}] is a layout position, the communicator of the swapped "
                           "process axis is self._subcomms[axis[0]]")
            elif not m:
                und.append(f"communicator `{cp_}`")
        ok = not bad and not und
        chk.pat("G2-comm-axis-agreement", fn, what, ok,
                "pack and unpack get the same axis triple, the same (source,dest) layouts, and the communicator of the swapped process axis",
                "; ".join(bad) or None, file=rel, func=q)
        # the unpack reads what the pack wrote: the buffer the packer fills is the send buffer of the exchange
        b1, b2 = xsrc(pa["tobuffer"], env), xsrc(ua["data"], env)
        params = {a.arg for a in fn.args.args}
        okb = b1 == b2
        badb = None
        if not okb and b1 in params and b2 in params:
            badb = (f"the packer fills `{b1}` but the exchange sends `{b2}`: the blocks that are exchanged are not the ones that were packed")
        chk.pat("G2-pack-buffer-is-send-buffer", fn, f"{b1} / {b2}", okb, "the buffer filled by the packer is the send buffer of the exchange",
                badb, file=rel, func=q)


def _axis_table(chk, mod, sub):
    """the axis triple is read from a table `self.T[(source name, dest name)]` filled by the constructor: every entry must hold the
    triple computed for ITS direction.  -> True / diagnosis string / None (not recognised)"""
    attr = src(sub.value)
    key = sub.slice
    if not (isinstance(key, ast.Tuple) and [src(e) for e in key.elts] == ["layout_source.name", "layout_dest.name"]):
        return None
    init = mod.func("LayoutHandler.__init__")
    env = inline_locals(init)
    # (name variable, layout variable) pairs of the constructor's loops
    lay_of = {}
    for n in ast.walk(init):
        if isinstance(n, ast.For):
            for t in ast.walk(n.target):
                if isinstance(t, ast.Tuple) and len(t.elts) == 2 and all(isinstance(e, ast.Name) for e in t.elts):
                    lay_of[t.elts[0].id] = t.elts[1].id
    stores = [n for n in ast.walk(init) if isinstance(n, ast.Assign) and isinstance(n.targets[0], ast.Subscript)
              and src(n.targets[0].value) == attr]
    if not stores:
        return None
    seen = 0
    for s_ in stores:
        k = s_.targets[0].slice
        v = expand(s_.value, env)
        if not (isinstance(k, ast.Tuple) and len(k.elts) == 2 and all(isinstance(e, ast.Name) and e.id in lay_of for e in k.elts)):
            return None
        if not (isinstance(v, ast.Call) and src(v.func) == "self._get_swap_axes" and len(v.args) == 2 and all(isinstance(a, ast.Name) for a in v.args)):
            return None
        want = [lay_of[e.id] for e in k.elts]
        got = [a.id for a in v.args]
        if got == want[::-1] and got != want:
            return (f"`{src(s_)}` stores under the direction ({src(k.elts[0])} -> {src(k.elts[1])}) the axis triple computed for the opposite "
                    f"direction ({got[0]} -> {got[1]}): axis[1] is a position in the source ordering and axis[2] one in the destination "
                    "ordering, so they exchange roles when the direction is reversed - the packer splits and the unpacker places along the wrong axes")
        if got != want:
            return None
        seen += 1
    return True if seen >= 2 else None


def swap_axes_def_check(chk, mod):
    """axis triple of _get_swap_axes matches its documented roles (positions in source/dest orderings)"""
    import re
    rel = mod.rel
    Q = "LayoutHandler._get_swap_axes"
    fn = mod.func(Q)
    chk.functions.add(f"{rel}:{Q}")
    env = inline_locals(fn)
    what = "axis = [i, src.index(dest_dim), dst.index(source_dim)]"
    good = ("axis[0] = swapped process axis, axis[1] = position in the source of the dimension distributed in the "
            "destination, axis[2] = position in the destination of the dimension distributed in the source")
    loops = [n for n in ast.walk(fn) if isinstance(n, ast.For)]
    rets = [n for n in ast.walk(fn) if isinstance(n, ast.Return) and n.value is not None]
    lst = src(rets[0].value) if len(rets) == 1 and isinstance(rets[0].value, ast.Name) else None
    iv = None
    if len(loops) == 1 and isinstance(loops[0].iter, ast.Call) and src(loops[0].iter.func) == "enumerate" and len(loops[0].iter.args) == 1 \
            and isinstance(loops[0].target, ast.Tuple) and len(loops[0].target.elts) == 2 and all(isinstance(e, ast.Name) for e in loops[0].target.elts):
        iv, nv = (e.id for e in loops[0].target.elts)
    if iv is None or lst is None:
        chk.ob("G2-swap-axes-roles", fn, what, None, "the loop over the process-grid directions / the returned list was not recognised",
               file=rel, func=Q)
        return
    # what is added to the list inside the loop, in order: append(x) / extend([x, y]) / lst += [x, y]
    entries, apps, other = [], [], []
    for n in ast.walk(loops[0]):
        if isinstance(n, ast.Call) and isinstance(n.func, ast.Attribute) and src(n.func.value) == lst:
            if n.func.attr == "append" and len(n.args) == 1:
                entries.append((n.lineno, n.col_offset, [n.args[0]]))
                apps.append(n)
            elif n.func.attr == "extend" and len(n.args) == 1 and isinstance(n.args[0], (ast.List, ast.Tuple)):
                entries.append((n.lineno, n.col_offset, list(n.args[0].elts)))
                apps.append(n)
            elif n.func.attr in ("extend", "insert", "pop", "remove", "clear", "__iadd__"):
                other.append(n)
        elif isinstance(n, ast.AugAssign) and src(n.target) == lst:
            if isinstance(n.op, ast.Add) and isinstance(n.value, (ast.List, ast.Tuple)):
                entries.append((n.lineno, n.col_offset, list(n.value.elts)))
                apps.append(n)
            else:
                other.append(n)
    other += [n for n in ast.walk(fn) if isinstance(n, ast.Assign) and any(src(t) == lst for t in n.targets) and
              not (isinstance(n.value, ast.List) and not n.value.elts)]
    entries.sort(key=lambda x: (x[0], x[1]))
    items = [e for _, _, es in entries for e in es]
    xenv = {k: v for k, v in env.items() if k not in (iv, nv, lst)}
    got = [xsrc(e, xenv).replace(" ", "") for e in items]
    want = [iv, f"layout_source.dims_order.index(layout_dest.dims_order[{iv}])", f"layout_dest.dims_order.index(layout_source.dims_order[{iv}])"]
    vocab = re.compile(rf"{iv}|layout_(source|dest)\.dims_order\.index\(layout_(source|dest)\.dims_order\[{iv}\]\)|layout_(source|dest)\.dims_order\[{iv}\]")
    bad, und = [], []
    if other or src(loops[0].iter.args[0]) not in ("self._nprocsList", "self._nprocs"):
        und.append("list construction / loop range")
    if got != want:
        if all(vocab.fullmatch(g) for g in got) and not other:
            if len(got) == 2 and got == want[:2]:
                bad.append("the triple lacks axis[2], the position IN THE DESTINATION ordering of the dimension that is distributed in the source: "
                           "a consumer that addresses the destination view can then only use axis[1], a position in the SOURCE ordering, which is "
                           "the same number only when the two layouts differ by a plain exchange of two axes")
            else:
                bad.append(f"the entries appended are {[xsrc(e, xenv) for e in items]}, expected "
                           f"[{iv}, layout_source.dims_order.index(dest_dim), layout_dest.dims_order.index(source_dim)]: the packer/unpacker "
                           "read them with these roles")
        else:
            und.append(f"appended entries {got}")
    # the guard: a direction counts when it is distributed (n > 1) and carries different dimensions in the two layouts
    gs = [g for c in apps for g in [guards_if(c, loops[0])]]
    okg = None
    for g in gs[:1]:
        conj = sorted(xsrc(x, xenv).replace(" ", "").replace("(", "").replace(")", "") for x in g)
        w1 = f"layout_source.dims_order[{iv}]!=layout_dest.dims_order[{iv}]"
        w1b = f"layout_dest.dims_order[{iv}]!=layout_source.dims_order[{iv}]"
        rest = [c for c in conj if c not in (w1, w1b)]
        if len(conj) == 2 and len(rest) == 1 and rest[0] in (f"{nv}>1", f"1<{nv}", f"{nv}>=2", f"{nv}!=1"):
            okg = True
        elif any(c in (w1.replace("!=", "=="), w1b.replace("!=", "==")) for c in conj):
            okg = False
            bad.append("the guard selects the directions whose dimension is the SAME in both layouts")
    if len({tuple(sorted(src(x) for x in g)) for g in gs}) > 1:
        okg = None
        und.append("the entries are added under different guards")
    if okg is None:
        und.append("guard of the appends")
    ok = not bad and not und
    chk.pat("G2-swap-axes-roles", fn, what, ok, good, "; ".join(bad) or None, file=rel, func=Q)


def guards_if(node, stop):
    """conjuncts of the `if` tests a node is positively control dependent on, up to `stop`"""
    from ..core import guards_of
    out = []
    for test, pol, kind in guards_of(node, stop=stop):
        if kind != "if" or not pol:
            return [ast.Constant(value="<unrecognised guard>")]
        if isinstance(test, ast.BoolOp) and isinstance(test.op, ast.And):
            out += list(test.values)
        else:
            out.append(test)
    return out


def _ignores_extent_one(comp):
    """does LayoutHandler.compatible skip the process-grid directions of extent 1 when it counts the directions whose dimension
    changes?  True / False (every direction counts) / None (not recognised)"""
    loops = [n for n in ast.walk(comp) if isinstance(n, ast.For) and isinstance(n.iter, ast.Call) and src(n.iter.func) == "enumerate"
             and isinstance(n.target, ast.Tuple) and len(n.target.elts) == 2 and isinstance(n.target.elts[1], ast.Name)]
    if len(loops) != 1:
        return None
    nv = loops[0].target.elts[1].id
    conj = []
    for n in ast.walk(loops[0]):
        if isinstance(n, ast.If):
            conj += list(n.test.values) if isinstance(n.test, ast.BoolOp) and isinstance(n.test.op, ast.And) else [n.test]
    about_n = [c for c in conj if any(isinstance(x, ast.Name) and x.id == nv for x in ast.walk(c))]
    if not about_n:
        return False
    if all(src(c).replace(" ", "").replace("(", "").replace(")", "") in (f"{nv}>1", f"1<{nv}", f"{nv}!=1", f"{nv}>=2", f"2<={nv}") for c in about_n):
        return True
    return None


def swap_index_check(chk, mod, fp, fu):
    """G3: after positions 0 and axis[0] of a list were exchanged, a subscript by the
    pre-swap position axis[1] is only valid when axis[1] is neither 0 nor axis[0]."""
    rel = mod.rel
    ignores_extent1 = _ignores_extent_one(mod.func("LayoutHandler.compatible"))
    count = 0
    for q, flow in (("LayoutHandler._extract_from_source", fp), ("LayoutHandler._rearrange_from_buffer", fu)):
        fnode = mod.func(q)
        env = inline_locals(fnode)
        pflow = permcheck.PermFlow(permcheck._Null(), rel, q, fnode, {})
        for lname, k, line, node, swaps in flow.subscripts:
            if not swaps:
                continue
            count += 1
            swapped_pos = set()
            for i, j, _ in swaps:
                swapped_pos |= {i, j}
            literal = k in swapped_pos
            # remap through a list that received the same exchange: P.index(x)
            kexp = expand(node.targets[0].slice, env, depth=1)
            remapped = False
            if isinstance(kexp, ast.Call) and isinstance(kexp.func, ast.Attribute) and kexp.func.attr == "index" \
                    and isinstance(kexp.func.value, ast.Name) and len(kexp.args) == 1:
                pw = pflow.perm.get(kexp.func.value.id)
                arg = src(kexp.args[0])
                t = permcheck.w_sym("t")
                if pw == t and arg == "axis[1]":
                    remapped = True            # position list: looks up a source position
                if pw == permcheck.w_mul(permcheck.w_sym("layout_source"), t) and arg == "layout_source.dims_order[axis[1]]":
                    remapped = True            # dimension list: looks up the dimension at that source position
            if literal or remapped:
                chk.ob("G3-axis-role-after-swap", node, src(node)[:100], True,
                       "subscript uses a post-swap position" if literal else
                       "pre-swap position is mapped through the exchanged ordering before it subscripts the exchanged list",
                       file=rel, func=q, nontrivial=remapped)
                continue
            kx = xsrc(node.targets[0].slice, env).replace(" ", "")
            if kx not in ("axis[1]", "axis[2]"):
                chk.ob("G3-axis-role-after-swap", node, src(node)[:100], None,
                       f"`{lname}` had positions {sorted(swapped_pos)} exchanged and is then subscripted by `{src(node.targets[0].slice)}`: "
                       "whether this is a pre-swap or a post-swap position was not recognised", file=rel, func=q)
                continue
            # k is a pre-swap (source-axis) position
            if ignores_extent1 is None:
                chk.ob("G3-axis-role-after-swap", node, src(node)[:100], None,
                       f"`{lname}` had positions {sorted(swapped_pos)} exchanged, then is subscripted by the pre-swap position `{k}`: whether "
                       "compatible() lets this position coincide with an exchanged one (process-grid directions of extent 1) was not recognised",
                       file=rel, func=q)
                continue
            guarded = not ignores_extent1
            chk.ob("G3-axis-role-after-swap", node, src(node)[:100], guarded,
                   f"`{lname}` had positions {sorted(swapped_pos)} exchanged, then is subscripted by the pre-swap "
                   f"position `{k}`; " + ("compatible() counts every process-grid direction, so `" + k +
                                          "` can coincide with neither exchanged position" if guarded else
                                          "compatible()/_get_swap_axes ignore process-grid directions of extent 1, so `" + k +
                                          "` == 0 != axis[0] is reachable (grid (1,n), e.g. poloidal->flux_surface): "
                                          "the wrong axis of the block is restricted"), file=rel, func=q)
    if count < 2:
        chk.ob("G3-axis-role-after-swap", mod.func("LayoutHandler._extract_from_source"), "subscripts of the exchanged lists", None,
               f"only {count} subscript(s) of a list whose positions 0 and axis[0] were exchanged found in the packer/unpacker "
               "(2 expected): the reordering idiom changed, the rule cannot decide", file=rel, func="LayoutHandler._extract_from_source")
    axis_index_space(chk, mod, fp, fu)


def axis_index_space(chk, mod, fp, fu):
    """G3-axis-index-space: axis[0] is a process axis (the same position in both layouts), axis[1] is a position in the SOURCE
    ordering, axis[2] a position in the DESTINATION ordering: each may only subscript a table of a layout it is a position of"""
    import re
    rel = mod.rel
    allowed = {"0": {"layout_source", "layout_dest"}, "1": {"layout_source"}, "2": {"layout_dest"}}
    n_sites = 0
    for q, flow in (("LayoutHandler._extract_from_source", fp), ("LayoutHandler._rearrange_from_buffer", fu)):
        fn = mod.func(q)
        # lists derived from a layout's shape (flow-insensitive: a name is only counted when all its definitions agree)
        owner = {}
        for n in ast.walk(fn):
            if isinstance(n, ast.Assign) and len(n.targets) == 1 and isinstance(n.targets[0], ast.Name):
                m = re.search(r"\b(layout_source|layout_dest)\.(?:shape|dims_order)\b", src(n.value))
                via = [x.id for x in ast.walk(n.value) if isinstance(x, ast.Name) and x.id in owner]
                o = m.group(1) if m else (owner[via[0]] if len(via) == 1 and isinstance(n.value, (ast.ListComp, ast.Call)) else None)
                nm = n.targets[0].id
                if isinstance(n.value, (ast.ListComp, ast.Call)) and (isinstance(n.value, ast.ListComp) or src(n.value.func) in ("list", "tuple")):
                    owner[nm] = o if nm not in owner or owner[nm] == o else None
        for n in ast.walk(fn):
            k = cont = None
            if isinstance(n, ast.Subscript) and re.fullmatch(r"axis\[[012]\]", src(n.slice).replace(" ", "")):
                k = src(n.slice).replace(" ", "")[5]
                c = n.value
                if isinstance(c, ast.Attribute) and isinstance(c.value, ast.Name) and c.value.id in ("layout_source", "layout_dest") \
                        and c.attr in ("shape", "max_block_shape", "dims_order", "starts", "ends", "nprocs", "fullShape"):
                    cont = c.value.id
                elif isinstance(c, ast.Name) and owner.get(c.id):
                    cont = owner[c.id]
            elif isinstance(n, ast.Call) and isinstance(n.func, ast.Attribute) and n.func.attr in ("mpi_starts", "mpi_lengths") \
                    and len(n.args) == 1 and re.fullmatch(r"axis\[[012]\]", src(n.args[0]).replace(" ", "")) \
                    and isinstance(n.func.value, ast.Name) and n.func.value.id in ("layout_source", "layout_dest"):
                k = src(n.args[0]).replace(" ", "")[5]
                cont = n.func.value.id
            if k is None or cont is None:
                continue
            n_sites += 1
            ok = cont in allowed[k]
            st = n
            while not isinstance(st, ast.stmt):
                st = parent(st)
            role = {"1": "a position in the SOURCE ordering (where the dimension that becomes distributed sits)",
                    "2": "a position in the DESTINATION ordering (where the dimension that was distributed sits)"}.get(k, "")
            chk.ob("G3-axis-index-space", n, src(n)[:80], ok,
                   f"axis[{k}] subscripts a table of {cont}" if ok else
                   f"`{src(n)[:60]}` (in `{src(st)[:70]}`) subscripts a table of {cont} by axis[{k}], which is {role}: the two coincide only when "
                   "the layouts differ by a plain exchange of two axes, otherwise another axis of the block is cut / tested",
                   file=rel, func=q, nontrivial=(k != "0"))
    if n_sites < 6:
        chk.ob("G3-axis-index-space", mod.func("LayoutHandler._extract_from_source"), "tables subscripted by axis[k]", None,
               f"only {n_sites} table subscripts by axis[k] found in the packer/unpacker: the idiom changed", file=rel,
               func="LayoutHandler._extract_from_source")


def run(chk):
    chk.explanation = (
        "Field-location flow over LayoutHandler.transpose and everything it calls (abstract interpretation over "
        "buffer names: which root buffer each view aliases, which buffer holds the field, which layout the data is "
        "in), for buf in {None, given} x route lengths 1..7 (abstract result shown 2-periodic in the length) x all "
        "unresolved branch outcomes; plus symbolic shape-list agreement between buffer sizing, packer and "
        "unpacker, communicator/axis agreement, axis-role discipline after the 0<->axis[0] swap, and "
        "permutation-word typing of every np.transpose. Decides the structural necessary conditions of C01, not "
        "element-level index arithmetic beyond the permutation typing.")
    chk.assumptions += [
        "source, dest, buf are distinct non-overlapping arrays of at least bufferSize elements",
        "numpy view/copy contracts of DESIGN.md section 3 (np.split/basic slicing/reshape/transpose are views)",
        "Alltoall(s, r) reads s and writes r",
        "the route map lists the intermediate layouts ending with the destination (route construction is C06-B4's subject)",
        "not the plot-only rank (self._buffer_size != 0)",
    ]
    mod = chk.mod(U.LAYOUT)
    chk.in_file(U.LAYOUT)
    prog = Program(chk.repo, [U.LAYOUT])
    flow_check(chk, prog, U.LAYOUT, CLS)
    handler_contract(chk, mod)
    chk.floor("D2-result-in-dest", 14)
    chk.floor("D1-source-intact", 7)


def engine(chk, rule, node, what, fn_, *a, file=None, func=None, **k):
    """run an engine-backed rule; when the engine cannot EXTRACT what it needs (AnalysisError) the rule is undecided and the
    remaining rules still run (so that a violation found elsewhere is still reported)"""
    try:
        return fn_(*a, **k)
    except AnalysisError as e:
        chk.ob(rule, node, what, None, f"cannot decide: {e}", file=file, func=func)
        return None


ARRAYS = ("source", "dest", "buf", "data", "tobuffer")


def distinct_buffers(chk, mod, cls=CLS):
    """D1-distinct-buffers: the transposes assume that the arrays they are given do not overlap (pack reads one while it fills the
    other).  No routine may bind one array parameter to another, nor pass the same array for two array parameters of a routine."""
    rel = mod.rel
    meths = {m.name: m for m in mod.cls(cls).body if isinstance(m, ast.FunctionDef)}
    n = 0
    for name, m in meths.items():
        params = [a.arg for a in m.args.args if a.arg in ARRAYS]
        if len(params) < 2:
            continue
        n += 1
        bad = []
        for st in ast.walk(m):
            if isinstance(st, ast.Assign) and len(st.targets) == 1 and isinstance(st.targets[0], ast.Name) and st.targets[0].id in params \
                    and isinstance(st.value, ast.Name) and st.value.id in params and st.value.id != st.targets[0].id:
                bad.append((st, f"`{src(st)}` makes the parameter `{st.targets[0].id}` denote the same array as `{st.value.id}`: every routine below "
                            "assumes source, dest and buf do not overlap - the packer then writes the padded send blocks into the array it is "
                            "still reading, later blocks are built from overwritten data"))
            if isinstance(st, ast.Call) and isinstance(st.func, ast.Attribute) and isinstance(st.func.value, ast.Name) and st.func.value.id == "self" \
                    and st.func.attr in meths:
                cm = call_args(st, meths[st.func.attr])
                if cm is None:
                    continue
                arr = [(k, v.id) for k, v in cm.items() if k in ARRAYS and isinstance(v, ast.Name)]
                seen = {}
                for k, v in arr:
                    if v in seen:
                        bad.append((st, f"`{src(st)[:80]}` passes the array `{v}` both as `{seen[v]}` and as `{k}` of {st.func.attr}: the two are "
                                    "assumed not to overlap (one is read while the other is written)"))
                    seen.setdefault(v, k)
        chk.ob("D1-distinct-buffers", bad[0][0] if bad else m, f"{cls}.{name}: array parameters stay distinct", not bad,
               "no array parameter is bound to another one and no call passes one array for two array parameters" if not bad else
               "; ".join(dict.fromkeys(b for _, b in bad)), file=rel, func=f"{cls}.{name}")
    if n < 3:
        chk.ob("D1-distinct-buffers", mod.cls(cls), f"routines of {cls} with several array parameters", None,
               f"only {n} routines with two or more of the array parameters {ARRAYS} found", file=rel, func=cls)


def handler_contract(chk, mod):
    """the element-placement part of the handler's contract: geometry, axis roles, permutations, read-only route map"""
    distinct_buffers(chk, mod)
    fp, fu = geometry_check(chk, mod)
    comm_axis_check(chk, mod)
    swap_axes_def_check(chk, mod)
    swap_index_check(chk, mod, fp, fu)
    engine(chk, "P1-transpose-permutation", mod.func(f"{CLS}._transpose"), "permutation typing of the handler's array stores",
           permcheck.check_layout_handler, chk, mod, file=U.LAYOUT, func=f"{CLS}._transpose")
    # the cached route map is only read by the transposes
    from .. import lints
    for q in (f"{CLS}.transpose", f"{CLS}._transposeRedirect", f"{CLS}._transposeRedirect_source_intact"):
        if not mod.has(q):
            chk.ob("G2-no-shared-mutation", mod.cls(CLS), f"{q} vs the cached route map", None,
                   f"{q} does not exist any more: the multi-step routines were restructured", file=U.LAYOUT, func=q)
            continue
        f_ = mod.func(q)
        muts = lints.shared_state_mutations(f_, lambda s_: s_.startswith("self._route_map") or s_.startswith("self._layouts") or s_.startswith("self._handlers"))
        chk.ob("G2-no-shared-mutation", f_, f"{q} vs the cached route map", not muts,
               "the route map and layout tables are only read" if not muts else "; ".join(d for _, d in muts) +
               " - the stored route is shortened/changed by a transpose: the next transpose between the same layouts takes a wrong route",
               file=U.LAYOUT, func=q)
    # the Layout objects are shared by every transpose: the packer/unpacker never write through something a Layout hands out
    for q in (f"{CLS}._extract_from_source", f"{CLS}._rearrange_from_buffer", f"{CLS}._transpose", f"{CLS}._transpose_source_intact",
              f"{CLS}._get_swap_axes"):
        if not mod.has(q):
            chk.ob("G2-no-shared-mutation", mod.cls(CLS), f"{q} vs the Layout objects", None, f"{q} does not exist any more", file=U.LAYOUT, func=q)
            continue
        f_ = mod.func(q)
        muts = lints.shared_state_mutations(f_, lambda s_: s_.startswith(("layout_source.", "layout_dest.", "self._layouts", "self._route_map")))
        chk.ob("G2-no-shared-mutation", muts[0][0] if muts else f_, f"{q} vs the Layout objects", not muts,
               "nothing obtained from a Layout (shape, tables, cached slices) is modified" if not muts else "; ".join(d for _, d in muts) +
               " - the Layout object is shared: the next transpose from this layout starts from the modified value",
               file=U.LAYOUT, func=q)
    chk.floor("G1-", 6)
    chk.floor("G3-", 2)
    chk.floor("P1-", 4)
