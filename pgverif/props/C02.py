"""C02 - block decomposition is an exact balanced partition; accessors agree with it."""
from __future__ import annotations

import ast

import sympy as sp

from ..core import src, AnalysisError, parent
from .. import units as U
from ..resolve import inline_locals, expand
from .. import ispace as I
from ..ispace import IS, Ctx, OTHER, eta_grid_tag, G
from .. import lints
from .C01 import geometry_check, clone, xsrc
from .C03 import init_buffer, gather_geometry, coords_follow_comms

Q_INIT = "Layout.__init__"

# symbols of the per-axis computation: extent n, process count p, table index k (0..p), this rank's coordinate R
_n = sp.Symbol("n", integer=True, positive=True)
_p = sp.Symbol("p", integer=True, positive=True)
_k = sp.Symbol("k", integer=True, nonnegative=True)
_R = sp.Symbol("R", integer=True, nonnegative=True)
_q = sp.Symbol("q", integer=True, nonnegative=True)      # n // p
_r = sp.Symbol("r", integer=True, nonnegative=True)      # n % p   (0 <= r < p)


def nf(e):
    """normal form of an integer expression in n, p: n is written q*p + r with 0 <= r < p, integer parts are pulled out of floors"""
    e = sp.sympify(e).subs(_n, _q * _p + _r)
    for _ in range(3):
        e = e.replace(lambda x: isinstance(x, sp.floor), lambda x: sp.floor(sp.expand(x.args[0])))
        e = e.subs(sp.floor(_r / _p), 0)
    return sp.expand(e)


def same(a, b):
    try:
        return sp.simplify(nf(a) - nf(b)) == 0
    except Exception:
        return False


def clearly_different(a, b):
    """the two integer expressions are different functions for a reason the analysis can state: the difference is a non-zero
    expression without floors (a polynomial), or one of them is built with min/max (another distribution of the remainder)"""
    try:
        d = sp.simplify(nf(a) - nf(b))
    except Exception:
        return False
    if d == 0:
        return False
    if not d.has(sp.floor) and not d.has(sp.ceiling):
        return True
    # the special case `p divides n` (r = 0) is a legitimate configuration: a difference that is a non-zero polynomial there is a difference
    try:
        d0 = sp.simplify(d.subs(_r, 0))
        if d0 != 0 and not d0.has(sp.floor) and not d0.has(sp.ceiling) and not d0.has(sp.Min, sp.Max):
            return True
    except Exception:
        pass
    # one side is written with min/max (another distribution of the remainder): different only if a point of the domain shows it
    # (0 <= r < p, 0 <= k <= p, 0 <= R < p, q >= 0): a counterexample in the two FORMULAS, no code is run
    if bool((nf(a).has(sp.Min, sp.Max)) != (nf(b).has(sp.Min, sp.Max))):
        for p_, r_, q_ in ((2, 1, 1), (3, 1, 2), (3, 2, 1), (4, 3, 2)):
            for k_ in range(p_ + 1):
                for R_ in range(p_):
                    try:
                        v = d.subs({_p: p_, _r: r_, _q: q_, _k: k_, _R: R_})
                        v = sp.simplify(v)
                    except Exception:
                        continue
                    if v.is_number and v != 0:
                        return True
    return False


class Tab:
    """a table indexed by k = 0 .. length-1 with entry expr(k)"""

    def __init__(self, expr, length):
        self.expr, self.length = expr, length

    def at(self, i):
        return self.expr.subs(_k, i)

    def __repr__(self):
        return f"[{self.expr} for k < {self.length}]"


class Vec:
    """a per-axis array: `expr` is the entry of the generic axis"""

    def __init__(self, expr):
        self.expr = expr


class Unknown(Exception):
    pass


class WrongForm(Exception):
    pass


class SplitModel:
    """symbolic elaboration of Layout.__init__: which formula fills the per-axis block table and what every stored attribute
    is in terms of that table (no value is computed: the entries are sympy expressions in n, p, k, R)"""

    def __init__(self, fn):
        self.fn = fn
        self.float_ops = []
        self.loop = None
        self.axis = None
        self.env = {}          # local name -> value (sympy / Tab / tuple)
        self.defs = {}         # local name -> defining statement (loop body)
        self.sinks = {}        # 'mpi_starts' | 'mpi_lengths' | 'starts' | 'ends' | 'shape' | 'max_shape' -> (value, node)
        self.after = {}        # attribute -> (value, node) assigned after the loop
        self.problems = []     # (what, message) extraction failures
        self.table = None      # (name, Tab, node)
        self.lists = {}        # expression source -> role 'n' | 'p' | 'R'  (per-axis lists known before the loop)
        self._find_lists()
        self._find_loop()
        if self.loop is not None:
            self._run_body()
            self._run_after()

    # ---------------------------------------------------------------- per-axis lists defined before the loop
    def _find_lists(self):
        fn = self.fn
        env = inline_locals(fn)
        self.pad = {}      # role -> (ok, bad, node)
        for role, target, source, fill in (("p", "self._nprocs", "nprocs", 1), ("R", "myRanks", "myRank", 0)):
            ok, bad, node = None, None, fn
            asg = [n for n in ast.walk(fn) if isinstance(n, ast.Assign) and len(n.targets) == 1 and src(n.targets[0]) == target]
            if asg:
                node = asg[0]
                v = expand(asg[0].value, {k: w for k, w in env.items() if k != target})
                vs = src(v).replace(" ", "")
                # (the constructor asserts len(nprocs) == len(myRank))
                padlen = tuple(f"{a}-len({b})" for a in ("self._ndims", "len(dims_order)") for b in ("nprocs", "myRank"))
                # (b) one expression: the given entries followed by the fill value
                for pl in padlen:
                    for f_ in (fill, 1 - fill):
                        forms = (f"list({source})+[{f_}]*({pl})", f"list({source})+({pl})*[{f_}]", f"[*{source}]+[{f_}]*({pl})",
                                 f"list({source})+[{f_}for_inrange({pl})]")
                        if vs in forms:
                            if f_ == fill:
                                ok = True
                            else:
                                bad = self._fill_diag(role, target, f_)
                # (a) filled with the fill value, then the leading entries overwritten in a loop over the given list
                for f_ in (fill, 1 - fill):
                    if vs in (f"[{f_}]*self._ndims", f"self._ndims*[{f_}]", f"[{f_}]*len(dims_order)"):
                        lp = [n for n in ast.walk(fn) if isinstance(n, ast.For) and isinstance(n.iter, ast.Call)
                              and src(n.iter.func) in ("enumerate", "range")]
                        for l_ in lp:
                            jv = xv = None
                            if src(l_.iter.func) == "enumerate" and src(l_.iter.args[0]) in (source, "nprocs", "myRank") \
                                    and isinstance(l_.target, ast.Tuple) and len(l_.target.elts) == 2:
                                jv, xv = src(l_.target.elts[0]), src(l_.target.elts[1])
                                it = src(l_.iter.args[0])
                            elif src(l_.iter.func) == "range" and src(l_.iter).replace(" ", "") in ("range(len(nprocs))", "range(len(myRank))"):
                                jv, it = src(l_.target), None
                            else:
                                continue
                            for st in l_.body:
                                if isinstance(st, ast.Assign) and src(st.targets[0]).replace(" ", "") == f"{target}[{jv}]":
                                    val = src(st.value).replace(" ", "")
                                    if val == f"{source}[{jv}]" or (it == source and val == xv):
                                        if f_ == fill:
                                            ok = True
                                        else:
                                            bad = self._fill_diag(role, target, f_)
            self.pad[role] = (ok, bad, node)
            self.lists[target] = role
        self.lists["self._full_shape"] = "n"
        fs = [n for n in ast.walk(fn) if isinstance(n, ast.Assign) and len(n.targets) == 1 and src(n.targets[0]) == "self._full_shape"]
        self.full_shape_node = fs[0] if fs else None

    @staticmethod
    def _fill_diag(role, target, f_):
        if role == "p":
            return (f"the axes that are not distributed get {f_} process(es) in `{target}`: an undistributed axis is one block owned by one "
                    "process (count 1); with 0 the block table divides by zero")
        return (f"the axes that are not distributed get the coordinate {f_} in `{target}`: their single block is block 0, coordinate {f_} "
                "reads the table one entry too far")

    # ---------------------------------------------------------------- the per-axis loop
    def _find_loop(self):
        fn = self.fn
        cands = []
        for n in fn.body:
            if isinstance(n, ast.For) and any(isinstance(x, ast.Attribute) and src(x) in ("self._mpi_starts", "self._starts") for x in ast.walk(n)):
                cands.append(n)
        if len(cands) != 1:
            self.problems.append(("loop", f"{len(cands)} per-axis loops filling self._starts / self._mpi_starts found in Layout.__init__ (1 expected)"))
            return
        lp = cands[0]
        it, tg = lp.iter, lp.target
        env = {}
        if isinstance(it, ast.Call) and src(it.func) == "enumerate" and len(it.args) == 1 and isinstance(tg, ast.Tuple) and len(tg.elts) == 2 \
                and isinstance(tg.elts[0], ast.Name):
            self.axis = tg.elts[0].id
            inner, el = it.args[0], tg.elts[1]
            if isinstance(inner, ast.Call) and src(inner.func) == "zip" and isinstance(el, ast.Tuple) and len(el.elts) == len(inner.args):
                pairs = list(zip(inner.args, el.elts))
            else:
                pairs = [(inner, el)]
            for lst, var in pairs:
                role = self.lists.get(src(lst))
                if role is None or not isinstance(var, ast.Name):
                    self.problems.append(("loop", f"the loop runs over `{src(lst)}`, which is not one of the per-axis lists the rule knows"))
                    return
                env[var.id] = {"n": _n, "p": _p, "R": _R}[role]
        elif isinstance(it, ast.Call) and src(it.func) == "range" and len(it.args) == 1 and isinstance(tg, ast.Name) \
                and src(it.args[0]).replace(" ", "") in ("self._ndims", "len(dims_order)", "len(self._nprocs)", "len(self._dims_order)"):
            self.axis = tg.id
        else:
            self.problems.append(("loop", f"loop header `for {src(tg)} in {src(it)}` not recognised"))
            return
        self.loop, self.env = lp, env

    # ---------------------------------------------------------------- expressions
    def ev(self, e):
        ax = self.axis
        if isinstance(e, ast.Constant) and isinstance(e.value, int) and not isinstance(e.value, bool):
            return sp.Integer(e.value)
        if isinstance(e, ast.Name):
            if e.id in self.env:
                return self.env[e.id]
            raise Unknown(f"name `{e.id}`")
        s = src(e).replace(" ", "")
        if s in (f"len(eta_grids[dims_order[{ax}]])", f"len(eta_grids[self._dims_order[{ax}]])", f"self._full_shape[{ax}]"):
            return _n
        if s == f"len(eta_grids[{ax}])":
            raise WrongForm(f"`{src(e)}` is the extent of DIMENSION {ax}, the block table of layout axis {ax} needs the extent of the dimension "
                            f"carried by that axis, len(eta_grids[dims_order[{ax}]])")
        if s == f"self._nprocs[{ax}]":
            return _p
        if s == f"myRanks[{ax}]":
            return _R
        if s in (f"self._mpi_starts[{ax}]", f"self._mpi_lengths[{ax}]", "self._mpi_starts[-1]", "self._mpi_lengths[-1]"):
            # the per-rank table of this axis, appended earlier in the same iteration (entry `ax` = the last one appended)
            key = s.split("[")[0][len("self._"):]
            if key in self.sinks:
                return self.sinks[key][0]
            raise Unknown(f"`{src(e)}` read before it is appended")
        if s in (f"self._starts[{ax}]", f"self._ends[{ax}]", f"self._shape[{ax}]", f"self._max_shape[{ax}]"):
            key = s.split("[")[0][len("self._"):]
            if key in self.sinks:
                return self.sinks[key][0]
            raise Unknown(f"`{src(e)}` read before it is stored")
        if isinstance(e, ast.UnaryOp) and isinstance(e.op, ast.USub):
            return -self.ev(e.operand)
        if isinstance(e, ast.BinOp):
            a, b = self.ev(e.left), self.ev(e.right)
            return self.binop(e, a, b)
        if isinstance(e, ast.IfExp):
            return sp.Piecewise((self.scalar(self.ev(e.body)), self.cond(e.test)), (self.scalar(self.ev(e.orelse)), True))
        if isinstance(e, ast.Subscript):
            base = self.ev(e.value)
            if isinstance(base, Tab):
                sl = e.slice
                if isinstance(sl, ast.Slice):
                    if sl.step is not None:
                        raise Unknown(f"strided slice `{src(e)}`")
                    lo = self.scalar(self.ev(sl.lower)) if sl.lower is not None else sp.Integer(0)
                    hi = self.scalar(self.ev(sl.upper)) if sl.upper is not None else base.length
                    if lo.is_negative:
                        lo = base.length + lo
                    if hi.is_negative:
                        hi = base.length + hi
                    return Tab(base.expr.subs(_k, _k + lo), sp.expand(hi - lo))
                return base.at(self.scalar(self.ev(sl)))
            if isinstance(base, tuple):
                i = self.ev(e.slice)
                if i.is_Integer:
                    return base[int(i)]
            raise Unknown(f"subscript `{src(e)}`")
        if isinstance(e, ast.Tuple):
            return tuple(self.ev(x) for x in e.elts)
        if isinstance(e, (ast.ListComp, ast.GeneratorExp)) and len(e.generators) == 1 and not e.generators[0].ifs \
                and isinstance(e.generators[0].target, ast.Name):
            # [E(r) for r in <table>]: the table of the element expression
            g = e.generators[0]
            it = self.ev(g.iter)
            if isinstance(it, Tab):
                saved = self.env.get(g.target.id, None)
                self.env[g.target.id] = it.expr
                try:
                    el = self.scalar(self.ev(e.elt))
                finally:
                    if saved is None:
                        self.env.pop(g.target.id, None)
                    else:
                        self.env[g.target.id] = saved
                return Tab(el, it.length)
            raise Unknown(f"comprehension over `{src(g.iter)[:40]}`")
        if isinstance(e, ast.Call):
            f = src(e.func)
            args = e.args
            if f in ("np.arange", "numpy.arange", "range") and 1 <= len(args) <= 2 and not e.keywords:
                lo = self.scalar(self.ev(args[0])) if len(args) == 2 else sp.Integer(0)
                hi = self.scalar(self.ev(args[-1]))
                return Tab(_k + lo, sp.expand(hi - lo))
            if f in ("np.array", "numpy.array", "np.asarray", "list", "tuple") and len(args) == 1:
                return self.ev(args[0])
            if f in ("np.diff", "numpy.diff") and len(args) == 1 and not e.keywords:
                t = self.ev(args[0])
                if isinstance(t, Tab):
                    return Tab(sp.expand(t.expr.subs(_k, _k + 1) - t.expr), t.length - 1)
            if f == "divmod" and len(args) == 2:
                a, b = self.scalar(self.ev(args[0])), self.scalar(self.ev(args[1]))
                return (sp.floor(a / b), a - b * sp.floor(a / b))
            if f in ("min", "max", "np.minimum", "np.maximum") and len(args) == 2:
                a, b = self.ev(args[0]), self.ev(args[1])
                op = sp.Min if "min" in f else sp.Max
                if isinstance(a, Tab) or isinstance(b, Tab):
                    a, b, ln = self.align(a, b)
                    return Tab(op(a, b), ln)
                return op(a, b)
            if f in ("int", "np.floor", "math.floor", "np.trunc") and len(args) == 1:
                v = self.ev(args[0])
                self.float_ops.append(src(e)[:50])
                return Tab(sp.floor(v.expr), v.length) if isinstance(v, Tab) else sp.floor(v)
            if f in ("float", "np.float64") and len(args) == 1:
                self.float_ops.append(src(e)[:50])
                return self.ev(args[0])
            if f in ("np.ceil", "math.ceil") and len(args) == 1:
                v = self.ev(args[0])
                self.float_ops.append(src(e)[:50])
                return Tab(sp.ceiling(v.expr), v.length) if isinstance(v, Tab) else sp.ceiling(v)
            if f in ("np.round", "round", "np.rint") and len(args) == 1:
                self.float_ops.append(src(e)[:50])
                raise Unknown(f"rounding `{src(e)[:40]}`")
            if isinstance(e.func, ast.Attribute) and e.func.attr == "astype" and len(args) == 1:
                v = self.ev(e.func.value)
                self.float_ops.append(src(e)[:50])
                return Tab(sp.floor(v.expr), v.length) if isinstance(v, Tab) else sp.floor(v)
            if f == "len" and len(args) == 1:
                t = self.ev(args[0])
                if isinstance(t, Tab):
                    return t.length
        raise Unknown(f"expression `{src(e)[:50]}`")

    def scalar(self, v):
        if isinstance(v, (Tab, tuple, Vec)) or v is None:
            raise Unknown("a table where a number is expected")
        return v

    def align(self, a, b):
        if isinstance(a, Tab) and isinstance(b, Tab):
            if sp.simplify(a.length - b.length) != 0:
                raise Unknown(f"tables of different lengths combined ({a.length} and {b.length})")
            return a.expr, b.expr, a.length
        if isinstance(a, Tab):
            return a.expr, self.scalar(b), a.length
        return self.scalar(a), b.expr, b.length

    def binop(self, e, a, b):
        if isinstance(a, Tab) or isinstance(b, Tab):
            x, y, ln = self.align(a, b)
            return Tab(self.arith(e, x, y), ln)
        return self.arith(e, self.scalar(a), self.scalar(b))

    def arith(self, e, a, b):
        op = e.op
        if isinstance(op, ast.Add):
            return a + b
        if isinstance(op, ast.Sub):
            return a - b
        if isinstance(op, ast.Mult):
            return a * b
        if isinstance(op, ast.FloorDiv):
            return sp.floor(a / b)
        if isinstance(op, ast.Mod):
            return a - b * sp.floor(a / b)
        if isinstance(op, ast.Div):
            self.float_ops.append(f"true division `{src(e)[:50]}`")
            return a / b
        raise Unknown(f"operator in `{src(e)[:40]}`")

    def cond(self, t):
        if isinstance(t, ast.Compare) and len(t.ops) == 1:
            a, b = self.scalar(self.ev(t.left)), self.scalar(self.ev(t.comparators[0]))
            op = t.ops[0]
            rel = {ast.Gt: sp.Gt, ast.Lt: sp.Lt, ast.GtE: sp.Ge, ast.LtE: sp.Le, ast.Eq: sp.Eq, ast.NotEq: sp.Ne}.get(type(op))
            if rel:
                return rel(a, b)
        raise Unknown(f"condition `{src(t)[:40]}`")

    # ---------------------------------------------------------------- statements of the loop body
    def _run_body(self):
        ax = self.axis
        for st in self.loop.body:
            if isinstance(st, ast.Expr) and isinstance(st.value, ast.Constant):
                continue
            try:
                if isinstance(st, ast.Assign) and len(st.targets) == 1:
                    t = st.targets[0]
                    if isinstance(t, ast.Name):
                        self.defs[t.id] = st
                        n0 = len(self.float_ops)
                        v = self.ev(st.value)
                        self.env[t.id] = v
                        continue
                    if isinstance(t, ast.Tuple) and all(isinstance(x, ast.Name) for x in t.elts):
                        for x in t.elts:
                            self.defs[x.id] = st
                        v = self.ev(st.value)
                        if not (isinstance(v, tuple) and len(v) == len(t.elts)):
                            raise Unknown(f"tuple assignment `{src(st)[:50]}`")
                        for x, w in zip(t.elts, v):
                            self.env[x.id] = w
                        continue
                    if isinstance(t, ast.Tuple):
                        # several per-axis entries stored at once: from a tuple of values, or from a slice of the table of that length
                        keys = []
                        for x in t.elts:
                            xs = src(x).replace(" ", "")
                            k_ = [key for key in ("starts", "ends", "shape", "max_shape") if xs == f"self._{key}[{ax}]"]
                            keys.append(k_[0] if k_ else None)
                        v = self.ev(st.value)
                        if None in keys:
                            raise Unknown(f"targets of `{src(st)[:50]}`")
                        if isinstance(v, tuple) and len(v) == len(keys):
                            vals = list(v)
                        elif isinstance(v, Tab) and sp.simplify(v.length - len(keys)) == 0:
                            vals = [v.at(sp.Integer(j)) for j in range(len(keys))]
                        else:
                            raise Unknown(f"`{src(st.value)[:40]}` is not a sequence of {len(keys)} entries")
                        for key, w in zip(keys, vals):
                            self.sinks[key] = (sp.expand(w) if not isinstance(w, (Tab, tuple)) else w, st)
                        continue
                    ts = src(t).replace(" ", "")
                    for key in ("starts", "ends", "shape", "max_shape"):
                        if ts == f"self._{key}[{ax}]":
                            self.sinks[key] = (self.ev(st.value), st)
                            break
                    else:
                        self.problems.append(("stmt", f"store `{src(st)[:60]}` not modelled"))
                    continue
                if isinstance(st, ast.Expr) and isinstance(st.value, ast.Call) and isinstance(st.value.func, ast.Attribute) \
                        and st.value.func.attr == "append" and len(st.value.args) == 1:
                    who = src(st.value.func.value)
                    if who in ("self._mpi_starts", "self._mpi_lengths"):
                        self.sinks[who[len("self._"):]] = (self.ev(st.value.args[0]), st)
                        continue
                self.problems.append(("stmt", f"statement `{src(st)[:60]}` not modelled"))
            except Unknown as u:
                nm = src(st.targets[0]) if isinstance(st, ast.Assign) else src(st)[:40]
                self.problems.append((nm, f"`{src(st)[:70]}`: {u} is outside the fragment the rule can read"))
            except WrongForm as w:
                self.problems.append(("wrong", str(w)))
                self.wrong = getattr(self, "wrong", []) + [(st, str(w))]
        # the table: the Tab of length p+1 the stored slices were cut from
        cands = [(nm, v) for nm, v in self.env.items() if isinstance(v, Tab) and nm in self.defs and v.expr.has(_n)]
        for nm, v in cands:
            # the table the stored slices are cut from: the last such definition that a sink reads
            used = any(any(isinstance(x, ast.Name) and x.id == nm for x in ast.walk(st)) for _, st in self.sinks.values())
            if used or self.table is None:
                self.table = (nm, v, self.defs[nm])
        # ... unless another one is the table of the p+1 block BOUNDARIES and the later ones (lengths, ends) are derived from it: the
        # boundaries are what the partition rules speak about, whatever derived tables the stores read
        names = {nm for nm, _ in cands}
        bounds = [(nm, v) for nm, v in cands if sp.simplify(v.length - (_p + 1)) == 0]
        roots = [(nm, v) for nm, v in cands
                 if not any(isinstance(x, ast.Name) and x.id in names - {nm} for x in ast.walk(self.defs[nm].value))]
        pick = bounds[0] if len(bounds) == 1 else (roots[0] if len(roots) == 1 and not bounds else None)
        if pick is not None:
            self.table = (pick[0], pick[1], self.defs[pick[0]])

    # ---------------------------------------------------------------- statements after the loop (per-axis arrays)
    def _run_after(self):
        fn = self.fn
        idx = fn.body.index(self.loop)
        vec = {}
        for key in ("starts", "ends", "shape", "max_shape"):
            if key in self.sinks and not isinstance(self.sinks[key][0], (Tab, tuple)):
                vec[f"self._{key}"] = Vec(self.sinks[key][0])

        def evv(e):
            s = src(e)
            if s in vec:
                return vec[s]
            if isinstance(e, ast.Name) and e.id in vec:
                return vec[e.id]
            if isinstance(e, ast.BinOp) and isinstance(e.op, (ast.Sub, ast.Add)):
                a, b = evv(e.left), evv(e.right)
                if isinstance(a, Vec) and isinstance(b, Vec):
                    return Vec(a.expr - b.expr if isinstance(e.op, ast.Sub) else a.expr + b.expr)
            if isinstance(e, ast.Call) and src(e.func) in ("tuple", "list", "np.array", "np.asarray", "int", "np.int64") and len(e.args) == 1:
                return evv(e.args[0])
            if isinstance(e, ast.Call) and src(e.func) in ("np.prod", "numpy.prod") and len(e.args) == 1:
                a = evv(e.args[0])
                if isinstance(a, Vec):
                    return ("prod", a.expr)
            if isinstance(e, ast.Call) and isinstance(e.func, ast.Attribute) and e.func.attr == "prod" and not e.args:
                a = evv(e.func.value)
                if isinstance(a, Vec):
                    return ("prod", a.expr)
            return None
        for st in fn.body[idx + 1:]:
            if isinstance(st, ast.Assign) and len(st.targets) == 1:
                t = st.targets[0]
                v = evv(st.value)
                if isinstance(t, ast.Name):
                    if v is not None:
                        vec[t.id] = v
                    else:
                        vec.pop(t.id, None)
                elif isinstance(t, ast.Attribute) and src(t).startswith("self._"):
                    self.after[src(t)] = (v, st)
                    if isinstance(v, Vec):
                        vec[src(t)] = v
                    else:
                        vec.pop(src(t), None)
        self.vec = vec


def split_formula(chk):
    """-> SplitModel of Layout.__init__ (the rules P2-integer-arithmetic, P2-table-shape, P2-partition-endpoints, P2-balanced-form)"""
    fn = chk.func(U.LAYOUT, Q_INIT)
    m = SplitModel(fn)
    kw = dict(file=U.LAYOUT, func=Q_INIT)
    if m.loop is None or m.table is None:
        why = "; ".join(msg for _, msg in m.problems) or "no table of p+1 block boundaries is computed in the per-axis loop"
        wrong = getattr(m, "wrong", [])
        chk.pat("P2-partition-endpoints", wrong[0][0] if wrong else fn, "starts = <table of p+1 block boundaries>", False, "",
                wrong[0][1] if wrong else None, **kw)
        if not wrong:
            chk.obs[-1].msg = "the block table of Layout.__init__ could not be read: " + why
        return m
    name, T, node = m.table
    # ---- integer-only arithmetic (exactness for all n, p must not depend on rounding)
    chain, todo = set(), [name]
    while todo:
        x = todo.pop()
        if x in chain or x not in m.defs:
            continue
        chain.add(x)
        todo += [y.id for y in ast.walk(m.defs[x].value) if isinstance(y, ast.Name)]
    bad = []
    for nm in sorted(chain):
        for x in ast.walk(m.defs[nm].value):
            # ASSUMPTION of the diagnosis: a ROUNDED intermediate result enters further arithmetic or a rounding whose outcome depends
            # on the last bit.  `int(a / b)` / `floor(a / b)` / `(a / b) // 1` of two integer expressions is exact for operands below
            # 2**53 (the quotient is correctly rounded and is not within 1/b of the next integer unless it is one): not reported;
            # int()/astype() of an integer expression are conversions, not roundings
            if isinstance(x, ast.BinOp) and isinstance(x.op, ast.Div):
                par = parent(x)
                direct = isinstance(par, ast.Call) and len(par.args) == 1 and par.args[0] is x and \
                    src(par.func) in ("int", "np.floor", "math.floor", "np.int64", "floor") and \
                    not any(isinstance(y, ast.BinOp) and isinstance(y.op, ast.Div) and y is not x for y in ast.walk(x))
                if not direct:
                    bad.append(f"true division in `{nm} = {src(m.defs[nm].value)}`")
            if isinstance(x, ast.Call) and src(x.func) in ("float", "np.float64", "np.round", "round", "np.rint", "np.ceil", "math.ceil") and x.args \
                    and any(isinstance(y, ast.BinOp) and isinstance(y.op, ast.Div) for y in ast.walk(x)):
                bad.append(f"float round-trip `{src(x)[:50]}` in `{nm}`")
            elif isinstance(x, ast.Call) and src(x.func) in ("float", "np.float64") and x.args:
                bad.append(f"float round-trip `{src(x)[:50]}` in `{nm}`")
    bad = list(dict.fromkeys(bad))
    chk.ob("P2-integer-arithmetic", node, src(node), not bad,
           "the block table is computed with integer operators only (//, %, *, +): exact for every extent and process count"
           if not bad else "; ".join(bad) + " - the table depends on floating-point rounding: for some (n, p) a start index "
           "truncates one too low (gap at the last rank / blocks differing by two)", **kw)
    # ---- the table has p+1 entries for the extent of the dimension carried by the axis
    wrong = getattr(m, "wrong", [])
    dl = sp.simplify(T.length - (_p + 1))
    okshape = dl == 0 and T.expr.has(_n) and not wrong
    # ASSUMPTION (WrongForm): the extent is literally len(eta_grids[<loop counter>]) - the extent of DIMENSION i used for layout AXIS i
    badshape = wrong[0][1] if wrong else None
    # ASSUMPTION of the table-shape / endpoint diagnoses: `T` is the table of block boundaries (not e.g. a table of block lengths from
    # which the starts are accumulated): it has p+1 entries, or the stored per-rank starts are its own leading entries, or the code reads
    # entry `k+1` / the slice `[1:]` of it (the end of block k); otherwise the role of the table is not known: undecided
    ms = m.sinks.get("mpi_starts", (None, None))[0]
    reads_next = any(isinstance(x, ast.Subscript) and isinstance(x.value, ast.Name) and x.value.id == name and
                     ((isinstance(x.slice, ast.Slice) and x.slice.lower is not None and src(x.slice.lower) == "1") or
                      (isinstance(x.slice, ast.BinOp) and isinstance(x.slice.op, ast.Add) and "1" in (src(x.slice.left), src(x.slice.right))))
                     for st_ in m.loop.body for x in ast.walk(st_))
    is_bounds = dl == 0 or (isinstance(ms, Tab) and same(ms.expr, T.expr)) or reads_next
    if badshape is None and dl != 0 and dl.is_number and reads_next:
        badshape = (f"the table has {T.length} entries: p blocks have p+1 boundaries (one start per rank plus the end of the last block); "
                    "the end of the last rank's block / the last length is read beyond the table")
    chk.pat("P2-table-shape", node, "ranks = arange(0, p+1); n = len(eta_grids[dims_order[i]])", okshape,
            "the table has p+1 entries (one boundary per rank plus the end) for the extent of the dimension at axis i", badshape, **kw)
    E = T.expr
    e0, ep = nf(E.subs(_k, 0)), nf(E.subs(_k, _p))
    ok0, okp = e0 == 0, sp.simplify(ep - nf(_n)) == 0

    def closed(x):
        return not x.has(sp.floor) and not x.has(sp.ceiling)
    chk.pat("P2-partition-endpoints", node, "starts[0] == 0", ok0, "the first block starts at 0",
            None if ok0 or not closed(e0) or not is_bounds else f"starts[0] normalises to {e0}: the first block does not start at index 0", **kw)
    chk.pat("P2-partition-endpoints", node, "starts[p] == n", okp, "the last block ends at n (no gap, no overshoot)",
            None if okp or not closed(ep) or not is_bounds or dl != 0 else f"starts[p] normalises to {ep.subs({_q * _p + _r: _n})}, not n = q*p + r: the blocks do not tile [0, n)",
            **kw)
    forms = [_q * _k + sp.floor(_r * _k / _p)]
    bal = any(sp.simplify(nf(E) - f) == 0 for f in forms)
    chk.ob("P2-balanced-form", node, src(node.value), bal if bal else None,
           "starts(k) = floor(n/p) k + floor((n mod p) k / p): consecutive differences are floor(n/p) or floor(n/p)+1 "
           "(monotone, lengths differ by at most one)" if bal else
           f"starts(k) = {E} is not one of the recognised balanced forms", **kw)
    return m


def _cmp(chk, rule, node, construct, got, want, good, what, **kw):
    """three-valued comparison of an extracted symbolic value with what the table prescribes"""
    if got is None:
        chk.ob(rule, node, construct, None, f"{what} could not be read from Layout.__init__ (statement rewritten?)", **kw)
        return
    if same(got, want):
        chk.ob(rule, node, construct, True, good, **kw)
    elif clearly_different(got, want):
        chk.ob(rule, node, construct, False,
               f"{what} is `{got}` but the block table prescribes `{want}`: this rank's starts/ends/shape and the per-rank tables "
               "(mpi_starts/mpi_lengths, used by every transpose to cut and place blocks) describe different partitions", **kw)
    else:
        chk.ob(rule, node, construct, None, f"{what} is `{got}`, which could not be compared with the table entry `{want}`", **kw)


def _body_paths(stmts, limit=64):
    """the ways through the body of the per-axis loop with its `if` statements resolved one way or the other:
    [([(test, polarity)], [simple statements], how the iteration ends: None | 'continue' | 'break' | 'return')]; None beyond `limit`"""
    paths = [([], [], None)]
    for st in stmts:
        live = [p_ for p_ in paths if p_[2] is None]
        done = [p_ for p_ in paths if p_[2] is not None]
        if not live:
            break
        if isinstance(st, ast.If):
            new = []
            for pol, body in ((True, st.body), (False, st.orelse)):
                sub = _body_paths(body, limit)
                if sub is None:
                    return None
                for conds, sofar, _ in live:
                    for c2, s2, e2 in sub:
                        new.append((conds + [(st.test, pol)] + c2, sofar + s2, e2))
            paths = done + new
            if len(paths) > limit:
                return None
        elif isinstance(st, (ast.Continue, ast.Break, ast.Return, ast.Raise)):
            how = {ast.Continue: "continue", ast.Break: "break", ast.Return: "return", ast.Raise: "raise"}[type(st)]
            paths = done + [(c, s_, how) for c, s_, _ in live]
        else:
            paths = done + [(c, s_ + [st], None) for c, s_, _ in live]
    return paths


def per_axis_appends(chk, m):
    """P2-table-per-axis: the per-rank tables are lists with one entry PER AXIS, appended in the per-axis loop and read by axis position
    (mpi_starts(i) / mpi_lengths(i), P2-accessor): every way through one iteration must append exactly one entry to each of them (must-
    write analysis over the paths of the loop body; a path is reported only when a point of the domain n >= p >= 1, 0 <= R < p satisfies
    the tests it assumes)"""
    kw = dict(file=U.LAYOUT, func=Q_INIT)
    rule = "P2-table-per-axis"
    lp = m.loop
    tabs = [k for k in ("mpi_starts", "mpi_lengths") if any(isinstance(c, ast.Call) and isinstance(c.func, ast.Attribute) and c.func.attr == "append"
                                                         and src(c.func.value) == f"self._{k}" for c in ast.walk(lp))]
    if not tabs:
        return          # the tables are not built by appending in this loop: nothing to say here
    paths = _body_paths(lp.body)
    if paths is None:
        chk.ob(rule, lp, "one entry per axis appended to self._mpi_starts / self._mpi_lengths", None, "too many ways through the per-axis loop body", **kw)
        return

    def n_appends(stmts, k):
        return sum(1 for st in stmts for c in ast.walk(st) if isinstance(c, ast.Call) and isinstance(c.func, ast.Attribute) and c.func.attr == "append"
                   and src(c.func.value) == f"self._{k}")
    bad, und = [], []
    for conds, stmts, how in paths:
        if how == "raise":
            continue
        for k in tabs:
            cnt = n_appends(stmts, k)
            if cnt == 1:
                continue
            if any(isinstance(st, (ast.For, ast.While)) and n_appends([st], k) for st in stmts):
                und.append(f"self._{k} is appended inside an inner loop")
                continue
            where = " and ".join(("" if pol else "not ") + "(" + src(t)[:50] + ")" for t, pol in conds) or "every iteration"
            # is the path feasible?  the tests it assumes, read as relations between n, p and R, must hold at some point of the domain
            rels, readable = [], True
            for t, pol in conds:
                try:
                    r_ = m.cond(t)
                    rels.append(r_ if pol else sp.Not(r_))
                except Exception:
                    readable = False
            witness = None
            if readable:
                for p_ in (1, 2, 3):
                    for n_ in range(p_, p_ + 4):
                        for R_ in range(p_):
                            try:
                                if all(bool(r_.subs({_n: n_, _p: p_, _R: R_})) for r_ in rels):
                                    witness = (n_, p_, R_)
                                    break
                            except Exception:
                                pass
                        if witness:
                            break
                    if witness:
                        break
            if witness is None:
                und.append(f"when {where} the iteration appends {cnt} entries to self._{k}; whether that case can occur was not established")
                continue
            bad.append(f"when {where} (e.g. extent {witness[0]} on {witness[1]} process(es)) the iteration " +
                       (f"ends with `{how}` and " if how else "") + f"appends {cnt} entr{'y' if cnt == 1 else 'ies'} to self._{k} instead of one: the list "
                       f"is read by AXIS position (mpi_{k[4:]}(i) returns self._{k}[i]), so the tables of all later axes are shifted and the list is "
                       "shorter/longer than the number of axes - the transposes cut and place blocks with another axis's partition (or IndexError)")
    if bad:
        chk.ob(rule, lp, "one entry per axis appended to self._mpi_starts / self._mpi_lengths", False, "; ".join(dict.fromkeys(bad)), **kw)
    elif und:
        chk.ob(rule, lp, "one entry per axis appended to self._mpi_starts / self._mpi_lengths", None, "cannot decide: " + "; ".join(dict.fromkeys(und)), **kw)
    else:
        chk.ob(rule, lp, "one entry per axis appended to self._mpi_starts / self._mpi_lengths", True,
               f"every way through the loop body ({len(paths)}) appends exactly one entry to each per-rank table", **kw)


def table_structure(chk, m):
    fn = chk.func(U.LAYOUT, Q_INIT)
    kw = dict(file=U.LAYOUT, func=Q_INIT)
    if m.loop is not None:
        per_axis_appends(chk, m)
        # ASSUMPTION of the HOLDS verdicts below: the loop body consists of statements the model reads; anything else is said
        unread = [msg for k_, msg in m.problems if k_ == "stmt"]
        if unread:
            chk.ob("P2-one-table", m.loop, "every statement of the per-axis loop is read", None,
                   "the per-axis loop contains statements the symbolic model does not read (their effect on the tables is not known): " + "; ".join(unread)[:300], **kw)
    if m.loop is not None and m.table is not None:
        name, T, node = m.table
        lp = m.loop

        def tab_sink(key, want_expr, construct, good):
            v, st = m.sinks.get(key, (None, lp))
            if not isinstance(v, Tab):
                chk.ob("P2-one-table", st, construct, None,
                       f"self._{key} entry not read from the loop body" + ("".join("; " + msg for k_, msg in m.problems if key in k_)), **kw)
                return
            if sp.simplify(v.length - _p) != 0:
                okl = False
                chk.ob("P2-one-table", st, construct, False if sp.simplify(v.length - _p).is_number else None,
                       f"the per-rank table self._{key}[axis] has {v.length} entries, one per rank means p", **kw)
                return
            _cmp(chk, "P2-one-table", st, construct, v.expr, want_expr, good, f"entry k of self._{key}[axis]", **kw)
        tab_sink("mpi_starts", T.expr, "self._mpi_starts.append(starts[:-1])", "per-rank starts are the first p table entries")
        tab_sink("mpi_lengths", T.expr.subs(_k, _k + 1) - T.expr, "self._mpi_lengths.append(starts[1:] - starts[:-1])",
                 "per-rank lengths are consecutive differences (telescoping: contiguous, no overlap)")
        for key, want, construct, good in (
                ("starts", T.at(_R), "self._starts[i] = starts[myRanks[i]]", "this rank's start is the table entry of its own coordinate"),
                ("ends", T.at(_R + 1), "self._ends[i] = starts[myRanks[i] + 1]", "this rank's end is the next table entry (same table as the start)")):
            v, st = m.sinks.get(key, (None, lp))
            _cmp(chk, "P2-one-table", st, construct, None if isinstance(v, (Tab, tuple)) else v, want, good, f"self._{key}[axis]", **kw)
        # local extent = end - start (stored per axis in the loop, or as the difference of the two arrays afterwards)
        shp = None
        st = lp
        if "shape" in m.sinks:
            shp, st = m.sinks["shape"]
        elif isinstance(m.after.get("self._shape", (None,))[0], Vec):
            shp, st = m.after["self._shape"][0].expr, m.after["self._shape"][1]
        _cmp(chk, "P2-one-table", st, "self._shape[i] = self._ends[i] - self._starts[i]", shp, T.at(_R + 1) - T.at(_R),
             "local extent = end - start", "the local extent self._shape[axis]", **kw)
        # advertised maximum block length = length of the largest block = ceil(n/p)
        mx, st = m.sinks.get("max_shape", (None, lp))
        okm, badm = None, None
        if mx is not None and not isinstance(mx, (Tab, tuple)):
            g = nf(mx)
            good_forms = [sp.Piecewise((_q + 1, _r > 0), (_q, True)), _q + sp.ceiling(_r / _p), _q - sp.floor(-_r / _p),
                          _q + sp.floor(_r / _p - 1 / _p) + 1, sp.Piecewise((_q, sp.Eq(_r, 0)), (_q + 1, True)),
                          sp.Piecewise((_q + 1, sp.Ne(_r, 0)), (_q, True)), sp.Piecewise((_q + 1, _r >= 1), (_q, True))]
            if any(g == f or sp.simplify(g - f) == 0 for f in good_forms):
                okm = True
            elif sp.simplify(g - _q) == 0:
                # ASSUMPTION: the stored expression normalises exactly to floor(n/p) (resp. floor(n/p)+1) for all n, p
                badm = ("max_block_shape is floor(n/p): when n is not a multiple of p the largest block has floor(n/p)+1 points, the padded "
                        "exchange blocks and the buffers sized from max_block_shape are one slab too small")
            elif sp.simplify(g - _q - 1) == 0:
                badm = ("max_block_shape is floor(n/p)+1 even when p divides n: it no longer is the length of the largest block, so the "
                        "'no padding' tests and the buffer sizes disagree with the partition")
        chk.pat("P2-max-block", st, "max_block_shape = floor(n/p)+1 if n mod p > 0 else floor(n/p)", okm,
                "the advertised maximum block length is the length of the largest block", badm, **kw)
    else:
        chk.ob("P2-one-table", fn, "starts/ends/lengths/shape are slices and differences of one table", None,
               "the block table could not be read (see P2-partition-endpoints)", **kw)
    # ---- attributes derived after the loop
    def after_prod(attr, vec_key, what):
        v, st = m.after.get(attr, (None, fn)) if m.loop is not None else (None, fn)
        want = None
        if m.loop is not None and m.table is not None:
            if vec_key == "shape":
                # the stored local extents (their agreement with the table is P2-one-table's subject)
                if "shape" in m.sinks and not isinstance(m.sinks["shape"][0], (Tab, tuple)):
                    want = m.sinks["shape"][0]
                elif isinstance(m.after.get("self._shape", (None,))[0], Vec):
                    want = m.after["self._shape"][0].expr
            elif "max_shape" in m.sinks and not isinstance(m.sinks["max_shape"][0], (Tab, tuple)):
                want = m.sinks["max_shape"][0]
        ok, bad = None, None
        if isinstance(v, tuple) and v[0] == "prod" and want is not None:
            if same(v[1], want):
                ok = True
            elif clearly_different(v[1], want) or (vec_key == "shape" and "max_shape" in m.sinks and same(v[1], m.sinks["max_shape"][0])):
                # ASSUMPTION: the multiplied per-axis quantity was read symbolically and is provably another function than the one stored for that
                # attribute
                bad = f"`{src(st)[:60]}` multiplies `{v[1]}` per axis, not {what}"
        chk.pat("P2-derived-attributes", st, f"{attr} = np.prod(self._{vec_key})", ok, f"{attr[6:]} = product of {what}", bad, **kw)
    after_prod("self._size", "shape", "the local extents")
    after_prod("self._max_size", "max_shape", "the maximal extents")
    # full shape lists the global extents in layout order
    fs = m.full_shape_node
    okf, badf = None, None
    if fs is not None:
        v = fs.value
        while isinstance(v, ast.Call) and src(v.func) in ("tuple", "list") and len(v.args) == 1:
            v = v.args[0]
        if isinstance(v, (ast.ListComp, ast.GeneratorExp)) and len(v.generators) == 1 and not v.generators[0].ifs \
                and isinstance(v.generators[0].target, ast.Name):
            g = v.generators[0]
            t, it, el = g.target.id, src(g.iter).replace(" ", ""), src(v.elt).replace(" ", "")
            if it in ("dims_order", "self._dims_order") and el == f"len(eta_grids[{t}])":
                okf = True
            elif it in ("range(self._ndims)", "range(len(dims_order))") and el in (f"len(eta_grids[dims_order[{t}]])", f"len(eta_grids[self._dims_order[{t}]])"):
                okf = True
            elif it in ("eta_grids",) and el == f"len({t})" or (it.startswith("range(") and el == f"len(eta_grids[{t}])"):
                # ASSUMPTION: the comprehension literally runs over eta_grids / range(...) with len(eta_grids[t]) as element (no look-up through
                # dims_order anywhere in it)
                badf = (f"`{src(fs)[:70]}` lists the extents in DIMENSION order (eta1, eta2, ...): fullShape must list them in the order of "
                        "this layout's axes, len(eta_grids[d]) for d in dims_order")
    chk.pat("P2-derived-attributes", fs or fn, "self._full_shape = tuple([len(eta_grids[i]) for i in dims_order])", okf,
            "full shape lists the global extents in layout order", badf, **kw)
    # inverse permutation
    from ..core import contains
    oki = contains(fn, "for i, j in enumerate(self._dims_order):\n    self._inv_dims_order[j] = i", vars=("i", "j")) or \
        contains(fn, "for i, j in enumerate(dims_order):\n    self._inv_dims_order[j] = i", vars=("i", "j")) or \
        contains(fn, "self._inv_dims_order = tuple(np.argsort(dims_order))") or contains(fn, "self._inv_dims_order = tuple(np.argsort(self._dims_order))") or \
        contains(fn, "self._inv_dims_order = tuple([self._dims_order.index(i) for i in range(self._ndims)])", vars=("i",)) or \
        any(contains(fn, f"self._inv_dims_order = {w}(sorted(range({n_}), key={k_}))", vars=("i",))
            for w in ("tuple", "list") for n_ in ("self._ndims", "len(dims_order)", "len(self._dims_order)")
            for k_ in ("self._dims_order.__getitem__", "dims_order.__getitem__", "lambda i: self._dims_order[i]", "lambda i: dims_order[i]"))
    badi = None
    if not oki and (contains(fn, "for i, j in enumerate(self._dims_order):\n    self._inv_dims_order[i] = j", vars=("i", "j")) or
                    contains(fn, "for i, j in enumerate(dims_order):\n    self._inv_dims_order[i] = j", vars=("i", "j"))):
        # ASSUMPTION: the loop literally stores inv[i] = j for i, j in enumerate(dims_order)
        badi = "inv_dims_order[i] = dims_order[i] copies the ordering instead of inverting it (inverse: inv[dims_order[i]] = i)"
    chk.pat("P2-derived-attributes", fn, "inv_dims_order[dims_order[i]] = i", oki, "inv_dims_order is the inverse permutation of dims_order",
            badi, **kw)
    okp = m.pad["p"][0] and m.pad["R"][0]
    badp = m.pad["p"][1] or m.pad["R"][1]
    chk.pat("P2-derived-attributes", m.pad["p"][2], "self._nprocs / myRanks padded to all axes", okp,
            "leading axes take the process counts and this rank's coordinates; the others are undistributed (1 process, coordinate 0)",
            badp, **kw)
    # accessor methods return the stored tables
    mod = chk.mod(U.LAYOUT)
    stored = {"_starts", "_ends", "_shape", "_size", "_max_shape", "_max_size", "_full_shape", "_dims_order", "_inv_dims_order", "_nprocs",
              "_mpi_starts", "_mpi_lengths", "_ranks"}
    for prop, attr in (("starts", "_starts"), ("ends", "_ends"), ("shape", "_shape"), ("size", "_size"),
                       ("max_block_shape", "_max_shape"), ("fullShape", "_full_shape"), ("dims_order", "_dims_order"),
                       ("inv_dims_order", "_inv_dims_order"), ("nprocs", "_nprocs"), ("mpi_starts", "_mpi_starts"), ("mpi_lengths", "_mpi_lengths")):
        q = f"Layout.{prop}"
        if not mod.has(q):
            chk.ob("P2-accessor", mod.cls("Layout"), q, None, f"{q} does not exist any more", file=U.LAYOUT, func=q, nontrivial=False)
            continue
        f = mod.func(q)
        env = inline_locals(f)
        rets = [n for n in ast.walk(f) if isinstance(n, ast.Return)]
        want = f"self.{attr}" + ("[i]" if prop.startswith("mpi_") else "")
        ok, bad = None, None
        if len(rets) == 1 and rets[0].value is not None:
            got = xsrc(rets[0].value, env)
            arg = f.args.args[1].arg if prop.startswith("mpi_") and len(f.args.args) == 2 else "i"
            if got == want.replace("[i]", f"[{arg}]"):
                ok = True
            else:
                base = rets[0].value
                while isinstance(base, ast.Subscript):
                    base = base.value
                if isinstance(base, ast.Attribute) and isinstance(base.value, ast.Name) and base.value.id == "self" and base.attr in stored \
                        and base.attr != attr:
                    # ASSUMPTION: the single return expression is (a subscript of) another STORED table of the layout
                    bad = f"Layout.{prop} returns `{got}`, the table `self.{base.attr}`, not `self.{attr}`"
        chk.pat("P2-accessor", f, q, ok, f"returns {want}", bad, file=U.LAYOUT, func=q, nontrivial=False)


def grid_accessors(chk):
    mod = chk.mod(U.GRID)
    attrs = {"_layout": ("layout", None, None), "_Vals": eta_grid_tag(), "_splines": I.DimList([OTHER] * 4),
             "_nGlobalCoords": I.DimList([("size", G(d)) for d in range(4)]), "_f": OTHER}
    n_obs = 0
    for m in ("getCoords", "getEta", "getCoordVals", "getGlobalIdxVals", "getGlobalIndices", "get2DSlice", "get1DSlice",
              "get2DSpline", "get1DSpline", "getSpline", "getMin", "getMax", "getBlockForFig", "writeH5Dataset", "loadFromFile"):
        if not mod.has(f"Grid.{m}"):
            # the five local-to-global accessors the property names must be there; the other typed methods are checked where they exist
            if m in ("getCoords", "getEta", "getCoordVals", "getGlobalIdxVals", "getGlobalIndices"):
                chk.ob("C-sort", mod.cls("Grid"), f"Grid.{m}", None, f"Grid.{m} does not exist any more: its index-space typing cannot be done",
                       file=U.GRID, func=f"Grid.{m}")
            continue
        fn = chk.func(U.GRID, f"Grid.{m}")
        env = {a.arg: ("param", a.arg) for a in fn.args.args if a.arg != "self"}
        if fn.args.vararg:
            env[fn.args.vararg.arg] = OTHER
        try:
            a = IS(chk, U.GRID, f"Grid.{m}", fn, env, Ctx(dist_dims=None), dict(attrs))
            a.run()
            n_obs += a.nobs
        except AnalysisError as e:
            chk.ob("C-sort", fn, f"Grid.{m}", None, f"index-space typing of Grid.{m} cannot be done: {e}", file=U.GRID, func=f"Grid.{m}")
    # G-attr: every self.X read in Grid is defined somewhere in the class
    reads, defined = lints.undefined_self_attrs(mod, "Grid")
    # ASSUMPTION of `read but never defined`: every place that can define an attribute of a Grid was looked at.  Not so when the
    # class inherits from a class of another module, defines __getattr__/__getattribute__/__slots__, fills self.__dict__ / vars(self),
    # or declares the attribute at class level with an annotation: then the read is undecided, not a violation
    gcls = mod.cls("Grid")
    foreign = [src(b) for b in gcls.bases if src(b) != "object" and not mod.has(src(b).split(".")[-1])]
    dynamic = any(isinstance(st_, ast.FunctionDef) and st_.name in ("__getattr__", "__getattribute__", "__setattr__") for st_ in gcls.body) or \
        any(isinstance(x, ast.Attribute) and x.attr == "__dict__" for x in ast.walk(gcls)) or \
        any(isinstance(x, ast.Call) and src(x.func) == "vars" for x in ast.walk(gcls)) or bool(gcls.decorator_list)
    declared = {st_.target.id for st_ in gcls.body if isinstance(st_, ast.AnnAssign) and isinstance(st_.target, ast.Name)}
    if foreign or dynamic:
        for meth, node in reads[:1]:
            chk.ob("G1-attribute-defined", node, f"self.{node.attr} in Grid.{meth.name}", None,
                   f"`self.{node.attr}` has no definition in this module, but Grid " +
                   (f"inherits from `{foreign[0]}`, which is defined elsewhere" if foreign else "defines its attributes dynamically") +
                   ": where its attributes come from was not followed", file=U.GRID, func=f"Grid.{meth.name}")
        reads = []
    # possible reads of an undefined attribute that the lint could not establish: undecided, never silent
    seen_u = set()
    for meth, node, why_ in getattr(reads, "undecided", ()):
        key = (meth.name, getattr(node, "attr", src(node)))
        if key in seen_u:
            continue
        seen_u.add(key)
        chk.ob("G1-attribute-defined", node, f"self.{key[1]} in Grid.{meth.name}", None,
               f"`self.{key[1]}` may be read before any code defines it, which could not be established: {why_}",
               file=U.GRID, func=f"Grid.{meth.name}")
    reads = [(meth, node) for meth, node in reads if node.attr not in declared]
    seen = set()
    for meth, node in reads:
        key = (meth.name, node.attr)
        if key in seen:
            continue
        seen.add(key)
        # ASSUMPTION (checked above): every place that can define an attribute of Grid was looked at (no foreign base class, no dynamic attribute
        # definition, no class-level declaration)
        chk.ob("G1-attribute-defined", node, f"self.{node.attr} in Grid.{meth.name}", False,
               f"`self.{node.attr}` is read but no code defines it: every call of Grid.{meth.name} raises AttributeError",
               file=U.GRID, func=f"Grid.{meth.name}")
    chk.ob("G1-attribute-defined", mod.cls("Grid"), "all self.X reads of Grid", not reads,
           f"{len(defined)} attributes defined; every read attribute has a definition" if not reads else
           f"{len(seen)} undefined attribute read(s)", file=U.GRID, func="Grid", nontrivial=False)
    derived_state(chk)
    # getGlobalIndices: local index of axis i + start of axis i, stored at the dimension of axis i
    from ..core import contains as _contains, same_expr as _same
    global_indices_rule(chk)
    # getGlobalIdxVals = range(start, end) of the same axis
    fn = chk.func(U.GRID, "Grid.getGlobalIdxVals")
    r = [n for n in ast.walk(fn) if isinstance(n, ast.Return)]
    ok = len(r) == 1 and _same(r[0].value, "range(self._layout.starts[i], self._layout.ends[i])")
    bad = None
    if not ok and len(r) == 1:
        # the same range with its temporaries written out
        rv = expand(r[0].value, inline_locals(fn))
        ok = _same(rv, "range(self._layout.starts[i], self._layout.ends[i])")
        # ASSUMPTION of the diagnosis: both bounds are written with the layout's own tables (self._layout.starts/ends/shape) and the
        # parameter only; a bound read from another attribute (a cache of the ranges, a property) is not compared here: undecided
        params = {a.arg for a in fn.args.args}

        def plain(e):
            for x in ast.walk(e):
                if isinstance(x, ast.Attribute) and isinstance(x.value, ast.Name) and x.value.id == "self" and x.attr != "_layout":
                    return False
                if isinstance(x, ast.Attribute) and src(x.value) == "self._layout" and x.attr not in ("starts", "ends", "shape"):
                    return False
                if isinstance(x, ast.Name) and x.id not in params and x.id != "self":
                    return False
                if isinstance(x, (ast.Call, ast.Starred, ast.IfExp, ast.Lambda)):
                    return False
            return True
        if not ok and isinstance(rv, ast.Call) and src(rv.func) == "range" and len(rv.args) == 2 and not rv.keywords and all(plain(a) for a in rv.args):
            bad = f"`{src(r[0].value)}` is not the range [starts[i], ends[i]) of the axis asked for"
    chk.pat("C-sort", fn, "range(starts[i], ends[i])", ok, "global indices of the local block along axis i", bad,
            file=U.GRID, func="Grid.getGlobalIdxVals")
    return n_obs


# ------------------------------------------------------------------ getGlobalIndices, read as a list indexed through a permutation
class PerAxis:
    """a sequence whose entry k is f(w(k)): f an expression in the layout-axis number `a`, w a word over the layout's ordering
    L = dims_order (position -> dimension) and its inverse (identity word: the sequence is indexed by the layout axis)"""

    def __init__(self, f, w):
        self.f, self.w = f, w


class PermList:
    """dims_order (word L) / inv_dims_order (word L^-1) / range(n) (identity)"""

    def __init__(self, w):
        self.w = w


class Elem:
    """the scalar f(w(k)) inside a loop or comprehension whose counter is k"""

    def __init__(self, f, w):
        self.f, self.w = f, w


class Idx:
    """the number w(k) inside a loop or comprehension whose counter is k"""

    def __init__(self, w):
        self.w = w


class _NoRead(Exception):
    pass


def global_indices_rule(chk):
    """Grid.getGlobalIndices(*indices): local indices are given per layout AXIS; the result lists the global index per DIMENSION:
    result[d] = indices[inv_dims_order[d]] + starts[inv_dims_order[d]].  The function body is read as operations on sequences
    indexed through a permutation (scatter through dims_order == gather through inv_dims_order), whatever loop/comprehension/numpy form
    it is written in."""
    from ..permcheck import w_id, w_sym, w_inv, w_mul, w_str
    fn = chk.func(U.GRID, "Grid.getGlobalIndices")
    a = sp.Symbol("a", integer=True)
    IND, TAB = sp.Function("indices"), {k: sp.Function(k) for k in ("starts", "ends", "shape")}
    L = w_sym("L")
    rule, what = "C-sort", "result[dims_order[i]] = indices[i] + starts[i]"
    good = "the local index along axis i plus the start of axis i is stored at the dimension carried by axis i"
    env = {}
    if fn.args.vararg is not None:
        env[fn.args.vararg.arg] = PerAxis(IND(a), w_id())
    else:
        for x in fn.args.args[1:2]:
            env[x.arg] = PerAxis(IND(a), w_id())
    lay_alias = {"self._layout"}

    def ev(e, env):
        t = src(e)
        if isinstance(e, ast.Name):
            if e.id in env:
                return env[e.id]
            raise _NoRead(f"name `{e.id}`")
        if isinstance(e, ast.Attribute) and src(e.value) in lay_alias:
            if e.attr in TAB:
                return PerAxis(TAB[e.attr](a), w_id())
            if e.attr == "dims_order":
                return PermList(L)
            if e.attr == "inv_dims_order":
                return PermList(w_inv(L))
            raise _NoRead(f"`{t}`")
        if isinstance(e, ast.Constant) and isinstance(e.value, int):
            return sp.Integer(e.value)
        if isinstance(e, ast.Call):
            f = src(e.func)
            if f in ("list", "tuple", "np.array", "np.asarray", "numpy.array", "numpy.asarray") and len(e.args) == 1:
                return ev(e.args[0], env)
            if f == "range" and len(e.args) == 1:
                return PermList(w_id())
            raise _NoRead(f"call `{t[:40]}`")
        if isinstance(e, ast.BinOp) and isinstance(e.op, ast.Add) and isinstance(e.left, ast.Name) and isinstance(env.get(e.left.id), PerAxis):
            # `R + list(indices[len(R):])`: the entries beyond the layout's axes are handed through untouched (as `result = list(indices)`
            # followed by a scatter leaves them): the statement about the first len(R) entries is the one about R
            r_ = e.right
            while isinstance(r_, ast.Call) and src(r_.func) in ("list", "tuple") and len(r_.args) == 1:
                r_ = r_.args[0]
            if isinstance(r_, ast.Subscript) and isinstance(r_.slice, ast.Slice) and r_.slice.upper is None and r_.slice.step is None \
                    and r_.slice.lower is not None and src(r_.slice.lower).replace(" ", "") == f"len({e.left.id})" \
                    and isinstance(r_.value, ast.Name) and isinstance(env.get(r_.value.id), PerAxis) \
                    and env[r_.value.id].f == IND(a) and env[r_.value.id].w == w_id():
                return env[e.left.id]
        if isinstance(e, ast.BinOp) and isinstance(e.op, (ast.Add, ast.Sub)):
            x, y = ev(e.left, env), ev(e.right, env)
            for cls_ in (Elem, PerAxis):
                if isinstance(x, cls_) and isinstance(y, cls_):
                    if x.w != y.w:
                        raise _NoRead(f"`{t[:50]}` combines entries taken through different orderings ({w_str(x.w)} and {w_str(y.w)})")
                    return cls_(x.f + y.f if isinstance(e.op, ast.Add) else x.f - y.f, x.w)
            raise _NoRead(f"`{t[:50]}`")
        if isinstance(e, ast.Subscript):
            base, k = ev(e.value, env), None
            sl = e.slice
            key = ev(sl, env)
            if isinstance(base, PerAxis) and isinstance(key, Idx):
                return Elem(base.f, w_mul(base.w, key.w))
            if isinstance(base, PermList) and isinstance(key, Idx):
                return Idx(w_mul(base.w, key.w))
            if isinstance(base, PerAxis) and isinstance(key, PermList):
                return PerAxis(base.f, w_mul(base.w, key.w))          # fancy indexing: a gather
            raise _NoRead(f"subscript `{t[:50]}`")
        if isinstance(e, (ast.ListComp, ast.GeneratorExp)) and len(e.generators) == 1 and not e.generators[0].ifs:
            g = e.generators[0]
            env2 = dict(env)
            bind_iter(g.target, g.iter, env2)
            r = ev(e.elt, env2)
            if isinstance(r, Elem):
                return PerAxis(r.f, r.w)
            raise _NoRead(f"element `{src(e.elt)[:40]}` of the comprehension")
        raise _NoRead(f"`{t[:50]}`")

    def bind_iter(target, it, env):
        """bind the targets of `for target in it` for the generic iteration k"""
        if isinstance(it, ast.Call) and src(it.func) == "enumerate" and len(it.args) == 1 and isinstance(target, ast.Tuple) and len(target.elts) == 2:
            if not isinstance(target.elts[0], ast.Name):
                raise _NoRead("loop header")
            env[target.elts[0].id] = Idx(w_id())
            bind_iter(target.elts[1], it.args[0], env)
            return
        if isinstance(it, ast.Call) and src(it.func) == "zip" and isinstance(target, ast.Tuple) and len(target.elts) == len(it.args):
            for t_, s_ in zip(target.elts, it.args):
                bind_iter(t_, s_, env)
            return
        if not isinstance(target, ast.Name):
            raise _NoRead("loop header")
        v = ev(it, env)
        if isinstance(v, PermList):
            env[target.id] = Idx(v.w)
        elif isinstance(v, PerAxis):
            env[target.id] = Elem(v.f, v.w)
        else:
            raise _NoRead(f"iteration over `{src(it)[:40]}`")

    result, why = None, None
    try:
        for st in fn.body:
            if isinstance(st, ast.Expr) and isinstance(st.value, ast.Constant):
                continue
            if isinstance(st, ast.Assign) and len(st.targets) == 1 and isinstance(st.targets[0], ast.Name):
                if src(st.value) == "self._layout":
                    lay_alias.add(st.targets[0].id)
                    continue
                env[st.targets[0].id] = ev(st.value, env)
                continue
            if isinstance(st, ast.Assign) and len(st.targets) == 1 and isinstance(st.targets[0], ast.Subscript) \
                    and isinstance(st.targets[0].value, ast.Name):
                # R[P] = X : a scatter through the permutation P
                key, val = ev(st.targets[0].slice, env), ev(st.value, env)
                if isinstance(key, PermList) and isinstance(val, PerAxis):
                    env[st.targets[0].value.id] = PerAxis(val.f, w_mul(val.w, w_inv(key.w)))
                    continue
                raise _NoRead(f"store `{src(st)[:50]}`")
            if isinstance(st, ast.For) and not st.orelse and len(st.body) == 1 and isinstance(st.body[0], ast.Assign) \
                    and len(st.body[0].targets) == 1 and isinstance(st.body[0].targets[0], ast.Subscript) \
                    and isinstance(st.body[0].targets[0].value, ast.Name):
                env2 = dict(env)
                bind_iter(st.target, st.iter, env2)
                b_ = st.body[0]
                key, val = ev(b_.targets[0].slice, env2), ev(b_.value, env2)
                if isinstance(key, Idx) and isinstance(val, Elem):
                    # R[p(k)] = f(w(k)) for every k: R[j] = f(w(p^-1(j)))
                    env[b_.targets[0].value.id] = PerAxis(val.f, w_mul(val.w, w_inv(key.w)))
                    continue
                raise _NoRead(f"store `{src(b_)[:50]}`")
            if isinstance(st, ast.Return) and st.value is not None:
                result = ev(st.value, env)
                break
            raise _NoRead(f"statement `{src(st)[:50]}`")
    except _NoRead as e:
        why = str(e)
    ok, bad = None, None
    if isinstance(result, PerAxis):
        want_f = IND(a) + TAB["starts"](a)
        if sp.simplify(result.f - want_f) != 0:
            # ASSUMPTION: the whole body was read as operations on sequences indexed through dims_order / inv_dims_order (any construct outside that
            # fragment raises _NoRead: undecided)
            bad = (f"entry of the result is `{result.f}` of a layout axis a, not the local index plus the start of that axis "
                   "(indices(a) + starts(a))")
        elif result.w == w_inv(L):
            ok = True
        else:
            bad = (f"entry d of the result is the global index of layout axis {w_str(result.w)}(d) (L = dims_order), but dimension d is carried "
                   "by axis inv_dims_order[d] = L^-1(d): scattering through dims_order is gathering through inv_dims_order, not through dims_order. "
                   "The two agree only for orderings that are their own inverse (identity, one exchange of two axes); for any other ordering "
                   "the global indices of different dimensions are exchanged")
    o = chk.pat(rule, fn, what, ok, good, bad, file=U.GRID, func="Grid.getGlobalIndices")
    if not ok and not bad:
        o.msg = "Grid.getGlobalIndices could not be read as a sequence indexed through dims_order: " + (why or "no returned sequence")


class _AliasToAttr(ast.NodeTransformer):
    def __init__(self, name, attr_src):
        self.name, self.attr_src = name, attr_src

    def visit_Name(self, node):
        if node.id == self.name and isinstance(node.ctx, ast.Load):
            new = ast.parse(self.attr_src, mode="eval").body
            for x in ast.walk(new):
                ast.copy_location(x, node)
            return new
        return node


def attr_alias_view(cls, attr):
    """copy of a class in which, after `self.<attr> = x` (x a local name), the following reads of `x` in the same block are written
    `self.<attr>` (both denote the same object until one of them is rebound): what is computed from the local is computed from the attribute"""
    c = clone(cls)
    a_src = f"self.{attr}"
    for m in [st for st in c.body if isinstance(st, ast.FunctionDef)]:
        for node in ast.walk(m):
            for f in ("body", "orelse", "finalbody"):
                blk = getattr(node, f, None)
                if not (isinstance(blk, list) and blk and isinstance(blk[0], ast.stmt)):
                    continue
                for k, st in enumerate(blk):
                    if isinstance(st, ast.Assign) and len(st.targets) == 1 and src(st.targets[0]) == a_src and isinstance(st.value, ast.Name):
                        x = st.value.id
                        for j in range(k + 1, len(blk)):
                            nxt = blk[j]
                            rebinds = any((isinstance(n, ast.Name) and n.id == x and isinstance(n.ctx, ast.Store)) or
                                          (isinstance(n, ast.Attribute) and src(n) == a_src and isinstance(n.ctx, ast.Store)) for n in ast.walk(nxt))
                            if isinstance(nxt, (ast.Assign, ast.Expr, ast.Return, ast.AugAssign, ast.Assert)):
                                # the value is evaluated before the targets are bound
                                if isinstance(nxt, ast.Assign):
                                    nxt.value = _AliasToAttr(x, a_src).visit(nxt.value)
                                elif not rebinds:
                                    blk[j] = _AliasToAttr(x, a_src).visit(nxt)
                            elif not rebinds:
                                blk[j] = _AliasToAttr(x, a_src).visit(nxt)
                            if rebinds:
                                break
    from .C01 import link
    link(c)
    return c


def _subscripts(t):
    while isinstance(t, ast.Subscript):
        yield t
        t = t.value


def derived_state(chk):
    """G-derived-state: whatever Grid stores that was computed from self._layout is refreshed wherever self._layout is rebound"""
    cls0 = chk.mod(U.GRID).cls("Grid")
    cls = attr_alias_view(cls0, "_layout")
    derived, missing = lints.derived_state_refresh(cls, "_layout")
    # a store of DATA into a layout-sized part of a buffer (`self.buf[...][:self._layout.size] = <data>`) is not a cache of the layout:
    # the layout only appears as the extent of the part that is written
    for a, (node, meth) in list(derived.items()):
        tg = [t for t in node.targets if isinstance(t, ast.Subscript)] if isinstance(node, ast.Assign) else []
        if tg and all(any(isinstance(x, ast.Attribute) and src(x) == "self._layout" for sub in _subscripts(t) for x in ast.walk(sub.slice))
                      for t in tg):
            del derived[a]
    # a SNAPSHOT of the layout (`self.a = self._layout`, later put back with `self._layout = self.a`) is meant to keep the layout
    # of the moment it was taken: it is not a cache to refresh
    for a, (node, meth) in list(derived.items()):
        if isinstance(node, ast.Assign) and src(node.value) == "self._layout" and \
                any(isinstance(n, ast.Assign) and any(src(t) == "self._layout" for t in n.targets) and src(n.value) == f"self.{a}"
                    for n in ast.walk(cls)):
            del derived[a]
    undecided_missing = list(getattr(missing, "undecided", ()))
    missing = [(m_, n_, a) for m_, n_, a in missing if a in derived]

    # `x = <new layout>; self.a = f(x); self._layout = x`: the attribute was already computed from the object that becomes the layout
    def from_new_layout(m_, a):
        new = {n.value.id for n in ast.walk(m_) if isinstance(n, ast.Assign) and any(src(t) == "self._layout" for t in n.targets)
               and isinstance(n.value, ast.Name)}
        stores = {x.id for x in ast.walk(m_) if isinstance(x, ast.Name) and isinstance(x.ctx, ast.Store)}
        new = {x for x in new if sum(1 for y in ast.walk(m_) if isinstance(y, ast.Name) and y.id == x and isinstance(y.ctx, ast.Store)) == 1}
        return any(isinstance(n, ast.Assign) and any(src(t) == f"self.{a}" for t in n.targets) and
                   any(isinstance(x, ast.Name) and x.id in new for x in ast.walk(n.value)) for n in ast.walk(m_))
    missing = [(m_, n_, a) for m_, n_, a in missing if not from_new_layout(m_, a)]

    # ... or is refreshed by a method of the grid that is called after the layout was rebound (a helper that does the book-keeping), or
    # by the setter of a `_layout` property (which runs at every rebinding)
    all_meths = {}
    for st_ in cls.body:
        if isinstance(st_, ast.FunctionDef):
            all_meths.setdefault(st_.name, []).append(st_)

    def assigns(fs, a, depth=3):
        for f_ in fs:
            for n in ast.walk(f_):
                if isinstance(n, ast.Assign) and any(src(t) == f"self.{a}" for t in n.targets):
                    return True
                if depth > 0 and isinstance(n, ast.Call) and isinstance(n.func, ast.Attribute) and isinstance(n.func.value, ast.Name) \
                        and n.func.value.id == "self" and n.func.attr in all_meths and all_meths[n.func.attr] is not fs \
                        and assigns(all_meths[n.func.attr], a, depth - 1):
                    return True
        return False

    def refreshed_by_call(m_, n_, a):
        for c in ast.walk(m_):
            if isinstance(c, ast.Call) and isinstance(c.func, ast.Attribute) and isinstance(c.func.value, ast.Name) and c.func.value.id == "self" \
                    and c.func.attr in all_meths and getattr(c, "lineno", 0) >= n_.lineno and assigns(all_meths[c.func.attr], a):
                return True
        return False
    setters = [f_ for f_ in all_meths.get("_layout", []) if any(src(d).endswith(".setter") for d in f_.decorator_list)]
    missing = [(m_, n_, a) for m_, n_, a in missing if not refreshed_by_call(m_, n_, a) and not (setters and assigns(setters, a))]
    if "_f" not in derived:
        chk.ob("G4-layout-derived-state", cls0, "self._f is computed from self._layout", None,
               "the data view self._f is no longer recognised as derived from self._layout: the rule cannot tell which attributes are "
               "caches of the current layout", file=U.GRID, func="Grid")
        return
    for meth, node, a in missing:
        dn, dm = derived[a]
        # ASSUMPTIONS (checked above): the attribute is a cache computed from self._layout (not a data store, not a snapshot), it is not recomputed
        # from the new layout object, by a helper called afterwards, or by the setter of a `_layout` property
        chk.ob("G4-layout-derived-state", node, f"self.{a} refreshed in Grid.{meth.name}", False,
               f"Grid.{meth.name} rebinds self._layout but leaves `self.{a}` (filled from self._layout in Grid.{dm}, line {dn.lineno}) "
               "as it was: afterwards the accessors answer for the previous layout", file=U.GRID, func=f"Grid.{meth.name}")
    # possible omissions the lint could not establish: the same exemptions apply; what is left is undecided
    for m_, n_, a, why_ in undecided_missing:
        if a not in derived or from_new_layout(m_, a) or refreshed_by_call(m_, n_, a) or (setters and assigns(setters, a)):
            continue
        chk.ob("G4-layout-derived-state", n_, f"self.{a} refreshed in Grid.{m_.name}", None,
               f"Grid.{m_.name} rebinds self._layout and may leave `self.{a}` as it was, which could not be established: {why_}",
               file=U.GRID, func=f"Grid.{m_.name}")
    meths = {m.name: m for m in cls.body if isinstance(m, ast.FunctionDef)}
    direct = {nm for nm, m in meths.items() if any(isinstance(n, ast.Assign) and any(src(t) == "self._layout" for t in n.targets)
                                                   for n in ast.walk(m))}
    # methods that change the layout through one of those (a helper that does the book-keeping)
    rebinders = set(direct)
    for _ in range(3):
        for nm, m in meths.items():
            if nm not in rebinders and any(isinstance(c, ast.Call) and isinstance(c.func, ast.Attribute) and isinstance(c.func.value, ast.Name)
                                           and c.func.value.id == "self" and c.func.attr in rebinders for c in ast.walk(m)):
                rebinders.add(nm)
    chk.ob("G4-layout-derived-state", cls0, "every layout-derived attribute refreshed by every method that rebinds self._layout", not missing,
           f"derived attributes {sorted(derived)}; methods rebinding the layout {sorted(rebinders)}", file=U.GRID, func="Grid", nontrivial=False)
    need = {"__init__", "setLayout", "restoreGridValues"}
    if not need <= rebinders:
        chk.ob("G4-layout-derived-state", cls0, "__init__, setLayout and restoreGridValues rebind self._layout", None,
               f"expected __init__, setLayout and restoreGridValues to rebind self._layout (directly or through a helper), found {sorted(rebinders)}: "
               "the rule would not see every place where the current layout changes", file=U.GRID, func="Grid")


def run(chk):
    chk.explanation = (
        "Layout.__init__: the per-axis block table is elaborated symbolically (entries as expressions in the extent n, the process count p, "
        "the table index k and this rank's coordinate R); it is computed in integer arithmetic, normalises to 0 at rank 0 "
        "and n at rank p, and is one of the recognised balanced forms; starts/ends/lengths/shape are compared symbolically with slices and "
        "differences of that one table (telescoping), max_block_shape with ceil(n/p); Grid accessors: layout-axis vs dimension sort inference on "
        "every parameter and subscript, every coordinate slice cuts the table of the dimension carried by that axis, no read of "
        "an undefined attribute; the advertised buffer sizes cover the views taken by the transposes (shape-list agreement). "
        "The arithmetic fact 'lengths differ by at most one' is decided only through the recognised form.")
    chk.in_file(U.LAYOUT)
    m = split_formula(chk)
    table_structure(chk, m)
    grid_accessors(chk)
    lay = chk.mod(U.LAYOUT)
    geometry_check(chk, lay)
    init_buffer(chk, lay)
    coords_follow_comms(chk, lay)
    gather_geometry(chk, lay, "LayoutSwapper._transpose", "dest")
    gather_geometry(chk, lay, "LayoutSwapper._transpose_source_intact", "buf")
    # Grid buffers are allocated with the advertised size
    from .C04 import alloc_agreement
    alloc_agreement(chk, chk.mod(U.GRID))
    # the accessors answer from `self._layout`: it must be the Layout of the layout the grid says it is in, in every state the grid can
    # reach (the typestate model of C04, of which only this invariant is reported here)
    from .C04 import typestate
    try:
        typestate(chk, chk.mod(U.GRID), chk.mod(U.GRID).cls("Grid"), only={"T3-view-coherence"})
    except AnalysisError as e:
        chk.ob("T3-view-coherence", chk.mod(U.GRID).cls("Grid"), "self._layout is the layout named by currentLayout in every reachable state", None,
               f"cannot decide: {e}", file=U.GRID, func="Grid")
    chk.floor("P2-", 14)
    chk.floor("C-sort", 4)
    chk.floor("G1-", 1)


# --- engine I (pgverif/oneshot.py): one-shot iterators handed out by the grid accessors are walked once per creation and never memoised.
# Run first so that its reports do not depend on the idiom recognition of the rules above.
_run_before_engine_I = run


def run(chk):  # noqa: F811
    from ..oneshot import attach
    attach(chk, [(U.GRID, None), (U.LAYOUT, None)])
    _run_before_engine_I(chk)
