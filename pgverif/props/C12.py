"""C12 - poloidal advection traces 2nd-order ExB characteristics and interpolates at the foot.

Engine F: the predictor, corrector, boundary fill and (implicit scheme) fixed-point map and
convergence measure are extracted from the kernels as formulas and compared with the
specification written from the property statement.  Plus dispatch / argument-role agreement.
"""
from __future__ import annotations

import ast
import itertools
import re

import sympy as sp
from sympy import Symbol, Rational, Integer

from ..core import src, AnalysisError
from .. import units as U
from ..symx import (SymExec, Arr, ITE, Wrap, PI, make_args, Undecided, canon_rel, consistent, collect_ites,
                    alg_equal)
from ..kernels import SPLINE_HANDLERS, S2, FEQ, h_cross, h_scalar2
from .. import agree

EXPL = "general_poloidal_advection_step_expl"
IMPL = "general_poloidal_advection_step_impl"


def setup(fn):
    args = make_args(fn, funcs={"eval_spline_2d_cross": h_cross, "eval_spline_2d_scalar": h_scalar2})
    ex = SymExec(fn, args, calls=dict(SPLINE_HANDLERS))
    return ex, args


def spec_symbols(args):
    i, j = Symbol("i", integer=True), Symbol("j", integer=True)
    q = args["qPts"].fn(i)
    r = args["rPts"].fn(j)
    dt, B0, v = args["dt"], args["B0"], args["v"]
    phi = tuple(Symbol("arr_" + n) if n.startswith(("kts", "coeffs")) else args[n]
                for n in ("kts1Phi", "deg1Phi", "kts2Phi", "deg2Phi", "coeffsPhi"))
    pol = tuple(Symbol("arr_" + n) if n.startswith(("kts", "coeffs")) else args[n]
                for n in ("kts1Pol", "deg1Pol", "kts2Pol", "deg2Pol", "coeffsPol"))
    consts = [args[n] for n in ("CN0", "kN0", "deltaRN0", "rp", "CTi", "kTi", "deltaRTi")]
    r0 = args["rPts"].fn(Integer(0))
    nr = Symbol("n0_rPts", integer=True, positive=True)
    rmax = args["rPts"].fn(nr - 1)

    def dr_phi(th, rr):
        return S2(th, rr, 0, 1, *phi)

    def dth_phi(th, rr):
        return S2(th, rr, 1, 0, *phi)
    return dict(i=i, j=j, q=q, r=r, dt=dt, B0=B0, v=v, phi=phi, pol=pol, consts=consts, r0=r0, rmax=rmax,
                dr_phi=dr_phi, dth_phi=dth_phi)


def fill_spec(S, th_foot, r_foot, nul):
    inside = S2(Wrap(th_foot), r_foot, 0, 0, *S["pol"])
    null_fill = ITE(sp.Lt(r_foot, S["r0"]), Integer(0), ITE(sp.Gt(r_foot, S["rmax"]), Integer(0), inside))
    feq_fill = ITE(sp.Lt(r_foot, S["r0"]), FEQ(S["r0"], S["v"], *S["consts"]),
                   ITE(sp.Gt(r_foot, S["rmax"]), FEQ(r_foot, S["v"], *S["consts"]), inside))
    return ITE(nul, null_fill, feq_fill)


# ---------------------------------------------------------------------------------------------------------
# comparison of conditionals level by level
#
# `symx.sym_equal` builds one truth table over the atomic comparisons of all conditionals as they are written.  An
# atom whose operands themselves contain a conditional (the corrected foot is compared with the radial bounds, and
# the corrector contains the in/out-of-domain conditional of the predictor point) is then only recognised as the
# same atom when the inner conditional is written the same way (`ITE(not c, a, b)` vs `ITE(c, b, a)` are two
# different texts).  Here the conditionals are resolved from the inside out: first the conditions that contain no
# conditional are given truth values, the conditionals they decide are replaced by the chosen arm, which makes the
# next layer of conditions conditional-free, and so on.  Atoms are identified up to polynomial identity.
# ---------------------------------------------------------------------------------------------------------

class _Atoms:
    """truth assignment over canonical atoms `(kind, expr)`; atoms whose expressions are identical as rational
    functions are one atom"""

    def __init__(self):
        self.rep = {}            # syntactic key -> representative key

    def key(self, k, e):
        if (k, e) in self.rep:
            return self.rep[(k, e)]
        r = (k, e)
        if k != "atom":
            for (k2, e2) in set(self.rep.values()):
                if k2 == k and e2 is not e and _same_rational(e, e2):
                    r = (k2, e2)
                    break
        self.rep[(k, e)] = r
        return r


def _same_rational(a, b):
    if a == b:
        return True
    if a.free_symbols != b.free_symbols:
        return False
    try:
        n, _ = sp.fraction(sp.together(a - b))
        return sp.expand(n) == 0
    except Exception:
        return False


def _cond_atoms(c, A, acc):
    if isinstance(c, (sp.And, sp.Or)) or (isinstance(c, sp.Not) and isinstance(c.args[0], (sp.And, sp.Or))):
        for a in (c.args if not isinstance(c, sp.Not) else c.args[0].args):
            _cond_atoms(a, A, acc)
    elif c in (sp.true, sp.false):
        return
    else:
        k, e, _n = canon_rel(c)
        acc.add(A.key(k, e))


def _cond_eval(c, A, val):
    """truth value of an ITE-free condition under `val`, None when one of its atoms has no value yet"""
    if c is sp.true:
        return True
    if c is sp.false:
        return False
    if isinstance(c, (sp.And, sp.Or)):
        vs = [_cond_eval(a, A, val) for a in c.args]
        if isinstance(c, sp.And):
            return False if any(v is False for v in vs) else None if any(v is None for v in vs) else True
        return True if any(v is True for v in vs) else None if any(v is None for v in vs) else False
    if isinstance(c, sp.Not) and isinstance(c.args[0], (sp.And, sp.Or)):
        v = _cond_eval(c.args[0], A, val)
        return None if v is None else not v
    k, e, n = canon_rel(c)
    key = A.key(k, e)
    if key not in val:
        return None
    return (not val[key]) if n else val[key]


def _resolve(e, A, val):
    """replace, bottom-up, every conditional whose condition is decided by `val` by the chosen arm"""
    if not getattr(e, "args", None) or not e.has(ITE):
        return e
    if isinstance(e, ITE):
        c = _resolve(e.args[0], A, val)
        if not c.has(ITE):
            v = _cond_eval(c, A, val)
            if v is not None:
                return _resolve(e.args[1] if v else e.args[2], A, val)
        return ITE(c, _resolve(e.args[1], A, val), _resolve(e.args[2], A, val))
    return e.func(*[_resolve(a, A, val) for a in e.args])


def layered_equal(a, b, max_atoms=14):
    """equality of two extracted expressions with nested conditionals -> (bool, witness)"""
    A = _Atoms()

    def rec(a, b, val):
        ites = []
        collect_ites(a, ites)
        collect_ites(b, ites)
        if not ites:
            if alg_equal(a, b):
                return True, None
            return False, {"case": {f"{k}:{e}": v for (k, e), v in val.items()}, "code": str(a)[:300], "spec": str(b)[:300]}
        ready = [t for t in ites if not t.args[0].has(ITE)]
        if not ready:
            raise Undecided("conditional whose condition cannot be freed of conditionals")
        atoms = set()
        for t in ready:
            _cond_atoms(t.args[0], A, atoms)
        new = sorted(atoms - set(val), key=str)
        if not new:
            raise Undecided("conditional not resolved by its own atoms")
        if len(val) + len(new) > max_atoms:
            raise Undecided(f"{len(val) + len(new)} atomic conditions")
        for bits in itertools.product([False, True], repeat=len(new)):
            v2 = dict(val)
            v2.update(zip(new, bits))
            if not consistent(v2):
                continue
            ok, wit = rec(_resolve(a, A, v2), _resolve(b, A, v2), v2)
            if not ok:
                return ok, wit
        return True, None
    return rec(a, b, {})


def unify_shapes(e, args):
    """every two-dimensional argument of the kernels lives on the (theta, r) grid: `X.shape[0]` is the number of
    theta points and `X.shape[1]` the number of r points whatever array X it is read from (the kernels' precondition,
    asserted by PoloidalAdvection.step for f and true by construction for the work arrays)"""
    if not isinstance(e, sp.Basic):
        return e
    sub = {}
    for s_ in e.free_symbols:
        m = _SHAPE_SYM.match(s_.name)
        if m and m.group(2) in args and isinstance(args[m.group(2)], Arr) and m.group(2) not in ("qPts", "rPts") \
                and not m.group(2).startswith(("kts", "coeffs")):
            sub[s_] = Symbol("n0_qPts" if m.group(1) == "0" else "n0_rPts", integer=True, positive=True)
    return e.xreplace(sub) if sub else e


_SHAPE_SYM = re.compile(r"^n([01])_(\w+)$")


def compare(chk, rule, node, what, code, spec, func, args=None, diagnose=None):
    """decisive verdict of the formula engine; anything that prevents the comparison is UNDECIDED"""
    try:
        if args is not None:
            code = unify_shapes(code, args)
        ok, wit = layered_equal(code, spec)
    except Undecided as e:
        chk.ob(rule, node, what, None, f"comparison not decidable: {e}", file=U.ADVK, func=func)
        return None
    why = "extracted formula equals the specification"
    if not ok:
        why = f"extracted formula differs from the specification: {wit}"
        if diagnose is not None:
            try:
                d = diagnose(code)
            except Exception:
                d = None
            if d:
                why = d + " - " + why
    chk.ob(rule, node, what, ok, why, file=U.ADVK, func=func,
           facts={"code": str(code)[:400], "spec": str(spec)[:400]})
    return ok


def cell(ex, name, idx):
    """content of one array cell after symbolic execution; Undecided when the array is gone or the cell may alias"""
    a = ex.env.get(name)
    if not isinstance(a, Arr):
        raise Undecided(f"array `{name}` is not bound after the symbolic execution")
    return a.read(list(idx))


def check_explicit(chk, mod, modname=U.ADVK, qname=EXPL):
    fn = mod.func(qname)
    chk.functions.add(f"{modname}:{qname}")
    ex, args = setup(fn)
    try:
        ex.run()
    except Undecided as e:
        chk.ob("F1-extraction", fn, qname, None, f"kernel outside the extractable fragment: {e}", file=modname, func=qname)
        return
    S = spec_symbols(args)
    i, j = S["i"], S["j"]
    mf = S["dt"] / S["B0"]
    F0_th = S["dr_phi"](S["q"], S["r"]) / S["r"]
    F0_r = S["dth_phi"](S["q"], S["r"]) / S["r"]
    th1 = Wrap(S["q"] - F0_th * mf)
    r1 = S["r"] + F0_r * mf
    got_th1 = ex.env["endPts_k1_q"].read([i, j])
    got_r1 = ex.env["endPts_k1_r"].read([i, j])
    compare(chk, "F1-predictor", fn, "theta* = W(theta_i - (d_r phi/r_j) dt/B0)", got_th1, th1, qname)
    compare(chk, "F1-predictor", fn, "r* = r_j + (d_theta phi/r_j) dt/B0", got_r1, r1, qname)
    inside = sp.Not(sp.Or(sp.Lt(r1, S["r0"]), sp.Gt(r1, S["rmax"])))
    F1_th = ITE(inside, S["dr_phi"](th1, r1) / r1, Integer(0))
    F1_r = ITE(inside, S["dth_phi"](th1, r1) / r1, Integer(0))
    th2 = Wrap(S["q"] - Rational(1, 2) * (F0_th + F1_th) * mf)
    r2 = S["r"] + Rational(1, 2) * (F0_r + F1_r) * mf
    got_th2 = ex.env["endPts_k2_q"].read([i, j])
    got_r2 = ex.env["endPts_k2_r"].read([i, j])
    # endPts_k2_q may have been wrapped once more inside the fill branch: idempotent
    compare(chk, "F1-corrector", fn, "theta_foot = W(theta_i - 1/2 (F_th(x) + F_th(x*)) dt/B0)", Wrap(got_th2), th2, qname)
    compare(chk, "F1-corrector", fn, "r_foot = r_j + 1/2 (F_r(x) + F_r(x*)) dt/B0", got_r2, r2, qname)
    nul = args["nulBound"]
    got_f = ex.env["f"].read([i, j])
    compare(chk, "F1-boundary-fill", fn, "f[i,j] = fill(theta_foot, r_foot)", got_f, fill_spec(S, th2, r2, nul), qname)


def check_implicit(chk, mod, modname=U.ADVK, qname=IMPL):
    fn = mod.func(qname)
    chk.functions.add(f"{modname}:{qname}")
    whiles = [n for n in fn.body if isinstance(n, ast.While)]
    if len(whiles) != 1:
        raise AnalysisError(f"C12: expected one top-level while loop in {qname}")
    w = whiles[0]
    k = fn.body.index(w)
    # ---- phase 1: predictor (statements before the while)
    pre = ast.FunctionDef(name="_pre", args=fn.args, body=fn.body[:k], decorator_list=[], lineno=fn.lineno)
    ex, args = setup(pre)
    try:
        ex.run()
    except Undecided as e:
        chk.ob("F1-extraction", fn, qname + " (predictor)", None, f"outside the extractable fragment: {e}", file=modname, func=qname)
        return
    S = spec_symbols(args)
    i, j = S["i"], S["j"]
    mf = S["dt"] / S["B0"]
    F0_th = S["dr_phi"](S["q"], S["r"]) / S["r"]
    F0_r = S["dth_phi"](S["q"], S["r"]) / S["r"]
    compare(chk, "F1-predictor", fn, "theta* = theta_i - (d_r phi/r_j) dt/B0 (initial iterate)",
            Wrap(ex.env["endPts_k1_q"].read([i, j])), Wrap(S["q"] - F0_th * mf), qname)
    compare(chk, "F1-predictor", fn, "r* = r_j + (d_theta phi/r_j) dt/B0 (initial iterate)",
            ex.env["endPts_k1_r"].read([i, j]), S["r"] + F0_r * mf, qname)
    norm0 = ex.env.get("norm")
    tol = args["tol"]
    okn = norm0 is not None and sp.simplify(norm0 - tol) != 0 and sp.simplify(norm0 - tol).is_positive is not False
    # loop condition: iterate while the measure exceeds the tolerance
    t = w.test
    okt = isinstance(t, ast.Compare) and len(t.ops) == 1 and (
        (isinstance(t.ops[0], ast.Gt) and src(t.left) == "norm" and src(t.comparators[0]) == "tol") or
        (isinstance(t.ops[0], ast.Lt) and src(t.left) == "tol" and src(t.comparators[0]) == "norm"))
    chk.ob("F1-convergence-test", w, src(w.test), bool(okt and okn),
           "iteration continues exactly while the measure exceeds tol and is entered at least once" if okt and okn else
           f"loop test ok={okt}, initial measure above tol ok={okn} (norm0={norm0})", file=modname, func=qname)
    # ---- phase 2: one iteration of the map, from a generic iterate (Q, R)
    body = w.body
    if not (body and isinstance(body[0], ast.Assign) and src(body[0].targets[0]) == "norm"):
        raise AnalysisError(f"C12: while body of {qname} does not start by resetting the measure")
    loops = [n for n in body if isinstance(n, ast.For)]
    if len(loops) != 1 or not (loops[0].body and isinstance(loops[0].body[0], ast.For)):
        raise AnalysisError(f"C12: iteration body of {qname} is not a double loop")
    inner = loops[0].body[0].body
    ex2, args2 = setup(ast.FunctionDef(name="_it", args=fn.args, body=[], decorator_list=[], lineno=fn.lineno))
    # state at loop entry: every local as after the predictor phase; the current iterate is generic
    from ..symx import Arr as _Arr
    for nm, val in ex.env.items():
        if nm not in ("endPts_k1_q", "endPts_k1_r"):
            ex2.env[nm] = val
    Q, R = _Arr("endPts_k1_q"), _Arr("endPts_k1_r")
    ex2.env["endPts_k1_q"], ex2.env["endPts_k1_r"] = Q, R
    n_in = Symbol("norm_in", real=True)
    ex2.env["norm"] = n_in
    ex2.env["i"], ex2.env["j"] = i, j
    try:
        ex2.block(inner)
    except Undecided as e:
        chk.ob("F1-extraction", w, qname + " (iteration)", None, f"outside the extractable fragment: {e}", file=modname, func=qname)
        return
    th_k = Wrap(Q.fn(i, j))
    r_k = R.fn(i, j)
    inside = sp.Not(sp.Or(sp.Lt(r_k, S["r0"]), sp.Gt(r_k, S["rmax"])))
    Fk_th = ITE(inside, S["dr_phi"](th_k, r_k) / r_k, Integer(0))
    Fk_r = ITE(inside, S["dth_phi"](th_k, r_k) / r_k, Integer(0))
    th_n = Wrap(S["q"] - Rational(1, 2) * (F0_th + Fk_th) * mf)
    r_un = S["r"] + Rational(1, 2) * (F0_r + Fk_r) * mf
    r_n = ITE(sp.Lt(r_un, S["r0"]), S["r0"], ITE(sp.Gt(r_un, S["rmax"]), S["rmax"], r_un))
    compare(chk, "F1-fixed-point-map", w, "theta_{k+1} = W(theta_i - 1/2 (F_th(x_0) + F_th(x_k)) dt/B0)",
            ex2.env["endPts_k1_q"].read([i, j]), th_n, qname)
    compare(chk, "F1-fixed-point-map", w, "r_{k+1} = clip(r_j + 1/2 (F_r(x_0) + F_r(x_k)) dt/B0)",
            ex2.env["endPts_k1_r"].read([i, j]), r_n, qname)
    compare(chk, "F1-fixed-point-map", w, "endPts_k2 holds the new iterate (used by the fill)",
            ex2.env["endPts_k2_r"].read([i, j]), r_n, qname)
    compare(chk, "F1-fixed-point-map", w, "endPts_k2_q holds the new angle (used by the fill)",
            ex2.env["endPts_k2_q"].read([i, j]), th_n, qname)
    # convergence measure: max over both coordinates, periodic distance in theta
    d0 = sp.Abs(th_n - th_k)
    dth = ITE(sp.Gt(d0, PI), 2 * PI - d0, d0)
    m1 = ITE(sp.Gt(dth, n_in), dth, n_in)
    dr = sp.Abs(r_n - r_k)
    m2 = ITE(sp.Gt(dr, m1), dr, m1)
    compare(chk, "F1-convergence-measure", w, "norm = max(norm, periodic |dtheta|, |dr|)", ex2.env["norm"], m2, qname)
    # ---- phase 3: fill after convergence (statements after the while), from generic converged foot
    post = ast.FunctionDef(name="_post", args=fn.args, body=fn.body[k + 1:], decorator_list=[], lineno=fn.lineno)
    ex3, args3 = setup(post)
    ex3.env["rMax"] = ex.env["rMax"]
    ex3.env["nPts_r"] = ex.env["nPts_r"]
    ex3.env["nPts_q"] = ex.env["nPts_q"]
    ex3.env["pi"] = PI
    try:
        ex3.run()
    except Undecided as e:
        chk.ob("F1-extraction", fn, qname + " (fill)", None, f"outside the extractable fragment: {e}", file=modname, func=qname)
        return
    thf = ex3.env["endPts_k2_q"].fn(i, j)
    rf = ex3.env["endPts_k2_r"].fn(i, j)
    S3 = spec_symbols(args3)
    compare(chk, "F1-boundary-fill", fn, "f[i,j] = fill(theta_foot, r_foot)", ex3.env["f"].read([i, j]),
            fill_spec(S3, thf, rf, args3["nulBound"]), qname)


def call_site_roles(chk):
    """E-roles at the two kernel calls of PoloidalAdvection.step, and the (theta, r) ordering"""
    mod = chk.mod(U.ADV)
    kmod = chk.mod(U.ADVK)
    fn = chk.func(U.ADV, "PoloidalAdvection.step")
    init = chk.func(U.ADV, "PoloidalAdvection.__init__")
    pts = [n for n in ast.walk(init) if isinstance(n, ast.Assign) and src(n.targets[0]) == "self._points"]
    okp = len(pts) == 1 and src(pts[0].value) == "eta_vals[1::-1]"
    chk.ob("E2-point-order", init, "self._points = eta_vals[1::-1]", okp,
           "points are (theta, r): index 0 = theta, index 1 = r" if okp else "unexpected point ordering",
           file=U.ADV, func="PoloidalAdvection.__init__")
    for kname in ("poloidal_advection_step_expl", "poloidal_advection_step_impl"):
        calls = [c for c in ast.walk(fn) if isinstance(c, ast.Call) and isinstance(c.func, ast.Name) and c.func.id == kname]
        if len(calls) != 1:
            raise AnalysisError(f"C12: call to {kname} not found in PoloidalAdvection.step")
        c = calls[0]
        formals = [a.arg for a in kmod.func(kname).args.args]
        agree.check_roles(chk, U.ADV, "PoloidalAdvection.step", c, formals, {
            "self._points[1]": "rPts", "self._points[0]": "qPts",
            "self._drPhi_0": "drPhi_0", "self._dqPhi_0": "dthetaPhi_0", "self._drPhi_k": "drPhi_k",
            "self._dqPhi_k": "dthetaPhi_k", "self._endPts_k1_q": "endPts_k1_q", "self._endPts_k1_r": "endPts_k1_r",
            "self._endPts_k2_q": "endPts_k2_q", "self._endPts_k2_r": "endPts_k2_r",
            "phiBases[0].knots": "kts1Phi", "phiBases[1].knots": "kts2Phi", "phi.coeffs": "coeffsPhi",
            "phiBases[0].degree": "deg1Phi", "phiBases[1].degree": "deg2Phi",
            "polBases[0].knots": "kts1Pol", "polBases[1].knots": "kts2Pol", "self._spline.coeffs": "coeffsPol",
            "polBases[0].degree": "deg1Pol", "polBases[1].degree": "deg2Pol",
            "phiBases[0].cubic_uniform": "cubic_uniform_splines", "self._nulEdge": "nulBound", "self._TOL": "tol",
            "f": "f", "float(dt)": "dt", "v": "v",
        }, const_recv="self._constants")
    env = {n.targets[0].id: src(n.value) for n in ast.walk(fn) if isinstance(n, ast.Assign) and isinstance(n.targets[0], ast.Name)}
    okb = env.get("phiBases") == "phi.basis" and env.get("polBases") == "self._spline.basis"
    chk.ob("E2-basis-sources", fn, "phiBases / polBases", okb,
           "potential bases come from the potential spline, distribution bases from the interpolated distribution"
           if okb else f"unexpected sources {env.get('phiBases')}, {env.get('polBases')}", file=U.ADV, func="PoloidalAdvection.step")
    # the distribution is interpolated before the kernel is called
    stmts = fn.body
    idx_interp = [k for k, s_ in enumerate(stmts) if "compute_interpolant(f, self._spline)" in src(s_)]
    idx_kernel = [k for k, s_ in enumerate(stmts) if "poloidal_advection_step_" in src(s_)]
    oki = bool(idx_interp) and bool(idx_kernel) and idx_interp[0] < idx_kernel[0]
    chk.ob("E2-interpolate-before-evaluate", fn, "compute_interpolant(f, self._spline)", oki,
           "the spline of f is computed from the current nodal values before the feet are evaluated" if oki else
           "the distribution spline is not recomputed before the kernel call", file=U.ADV, func="PoloidalAdvection.step")


def run(chk):
    chk.explanation = (
        "Formula conformance by symbolic forward substitution (engine F): predictor, Heun corrector, boundary fill of "
        "the explicit kernel; initial iterate, halved step factor, fixed-point map with clipping, convergence measure "
        "and loop test, and fill of the implicit kernel, each compared as rational functions / conditionals with the "
        "specification written from the property statement (drift (-d_r phi, d_theta phi)/(r B0), trapezoidal rule, "
        "theta mod 2 pi, fill values). Plus fast-path/general-path dispatch agreement and argument-role agreement at "
        "the kernel call sites. Termination of the implicit iteration, accuracy orders and rigid-rotation exactness "
        "are numerical consequences and are not decided.")
    chk.assumptions += ["the spline evaluators have the semantics stated by C07 (uninterpreted S2(x,y,der1,der2;family))",
                        "f_eq is the equilibrium distribution with argument roles (r, v, constants...)"]
    chk.trusted.append("sympy expand/together as polynomial normaliser")
    mod = chk.mod(U.ADVK)
    chk.in_file(U.ADVK)
    check_explicit(chk, mod)
    check_implicit(chk, mod)
    for w, g in (("poloidal_advection_step_expl", EXPL), ("poloidal_advection_step_impl", IMPL)):
        agree.check_wrapper_dispatch(chk, mod, w, g)
    call_site_roles(chk)
    # per-z potential splines (state anchor of the property): distinct objects, consistent index space, own plane/velocity
    from .C05 import poloidal
    poloidal(chk)
    from .. import lints as _l
    _l.check_cache_keys(chk, U.ADV, "PoloidalAdvection")
    chk.floor("F1-", 14)
    chk.floor("E", 6)
